#!/bin/sh
# usage: tools/scratch.sh <dir>   — make a scratch copy of /repo's working tree (no target/, no .git)
set -e
d="$1"; rm -rf "$d"; mkdir -p "$d"
rsync -a --exclude target --exclude .git /repo/ "$d"/
