#!/usr/bin/env python3
"""tools/mirdump.py <body-suffix> — compact MIR listing of one body from the current facts."""
import sys, json, os
sys.path.insert(0, os.path.dirname(os.path.dirname(os.path.abspath(__file__))))
from sq import facts as F

def pl(p):
    s = "_%d" % p["local"]
    for x in p["proj"]:
        k = x["k"]
        if k == "deref": s = "(*%s)" % s
        elif k == "field": s = "%s.%s" % (s, x.get("name") if x.get("name") is not None else x["i"])
        elif k == "index": s = "%s[_%d]" % (s, x["local"])
        elif k == "cindex": s = "%s[%d]" % (s, x["offset"])
        elif k == "downcast": s = "(%s as %s)" % (s, x.get("variant"))
        else: s = "%s.<%s>" % (s, k)
    return s

def op(o):
    if "const" in o:
        c = o["const"]
        for k in ("int", "str", "fn", "float_bits", "promoted", "opaque"):
            if k in c: return "const %s:%s" % (k, str(c[k])[:50])
        return "const %s" % c.get("ty")
    if "copy" in o: return pl(o["copy"])
    if "move" in o: return "move " + pl(o["move"])
    return str(o)

def rv(r):
    k = r["k"]
    if k == "use": return op(r["x"])
    if k == "bin": return "%s(%s, %s)" % (r["op"], op(r["l"]), op(r["r"]))
    if k == "un": return "%s(%s)" % (r["op"], op(r["x"]))
    if k == "cast": return "%s as %s [%s]" % (op(r["x"]), r["to"]["s"], r["kind"])
    if k == "ref": return "&%s%s" % ("mut " if r["mut"] else "", pl(r["place"]))
    if k == "discr": return "discr(%s)" % pl(r["place"])
    if k == "agg": return "%s%s[%s]" % (r.get("agg"), ":" + (r.get("adt") or r.get("closure") or "") if r.get("agg") in ("adt", "closure") else "", ", ".join(op(x) for x in r["ops"]))
    if k == "copy_for_deref": return "deref_copy %s" % pl(r["place"])
    if k == "repeat": return "[%s; %s]" % (op(r["x"]), r.get("n"))
    return str(r)[:100]

def main():
    f = F.load()
    for b in f.by_suffix(sys.argv[1]) or [x for n, x in f.bodies.items() if sys.argv[1] in n][:3]:
        print("==", b.name, "args", b.arg_count, b.j.get("captures"))
        for i, l in enumerate(b.locals):
            print("   _%d: %s %s" % (i, l["ty"]["s"], l.get("name") or ""))
        for i, blk in enumerate(b.blocks):
            if blk["cleanup"] and "--all" not in sys.argv: continue
            print(" bb%d:" % i)
            for s in blk["stmts"]:
                if s["k"] == "assign": print("    %s = %s" % (pl(s["place"]), rv(s["rv"])))
                else: print("    ", s["k"])
            t = blk["term"]; k = t["k"]
            if k == "call":
                c = t["callee"]
                print("    %s = call %s(%s) -> bb%s" % (pl(t["dest"]), c.get("instance") or c.get("path"), ", ".join(op(a) for a in t["args"]), t["target"]))
            elif k == "switch": print("    switch %s %s else bb%d" % (op(t["discr"]), ["%s->bb%d" % (v, b) for v, b in t["targets"]], t["otherwise"]))
            elif k == "assert": print("    assert %s == %s [%s] -> bb%d" % (op(t["cond"]), t["expected"], t["kind"], t["target"]))
            elif k in ("goto", "drop"): print("    %s -> bb%d" % (k, t["target"]))
            else: print("    %s" % k)
main()
