#!/usr/bin/env python3
"""tools/mkbenign.py <area-id> <worktree> — prompt for an independent sub-agent that writes a BEHAVIOUR-PRESERVING refactoring
of one area of the repository (nothing from /verif is shown to it).  The checks must stay silent on the result."""
import sys

AREAS = {
    "velocity": "the TC19 airborne velocity decoding: src/decoder/adsb/ (ground speed / track / vertical rate / heading / airspeed helpers, whatever files implement them) and how Plane stores them",
    "callsign": "the identification decoding: callsign (ais) character table and emitter category (src/decoder/adsb/ais.rs or wherever it lives) and the code that stores them on Plane on both update paths",
    "bcast": "the short/long surveillance reply handling: Plane::update / update_from_bcast / from_downlink Srt paths - altitude (AC), identity (ID), flight status, capability",
    "ehs": "the Comm-B register decoding under src/decoder/ehs/ and src/decoder/bds/ that was NOT yet touched: BDS 1,7 capability report, BDS 4,4 / 4,5 meteo registers, BDS 2,0 / 3,0, and the code that stores their fields on Plane",
    "tcp": "the input side outside the per-line loop: src/main.rs, src/args.rs (keep every option and its meaning), src/reader.rs spawn_reader_thread / connect_and_read_tcp / file reading set-up, src/logger.rs",
    "counters": "src/counters.rs and the legend / header / counters printing (src/decoder/plane/header.rs, legend, the DF counters line) - everything that is printed around the table",
    "cprstate": "the CPR pairing state on Plane: how even/odd halves and their timestamps are kept, the 10 s pairing window, surface vs airborne handling, distance to the observer (src/decoder/plane/update_position.rs, from_ext paths, position.rs helpers other than cpr_location's core arithmetic)",
    "dfstruct": "the DF / Downlink structures and DF::from_message dispatch (src/decoder/downlink*, df.rs, Srt/Ext/Mds or however they are named) - constructors, field extraction, the trait UpdateFromDownlink dispatch",
    # round 3: cross-cutting themes rather than areas
    "casts": "every `as` cast and every magic number in src/decoder/utils/ and src/decoder/adsb/ (bit-field extraction, CRC, altitude, squawk, velocity, position): replace casts by From/TryFrom/checked conversions where provably identical, name the constants, and rewrite the index arithmetic of the bit-field helpers (range_value / flag_and_range_value / bit_location or however they are called) in a clearer but equivalent way",
    "crcloops": "the CRC / parity code (src/decoder/utils/crc.rs and its callers in the frame gate and in the address recovery): turn the hand-written shift/xor loops into iterator form (fold / chunks / zip ...) or into a differently organised loop (bytewise with an on-the-fly computed table entry, word-wise, ...) that computes exactly the same 24-bit remainder for every input",
    "modules": "the module layout of src/decoder/plane/ and src/decoder/: move private helper functions to where they are used, rename private functions and locals to clearer names, merge or split small modules (from_squitter/from_downlink/from_ext/from_bcast ...), turn free functions into methods or vice versa - WITHOUT changing any public path or signature re-exported from src/lib.rs and without changing behaviour",
    "tablemap": "the aircraft table in src/decoder/planes.rs: how rows are looked up, inserted, updated, swept and collected for printing - e.g. use the entry API, get_or_insert-style helpers, `retain` vs collect-and-remove, iterator adaptors for the printed list, a small private struct for the sort keys - keeping exactly the same rows, the same order of printed lines for every -o string (including ties), the same sweep cadence and the same log records",
    "rowcells": "the row renderer src/decoder/plane/simple_display.rs: restructure how a table line is produced (per-column helper functions or closures, a small macro, match instead of if-let chains, a shared helper for 'value or blanks of width N', one write! per column group) so that every line is byte-for-byte the same as before for every aircraft state and every -i flag set",
    "readloop": "src/reader.rs per-line loop: restructure it (e.g. a `fn handle_line(&str, &Args, &mut Planes, ..)` called from the loop, a read_until/BufRead::read_line based loop with a reused buffer instead of split(), early returns instead of let-else-continue, a small struct holding the per-run state such as counters and log file) with exactly the same accepted/rejected lines, the same order of side effects (logging, counting, table update, sweep, refresh) and the same end-of-input / I/O-error behaviour",
    "gillham": "the Gillham / Gray-code altitude path and the squawk (identity code) decoding: src/decoder/adsb/altitude/graytobin.rs, altitude.rs, squawk.rs, ma_code.rs - rewrite the bit shuffling with tables, loops or helper closures (a different but equivalent formulation), keeping every decoded value identical for all 2^13 / 2^12 field values, INCLUDING any value that looks wrong to you (do not fix anything)",
    "ehsvalid": "the plausibility rules of the Comm-B registers BDS 4,0 / 5,0 / 6,0 (src/decoder/bds/*.rs, src/decoder/ehs/*.rs): restructure the validity checks and field decoders (status-bit handling, sign handling, scaling) with helper functions, early returns, tables of (status bit, first bit, last bit, scale) - every register must be recognised / rejected for exactly the same frames and every decoded value must be identical",
}

aid, wt = sys.argv[1], sys.argv[2]
print(f"""You are given a scratch git worktree of a small Rust project (meslab/squitterator, an ADS-B / Mode S squitter decoder CLI) at {wt} . Work ONLY inside that directory (never touch /repo or /verif). The sandbox is offline: use `cargo build --offline` / `cargo test --offline`.

YOUR TASK: write a BEHAVIOUR-PRESERVING refactoring / clean-up of this area of the code base:

    {AREAS[aid]}

(first find the files that actually implement it: read src/ - the description above may not name them exactly).

Make it the kind of clean-up a maintainer would happily accept, and make it substantial (40-120 changed lines): extract helpers, replace nested match/if chains by early returns / `?` / combinators (or the other way round), turn repeated code into a table + loop or an iterator chain, name magic numbers as constants, use other std APIs with the same meaning (e.g. u32::from instead of `as`, checked_/saturating_ ops where provably identical, matches!, then_some, filter, zip, fold, contains, tuple comparisons, slice patterns), merge identical match arms, hoist common sub-expressions, change private signatures. Use idiomatic, varied Rust - not just renames.

HARD REQUIREMENT: for EVERY possible input (every frame, every sequence of frames, every option combination, every timing) the program must behave exactly as before: same decoded values stored in the same fields under the same conditions, same rows, same printed text, same counters, same log records at the same level in the same order, same panics-or-not, same order of side effects. No bug fixes, no "improvements" of behaviour, no new dependencies, no edits to existing tests, no public API signature changes. If you are not sure two spellings are equivalent for every input (overflow, negative values, NaN, empty collections, boundary values), do not use them. Think about edge cases explicitly.

Check: `cargo build --offline` has no new warnings, `cargo test --offline` passes (66 unit tests + doc tests) - give the counts.

Deliver, inside {wt}:
  * refactor.patch - `git diff -- src` of your change,
  * NOTES.md - what changed, and for each rewrite a short argument why it is equivalent for every input (name the edge cases you considered).
Leave the worktree with the patch APPLIED. NEVER use `git stash` (the stash is shared with sibling worktrees of other agents). In your final message summarise in a few lines.""")
