#!/usr/bin/env python3
"""tools/mkprompt.py <Cxx> <worktree> [taken-ideas text] — prompt for an independent sub-agent that writes a breaking change
(only the property text and its own scratch worktree; nothing from /verif)."""
import json
import sys

pid, wt = sys.argv[1], sys.argv[2]
taken = sys.argv[3] if len(sys.argv) > 3 else ""
P = None
for l in open("/verif/properties.jsonl"):
    j = json.loads(l)
    if j["id"] == pid:
        P = j
a = P["anchors"]
mech = "; ".join("%s (%s)" % (m.get("name"), m.get("where")) for m in a.get("mechanism", []) or [])
state = "; ".join("%s: %s" % (m.get("name"), m.get("meaning")) for m in a.get("state", []) or [])
print(f"""You are given a scratch git worktree of a small Rust project (meslab/squitterator, an ADS-B / Mode S squitter decoder CLI) at {wt} . Work ONLY inside that directory (never touch /repo or /verif). The sandbox is offline: use `cargo build --offline` / `cargo test --offline`.

Here is a semantic property the project is supposed to satisfy:

ID: {P['id']}
TITLE: {P['title']}
STATEMENT: {P['statement']}
QUANTIFIED OVER: {P['quantifier']['text']}
WHY THE EXISTING TESTS CANNOT SETTLE IT: {P['why_tests_cant']}
WHERE IT LIVES (anchors): files {', '.join(a.get('files', []))}; mechanisms: {mech}{('; state: ' + state) if state else ''}

IDEAS ALREADY TAKEN (do something of a different nature, ideally subtler - e.g. two cooperating edits, a refactoring that moves code into a helper or rewrites a condition, a state-dependent or option-dependent effect, a boundary value): {taken}

YOUR TASK: write ONE realistic source change to the project that BREAKS this property while (a) the project still compiles, and (b) the existing test suite (`cargo test --offline`, 66 unit tests + doc tests) still passes unchanged. The change should look like a plausible refactoring slip or 'optimisation' a developer could commit, and it must need something SPECIFIC to manifest - a particular field value, an unusual input, a multi-step sequence of frames, a particular option combination, or two cooperating edits that each look fine alone - not something ordinary use would expose at once. Do not edit or delete existing tests.

Also write a DEMONSTRATION: a new Rust integration test file `tests/seed_demo.rs` (using only the crate's public API: squitterator::{{get_message, get_downlink_format, get_icao, Plane, Planes, DF, Downlink, UpdateFromDownlink, Args, spawn_reader_thread, ...}}) or, if the public API is not enough, a small shell script `demo.sh` that runs the built CLI on a crafted input file - that FAILS with your change applied and PASSES on the unchanged tree. Verify both yourself (use `git diff -- src > seed.patch; git checkout -- src; <run demo>; git apply seed.patch` - NEVER `git stash`: the stash is shared between worktrees and other agents are working in sibling worktrees).

Deliver, inside {wt}:
  * seed.patch  - `git diff -- src` of your change only (not the demo),
  * the demonstration file(s) (tests/seed_demo.rs or demo.sh + input),
  * NOTES.md - what the change is, which clause of the property it breaks, what exactly is needed for it to manifest, and the commands you ran with their results (demo fails with patch, passes without; `cargo test --offline` passes with the patch: give the counts).
Leave the worktree with the patch APPLIED. In your final message summarise the same in a few lines. Useful facts: frames are hex lines; `Args` derives clap::Parser (Args::parse_from([...]) works in tests); Plane/Planes fields are public; a valid DF17 example is 8D40621D58C382D690C8AC2863A7 (CRC-valid).""")
