#!/usr/bin/env python3
"""Regenerate /verif/MANIFEST.json from the CLAIMS table below (the properties themselves are fixed)."""
import json
import os

V = os.path.dirname(os.path.dirname(os.path.abspath(__file__)))
props = [json.loads(l) for l in open(os.path.join(V, "properties.jsonl"))]

TB = "rustc's MIR construction and callee resolution (nightly 1.97); the reviewed std/chrono semantics tables in sq/; "

# id -> dict(category, text, note, technique, thorough(bool), design_ref)
E2NOTE = ("E2 = abstract interpretation of the crate's MIR (intervals x per-bit provenance x affine forms over frame bits / "
          "XOR-sets, joins at merges, no path enumeration, no solver) over contexts in which the selector fields are enumerated "
          "and all payload bits are symbolic. ")

CLAIMS = {
    "C01": dict(category="other", design_ref="DESIGN.md 5/C01",
        text="Proof by abstract interpretation that every reached panic/overflow obligation (MIR Assert terminators: bounds, "
        "add/sub/mul/neg overflow, shift amount, division; expect/unwrap, Index, chrono constructors) is definitely safe in "
        "every context of a partition covering all 32 DF x both lengths x every digit count 0..64 through the line gate, all "
        "type codes/subtypes, altitude/velocity field classes, Comm-B classes, both update paths, -R, any -u/-d, the counters, "
        "the sweep (inductive counter invariant), sort keys, row rendering and the display-flag construction from any -i list; "
        "plus structural termination (acyclic call graph, loops over finite sources / counted loops / read-count loops), lock "
        "discipline (may-hold dataflow: no RwLock/Mutex is requested, directly or through a callee or closure, while a guard of "
        "the same lock is alive - std locks are not re-entrant) and the EOF/exit-0 path. Not decided: EPIPE, OOM on huge lines, -D/-l file-system failures.",
        note=TB + "std/chrono model table (sq/absint/models.py); dev profile MIR (a superset of the release profile's panic sites).",
        technique="abstract interpretation over MIR (obligation discharge per context) + CFG/call-graph rules + lock may-hold dataflow"),
    "C02": dict(category="other", design_ref="DESIGN.md 5/C02",
        text="Proof: get_message is interpreted abstractly on a line = (symbolic hex digits, arbitrary decoration) for every digit "
        "count 0..64 and every DF x length; the result is None exactly outside {14,28,26,40}/on DF-length disagreement and otherwise "
        "the exact last 14/28 digits; the line reaches the gate only through decoration-only str functions; effects are dominated "
        "by the three gates (edge-cut reachability).",
        note=TB + "model of str::chars/char::to_digit on the abstract line; decoration-only function table.",
        technique="abstract interpretation of the line gate (exhaustive over digit counts and DF) + CFG dominance"),
    "C03": dict(category="other", design_ref="DESIGN.md 5/C03",
        text="Proof: the 24 address bits computed by get_icao come out as frame bits 9-32 (DF11/17/18) or as XOR-sets that equal, bit "
        "by bit, AP xor the CRC-24 obtained by independent polynomial division (GF(2)-linear identity = all payloads, DF0/4/5/16/20/21); "
        "zero excluded; structural single-writer proof of the table (one entry/and_modify/or_insert chain + retain), key = get_icao of "
        "the current line, closure captures/effects, Plane.icao provenance.",
        note=TB + "reference CRC division sq/ref/crc.py; Rust borrow rules.",
        technique="XOR-linear abstract interpretation of the CRC loops vs reference matrix; call-site inventory + def-use provenance"),
    "C04": dict(category="other", design_ref="DESIGN.md 5/C04",
        text="Proof: the value the gate compares with zero is, bit by bit, the CRC-24 syndrome (data XOR-sets from polynomial division, "
        "xor PI; masked to the upper 17 bits for DF11) - a GF(2)-linear identity over all 2^112 frames; the accept decision depends on "
        "every squitter bit (DF11: not on the 7 IC bits) and on no payload bit for other formats; effects dominated by the gate. "
        "Bit-serial and table-driven CRCs are both followed (constant tables are evaluated by the driver; a GF(2)-linear table lookup "
        "stays an exact XOR form, a table with a wrong entry is not linear and is reported).",
        note=TB + "reference CRC division; guarded join (if-conversion) of the XOR domain.",
        technique="XOR-linear abstract interpretation + dependency sets + CFG dominance"),
    "C05": dict(category="other", design_ref="DESIGN.md 5/C05",
        text="Proof for Q=1 (exact affine form 25N-1000 refined to [0,50175], None below), zero code, provenance (data+control deps "
        "within AC13/AC12), writers and path agreement. Gillham (Q=0): the decoded value per C1C2C4 class is an exact affine form over "
        "GF(2)-linear atoms compared with Annex 10 - today a KNOWN FINDING (wrong decode pinned by two unit tests), keyed by a "
        "fingerprint of the current form so that any other change is still reported. M=1 unconstrained.",
        note=TB + "Annex 10 altitude code tables in sq/rules/c05.py.",
        technique="abstract interpretation with affine forms over frame bits / XOR atoms"),
    "C06": dict(category="proof", design_ref="DESIGN.md 5/C06",
        text="Proof: in every DF5/DF21 context the value stored to squawk is Some(v) with v's exact affine form equal to "
        "4000A4+2000A2+1000A1+400B4+200B2+100B1+40C4+20C2+10C1+4D4+2D2+D1 over ID13 bits 20-32 (= all 8192 codes x every other bit), "
        "on both update paths, every CA/-R, and on creation for DF5; no other context writes squawk.",
        note=TB + "ID13 bit order in sq/rules/c06.py.",
        technique="abstract interpretation with exact affine forms over frame bits"),
    "C07": dict(category="other", design_ref="DESIGN.md 5/C07",
        text="Proof: stored callsign = 8 optional characters, the i-th from bits 41+6i..46+6i in order (TC1-4 both paths/creation, "
        "BDS2,0 iff selector and gate); character mapping evaluated abstractly for all 64 codes and all positions; category = (TC, "
        "subtype field); wake table over all 32x8 pairs.",
        note=TB + "iterator/collect models.",
        technique="abstract interpretation (symbolic character sequences) + exhaustive finite-function evaluation"),
    "C08": dict(category="other", design_ref="DESIGN.md 5/C08",
        text="NECESSARY CONDITIONS ONLY. Decided: position stores happen only under the four non-zero slot tests, |t0-t1|<10 s, decoder "
        "returned a position, zone equality, lat/lon range tests (path-condition atoms); slot index = bit 54, slot fields exact, slot "
        "time = Utc::now of this update; NL function evaluated abstractly per zone = closed form; observer/haversine wiring; the distance "
        "is stored under exactly the conditions of the position store (+ observer configured). NOT decided: the numeric CPR decode "
        "(20 m, zones, antimeridian) and the distance value - floating point, no sound static argument in reach.",
        note=TB + "chrono model; NL closed form.",
        technique="abstract interpretation with symbolic path-condition terms; MIR constant-table audit; def-use trees"),
    "C09": dict(category="other", design_ref="DESIGN.md 5/C09",
        text="Proof for vertical rate (exact affine +/-64(field-1), 0 -> none), zero components -> no speed/track, both paths and "
        "creation agree and overwrite; extraction/term structure of sqrt(x^2+y^2), atan2(EW,NS), x4 supersonic as necessary "
        "conditions. Not decided: float rounding, the open end of [0,360).",
        note=TB + "TC19 field layout in sq/rules/c09.py.",
        technique="abstract interpretation (affine forms, symbolic float terms, structural post-state comparison)"),
    "C10": dict(category="other", design_ref="DESIGN.md 5/C10",
        text="Proof of gating (every CA x -R), advertisement flags, single-bit validation (status 0 / reserved 1), 1,7-over-4,0 "
        "precedence, exact affine decodes of the linear fields; necessary conditions for accepted ranges (interval hull includes the "
        "plausible range per sign context) and the |GS-TAS|<200 guard. Truncating scalings: provenance and range only.",
        note=TB + "Doc 9871 register layouts in sq/absint/contexts.py / sq/rules/c10.py.",
        technique="abstract interpretation over Comm-B contexts (store inventories, affine forms, path-condition terms)"),
    "C11": dict(category="other", design_ref="DESIGN.md 5/C11",
        text="Proof of the per-step clauses to which histories reduce: carrier matrix (changed fields of every context within the "
        "format's allowed set; surface squitter blanks altitude), no stored value depends on the row's previous contents except the "
        "listed derivations/gates, re-applying a frame changes nothing (update interpreted twice), and every parameter a format "
        "carries is among the fields its update can store in every option/row-state context.",
        note=TB + "carrier table in sq/rules/c11.py; row isolation from C03.",
        technique="abstract interpretation with symbolic pre-state row (identity of unchanged values, dependency labels)"),
    "C12": dict(category="other", design_ref="DESIGN.md 5/C12",
        text="Structural proof: must-assign dataflow of timestamp := Utc::now() over every row-update entry and the constructor; "
        "retain predicate == num_seconds(now - row.timestamp) < delete_after; counter automaton (threshold/reset/increment read from "
        "MIR) sweeps at least every 12 calls; sweep follows every update; new rows are built from a constant blank row + the frame; "
        "no other row container/static. Real elapsed time not decided.",
        note=TB + "chrono / HashMap::retain / Entry API semantics.",
        technique="forward must-dataflow + expression-tree matching + counter automaton exploration on resolved MIR"),
    "C13": dict(category="other", design_ref="DESIGN.md 5/C13",
        text="Structural proof on the resolved MIR of the per-line loop: every non-unwind loop exit is traced to its "
        "controlling call and must be exhaustion of a reviewed line-source pipeline (no content-dependent truncation) "
        "or a pure std I/O error (iterator style and read_until style loops); every mutation of loop-carried state is dominated "
        "by the three accept gates (helpers on the way are inlined; a read buffer reset at the loop head is not carried state); "
        "and rejecting a line cannot panic: in every junk-line context of E2 (digit counts 0..64, DF/length mismatch) all "
        "obligations of the gate are discharged and the line is used only through reviewed digit projections. "
        "Does not decide memory use on huge lines.",
        note=TB + "source/adapter table (lines/read_line: Err on invalid UTF-8; split/read_until: I/O only).",
        technique="CFG loop-exit classification + edge-cut dominance over resolved MIR (with helper inlining); abstract interpretation of the gate on junk-line contexts"),
    "C14": dict(category="other", design_ref="DESIGN.md 5/C14",
        text="Proof, exhaustive over the 32 flag sets and all filled/blank paths, without formatting a string: per flag set the "
        "row writer's CFG is pruned, write! templates (expanded AST) give each site's minimum width, min and max path totals coincide "
        "and equal the header total; ordered row fields equal ordered header names through the column->field table; alignment/blank "
        "rules per placeholder; refresh layout order; position-exact abstract rendering (per-character source sets) of the row under "
        "every header column; and each optional group's accessor, as a boolean function (truth table) of 'letter l occurs in the "
        "k-th -i argument' for 3 occurrences x 6 letters, equals the OR of its own letter's occurrences.",
        note=TB + "std::fmt width/alignment semantics; column->field table; an unpadded char/digit counts 1 column.",
        technique="format-template column algebra over AST format_args facts joined with the MIR CFG; abstract rendering; "
                  "truth-table abstract interpretation of the option parser"),
    "C15": dict(category="other", design_ref="DESIGN.md 5/C15",
        text="Structural proof: the row vector is only permuted between collect and the printing fold; address sort dominates the "
        "-o sorts; each letter's sort key/comparator closure, read as an expression tree, is an order-embedding (or reversal) of the "
        "field the property names; letters applied in order with stable sorts.",
        note=TB + "slice sort/reverse semantics.",
        technique="def-use expression trees of sort-key closures + call inventory on the row vector"),
    "C16": dict(category="other", design_ref="DESIGN.md 5/C16",
        text="Structural proof: the -f decision dominates every table/counter effect, its predicate is `frame DF not in list` over the "
        "whole list (recognised forms: all/any/contains/find/position, binary_search only if the list is sorted), skip polarity right; counter step absent->1, n->n+1 from the Entry-API form; counted key is "
        "the frame's DF, under -c only, ordered map, printed once per entry.",
        note=TB + "Iterator::all/any, slice::contains, BTreeMap semantics.",
        technique="CFG dominance + closure expression trees + API-form recognition on resolved MIR"),
    "C17": dict(category="proof", design_ref="DESIGN.md 5/C17",
        text="Exhaustive: the MIR of the address->country function is evaluated over an interval partition of "
        "[0,2^24) (each branch on a monotone function of the address splits intervals exactly), giving the exact "
        "interval->code map, compared on every overlap segment with an independent transcription of Annex 10 "
        "(189 blocks); plus no dead arm, and Plane.reg is only ever stored from that function applied to the value "
        "stored to Plane.icao.",
        note=TB + "the reference block list sq/ref/annex10.py.",
        technique="interval-partition abstract evaluation of the MIR decision tree vs reference table; def-use provenance"),
    "C18": dict(category="other", design_ref="DESIGN.md 5/C18",
        text="Structural proof: the TCP function has no reachable Return and reaches no exit/abort; a failed connect reaches the next "
        "attempt only through sleep(3..8 s); the table passed to the line reader is the function's parameter in every iteration and "
        "nothing else on the connection path has a table/row effect; "
        "Planes::new only in main; main joins the one spawned thread. OS socket behaviour / real pause not decided.",
        note=TB + "std thread/net semantics.",
        technique="CFG reachability/avoidance + def-use provenance + call-site inventory (lib and bin)"),
    "C19": dict(category="other", design_ref="DESIGN.md 5/C19",
        text="Proof: presentation options are read nowhere in code reachable from the table-updating calls, are not in their arguments "
        "(field-sensitive for the counters struct) nor in the branches controlling them (one whitelisted I/O `?`); observer coordinates "
        "(labels propagated by E2, data and control) reach only the distance store; for every DF4/5/11/17 context the two update "
        "paths store structurally identical values for the ten listed parameters.",
        note=TB + "option classification in sq/rules/c19.py.",
        technique="Args field-read inventory + expression trees + label propagation and sibling-path comparison by abstract interpretation"),
}

# rules added in later rounds (kept apart from the first-build texts above)
EXTRA = {
    "C01": "Also: nothing on the reader thread discards input unseen (no skip_until / seek on the source, no skipping adaptor on the line "
           "iterator); a read loop is left when the read reports 0 bytes; the -o sort function is interpreted as a whole on an unknown -o. "
           "The obligation inventory is complete: reader-thread bodies that no analysed context interprets (line loop, connect loop, "
           "set-up and printing glue) are scanned and must contain no panic site of their own (Assert terminator, Option unwrap, "
           "indexing, explicit panic; Result::expect only on lock / file-open / write-to-String results).",
    "C02": "str::from_utf8 / String::from_utf8 on the way to the gate are findings (partial: a line with a stray non-UTF-8 byte has no image).",
    "C03": "The table updater is described independently of its style (entry/and_modify/or_insert, match on Entry, get_mut/insert). "
           "Only the zero address is dropped: the kept addresses are all of 1..2^24-1 and the only tests on the address are comparisons with zero.",
    "C09": "The TC19 contexts under -U -R are compared with their -U twins (vrate / grspeed / track alike).",
    "C10": "In every context of a format without a CA field the recorded capability (what the Comm-B gate reads) is unchanged.",
    "C07": "In every decode context that is not a DF17/18 TC1-4 squitter the emitter category is not written.",
    "C08": "Slot coherence: the CPR fields and the receive time of a slot are written under one condition that does not depend on the row's previous contents. "
           "The zone test is read from the MIR: the two arguments of the NL function are different expressions, neither picked by a run-time index.",
    "C12": "The sweep may sit in a helper: the call chain from the reader to retain is followed, the time and the limit must be handed through unchanged. "
           "Only the sweep's own step / reset functions write the sweep counter (crate-wide inventory of field stores, &mut borrows and whole-struct stores).",
    "C13": "When the reader bypasses get_message, a per-line function that receives &mut of loop-carried state is reported. A panic inside the "
           "gate on any junk-line context (including a definite one) is a violation: it ends processing early.",
    "C14": "One-character cells must be provably one character wide (value ranges from the hulls of all decode contexts); text is never cut by a precision; "
           "the header lines are obtained by constant propagation through the header builder for each flag set.",
    "C15": "Comparators that dispatch on a captured enum are specialised to the variant seen in the abstract per-letter run; the row vector may be re-collected through a projecting map.",
    "C16": "A -f decision of unrecognised shape is evaluated (crate functions, closures and std methods by E2 on constants) for DF 0..31 against 124 lists incl. repeats and must coincide with membership.",
    "C17": "Every placeholder that prints Plane.reg uses Display without precision (the code is shown whole).",
    "C18": "No other mutable local of the connect function is carried from one connection into the next. The connect call may sit in a helper "
           "returning io::Result (a failed connect must come back as Err) and the decision may be taken on an Err-preserving chain (and_then / map / "
           "inspect_err / map_err / `?`); the line reader may be called from a closure of the loop function. The connection-handling code (connect "
           "function, helpers, the function owning the line loop) has no panic site of its own.",
    "C19": "With and without -U the stores also depend on the row's previous contents in the same way (path-condition atoms / control dependences over pre-state).",
}

NA_DEFAULT = "check under construction in this round - will be claimed once its rule runs"
NA = {}


def main():
    checks = []
    na = []
    for p in props:
        pid = p["id"]
        c = CLAIMS.get(pid)
        if not c:
            na.append({"property_id": pid, "reason": NA.get(pid, NA_DEFAULT)})
            continue
        chk = {
            "property_id": pid,
            "quick_cmd": "./check %s --tier quick" % pid,
            "evidence_file": "evidence/%s.json" % pid,
            "replay_cmd_template": "./check %s --replay {path}" % pid,
            "engine": "sqfacts+sq",
            "level_claimed": {"category": c["category"], "text": c["text"] + ((" " + EXTRA[pid]) if pid in EXTRA else ""), "design_ref": c["design_ref"]},
            "level_note": c["note"] + (" " + E2NOTE if "abstract interpretation" in c["technique"] else ""),
            "technique": c["technique"],
        }
        if c.get("thorough", True):
            chk["thorough_cmd"] = "./check %s --tier thorough" % pid
        checks.append(chk)
    m = {
        "version": 1,
        "setup_cmd": "./setup.sh",
        "hooks": {
            "guard": "squitterator_verif",
            "enable": "none needed: static analysis reads the compiler's MIR/AST of the unmodified sources; no source line uses the cfg",
            "baseline_off_cmd": "cd /repo && cargo test --workspace --no-fail-fast --offline",
            "source_commits": [],
            "add_only": True,
        },
        "engines": [
            {
                "name": "sqfacts",
                "path": "driver/",
                "serves_properties": [p["id"] for p in props],
                "kind_free_text": "rustc_private driver (RUSTC_WORKSPACE_WRAPPER under cargo +nightly check): dumps resolved MIR, "
                "ADTs, format_args templates of /repo's current tree as JSON facts",
            },
            {
                "name": "sq",
                "path": "sq/",
                "serves_properties": [p["id"] for p in props],
                "kind_free_text": "python analysis layer: CFG/dominators/effects (E1), abstract interpreter over MIR (E2), "
                "format-template algebra (E3), table auditors (E4), rules per property",
            },
        ],
        "checks": checks,
        "notes": "Static analysis only (see DESIGN.md). exit 2 = checker cannot run (never a VIOLATION). "
        "Set SQ_REPO=<dir> to analyse a scratch copy instead of /repo (evidence then goes to .cache/).",
        "not_applicable": na,
    }
    json.dump(m, open(os.path.join(V, "MANIFEST.json"), "w"), indent=1)
    print("claimed", len(checks), "n/a", len(na))


if __name__ == "__main__":
    main()
