#!/usr/bin/env python3
"""Regenerate /verif/MANIFEST.json from the CLAIMS table below (the properties themselves are fixed)."""
import json
import os

V = os.path.dirname(os.path.dirname(os.path.abspath(__file__)))
props = [json.loads(l) for l in open(os.path.join(V, "properties.jsonl"))]

TB = "rustc's MIR construction and callee resolution (nightly 1.97); the reviewed std/chrono semantics tables in sq/; "

# id -> dict(category, text, note, technique, thorough(bool), design_ref)
CLAIMS = {
    "C13": dict(
        category="other",
        text="Structural proof on the resolved MIR of the per-line loop: every non-unwind loop exit is traced to its "
        "controlling call and must be exhaustion of a reviewed line-source pipeline (no content-dependent truncation) "
        "or a pure std I/O error; every mutation of loop-carried state is dominated by the three accept gates. "
        "Decides 'never end early' and 'no state leaks from a rejected line' for all inputs; does not decide memory "
        "use on huge lines.",
        note=TB + "source/adapter table (lines/read_line: Err on invalid UTF-8; split/read_until: I/O only).",
        technique="CFG loop-exit classification + edge-cut dominance over resolved MIR (custom rustc_private driver)",
        design_ref="DESIGN.md 5/C13",
    ),
    "C17": dict(
        category="proof",
        text="Exhaustive: the MIR of the address->country function is evaluated over an interval partition of "
        "[0,2^24) (each branch on a monotone function of the address splits intervals exactly), giving the exact "
        "interval->code map, compared on every overlap segment with an independent transcription of Annex 10 "
        "(189 blocks); plus no dead arm, and Plane.reg is only ever stored from that function applied to the value "
        "stored to Plane.icao.",
        note=TB + "the reference block list sq/ref/annex10.py.",
        technique="interval-partition abstract evaluation of the MIR decision tree vs reference table; def-use provenance",
        design_ref="DESIGN.md 5/C17",
    ),
}

NA_DEFAULT = "check under construction in this round - will be claimed once its rule runs"
NA = {}


def main():
    checks = []
    na = []
    for p in props:
        pid = p["id"]
        c = CLAIMS.get(pid)
        if not c:
            na.append({"property_id": pid, "reason": NA.get(pid, NA_DEFAULT)})
            continue
        chk = {
            "property_id": pid,
            "quick_cmd": "./check %s --tier quick" % pid,
            "evidence_file": "evidence/%s.json" % pid,
            "replay_cmd_template": "./check %s --replay {path}" % pid,
            "engine": "sqfacts+sq",
            "level_claimed": {"category": c["category"], "text": c["text"], "design_ref": c["design_ref"]},
            "level_note": c["note"],
            "technique": c["technique"],
        }
        if c.get("thorough", True):
            chk["thorough_cmd"] = "./check %s --tier thorough" % pid
        checks.append(chk)
    m = {
        "version": 1,
        "setup_cmd": "./setup.sh",
        "hooks": {
            "guard": "squitterator_verif",
            "enable": "none needed: static analysis reads the compiler's MIR/AST of the unmodified sources; no source line uses the cfg",
            "baseline_off_cmd": "cd /repo && cargo test --workspace --no-fail-fast --offline",
            "source_commits": [],
            "add_only": True,
        },
        "engines": [
            {
                "name": "sqfacts",
                "path": "driver/",
                "serves_properties": [p["id"] for p in props],
                "kind_free_text": "rustc_private driver (RUSTC_WORKSPACE_WRAPPER under cargo +nightly check): dumps resolved MIR, "
                "ADTs, format_args templates of /repo's current tree as JSON facts",
            },
            {
                "name": "sq",
                "path": "sq/",
                "serves_properties": [p["id"] for p in props],
                "kind_free_text": "python analysis layer: CFG/dominators/effects (E1), abstract interpreter over MIR (E2), "
                "format-template algebra (E3), table auditors (E4), rules per property",
            },
        ],
        "checks": checks,
        "notes": "Static analysis only (see DESIGN.md). exit 2 = checker cannot run (never a VIOLATION). "
        "Set SQ_REPO=<dir> to analyse a scratch copy instead of /repo (evidence then goes to .cache/).",
        "not_applicable": na,
    }
    json.dump(m, open(os.path.join(V, "MANIFEST.json"), "w"), indent=1)
    print("claimed", len(checks), "n/a", len(na))


if __name__ == "__main__":
    main()
