#!/usr/bin/env python3
"""tools/seed_ingest.py <worktree> <seed-id> <property> [--checks C01,C02..]
Confirm an independently written breaking change (patch applied in <worktree>) and record it under /verif/seeded/<seed-id>/:
  1. `cargo test --offline --lib --bins` + doc tests pass with the patch,
  2. the demonstration fails with the patch and passes without it,
  3. run the checks with SQ_REPO=<worktree> and record which report a VIOLATION (and by which rule).
"""
import json
import os
import re
import shutil
import subprocess
import sys

V = os.path.dirname(os.path.dirname(os.path.abspath(__file__)))
ALL = ["C%02d" % i for i in range(1, 20)]


def sh(cmd, cwd, timeout=1800):
    r = subprocess.run(cmd, shell=True, cwd=cwd, capture_output=True, text=True, timeout=timeout)
    return r.returncode, r.stdout + r.stderr


def main():
    wt, sid, prop = sys.argv[1], sys.argv[2], sys.argv[3]
    checks = ALL
    if "--checks" in sys.argv:
        checks = sys.argv[sys.argv.index("--checks") + 1].split(",")
    out = os.path.join(V, "seeded", sid)
    os.makedirs(out, exist_ok=True)
    ran = []
    # patch
    rc, diff = sh("git diff -- src", wt)
    if not diff.strip():
        print("no src diff in", wt)
        return 2
    sp = os.path.join(wt, "seed.patch")
    if os.path.exists(sp) and open(sp).read().strip() != diff.strip():
        print("WARNING: worktree diff differs from the agent's seed.patch - restoring from seed.patch")
        sh("git checkout -- src", wt)
        rc, o = sh("git apply seed.patch", wt)
        rc, diff = sh("git diff -- src", wt)
    open(os.path.join(out, "patch.diff"), "w").write(diff)
    demo_kind = "cargo-test" if os.path.exists(os.path.join(wt, "tests", "seed_demo.rs")) else ("script" if os.path.exists(os.path.join(wt, "demo.sh")) else None)
    if demo_kind is None:
        print("no demonstration found")
        return 2
    # 1. suite with patch
    rc, o = sh("cargo test --offline --lib --bins 2>&1 | grep -E '^test result'", wt)
    suite_ok = "66 passed; 0 failed" in o
    ran.append({"cmd": "cargo test --offline --lib --bins (patched)", "result": o.strip().splitlines()[:2]})
    rc, o = sh("cargo test --offline --doc 2>&1 | grep -E '^test result'", wt)
    doc_ok = "0 failed" in o and "passed" in o
    ran.append({"cmd": "cargo test --offline --doc (patched)", "result": o.strip().splitlines()[:2]})
    # 2. demo with / without
    democmd = "cargo test --offline --test seed_demo 2>&1 | grep -E '^test result|panicked|FAILED' | head -6" if demo_kind == "cargo-test" else "bash demo.sh; echo EXIT=$?"
    rc, o1 = sh(democmd, wt)
    fails_with = ("FAILED" in o1 or "failed" in o1 and "0 failed" not in o1) if demo_kind == "cargo-test" else ("EXIT=0" not in o1)
    ran.append({"cmd": democmd + "  (patched)", "result": o1.strip().splitlines()[:6]})
    # (never `git stash`: the stash is shared by all worktrees of /repo)
    pf = os.path.join(out, "patch.diff")
    sh("git checkout -- src", wt)
    try:
        rc, o2 = sh(democmd, wt)
    finally:
        rc_, oa = sh("git apply %s" % pf, wt)
    passes_without = ("0 failed" in o2 and "FAILED" not in o2) if demo_kind == "cargo-test" else ("EXIT=0" in o2)
    ran.append({"cmd": democmd + "  (unpatched)", "result": o2.strip().splitlines()[:6]})
    rc, d2 = sh("git diff -- src", wt)
    assert d2 == diff, "worktree not restored"
    # 3. checks
    caught = {}
    for c in checks:
        env = dict(os.environ, SQ_REPO=wt)
        r = subprocess.run([os.path.join(V, "check"), c], env=env, capture_output=True, text=True, cwd=V)
        fl = [l for l in r.stdout.splitlines() if l.startswith("FINDING")]
        kn = [l for l in r.stdout.splitlines() if l.startswith("KNOWN-FINDING")]
        viol = [l for l in r.stdout.splitlines() if l.startswith("VIOLATION")]
        caught[c] = {"exit": r.returncode, "violations": len(viol), "findings": [l[:300] for l in fl if not any(k in l for k in ())][:4]}
        last = r.stdout.strip().splitlines()[-1] if r.stdout.strip() else ""
        print(c, "exit", r.returncode, "|", (fl[0][:160] if fl and r.returncode == 1 else last[:120]))
    detecting = [c for c, v in caught.items() if v["exit"] == 1]
    # demo + notes
    for f in ("tests/seed_demo.rs", "demo.sh", "NOTES.md"):
        p = os.path.join(wt, f)
        if os.path.exists(p):
            shutil.copy(p, os.path.join(out, os.path.basename(f)))
    for f in os.listdir(wt):
        if f.startswith("demo") and f not in ("demo.sh",) and os.path.isfile(os.path.join(wt, f)) and os.path.getsize(os.path.join(wt, f)) < 200000:
            shutil.copy(os.path.join(wt, f), os.path.join(out, f))
    notes = open(os.path.join(wt, "NOTES.md")).read() if os.path.exists(os.path.join(wt, "NOTES.md")) else ""
    meta = {
        "seed": sid, "breaks_property": prop,
        "origin": "written by an independent sub-agent given only the property text and a scratch worktree of /repo",
        "needs_to_manifest": _needs(notes),
        "confirmed": {"suite_passes_with_patch": suite_ok, "doctests_pass_with_patch": doc_ok, "demo_fails_with_patch": bool(fails_with),
                      "demo_passes_without_patch": bool(passes_without)},
        "ran": ran,
        "checks_run": checks,
        "detected_by": detecting,
        "detail": {c: caught[c] for c in detecting},
        "repo_head": subprocess.check_output(["git", "-C", "/repo", "rev-parse", "--short", "HEAD"], text=True).strip(),
    }
    json.dump(meta, open(os.path.join(out, "meta.json"), "w"), indent=1)
    ok = suite_ok and fails_with and passes_without
    print("CONFIRMED" if ok else "NOT-CONFIRMED", sid, "detected by", detecting)
    return 0 if ok else 1


def _needs(notes):
    m = re.search(r"(?is)(what (it|exactly)? ?(is )?need[^\n]*\n)(.*?)(\n#|\n\*\*|\Z)", notes)
    if m:
        return " ".join(m.group(4).split())[:600]
    return " ".join(notes.split())[:400]


if __name__ == "__main__":
    sys.exit(main())
