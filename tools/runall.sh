#!/bin/sh
# run every property check on /repo's current tree; exit 1 if any is not OK
cd "$(dirname "$0")/.."
bad=0
for p in C01 C02 C03 C04 C05 C06 C07 C08 C09 C10 C11 C12 C13 C14 C15 C16 C17 C18 C19; do
  out=$(./check $p "$@" 2>&1 | tail -1)
  echo "$out" | cut -c1-120
  echo "$out" | grep -q " OK " || bad=1
done
exit $bad
