#!/usr/bin/env python3
"""tools/seed_recheck.py [seed-id ...] [--checks C01,..] — apply each kept seeded change to a scratch copy of the CURRENT /repo
working tree, run the checks on it and update seeded/<id>/meta.json (detected_by) and seeded/INDEX.md."""
import json
import os
import shutil
import subprocess
import sys
import tempfile

V = os.path.dirname(os.path.dirname(os.path.abspath(__file__)))
ALL = ["C%02d" % i for i in range(1, 20)]


def main():
    args = [a for a in sys.argv[1:] if not a.startswith("--")]
    checks = None
    if "--checks" in sys.argv:
        checks = sys.argv[sys.argv.index("--checks") + 1].split(",")
        args = [a for a in args if a != ",".join(checks)]
    sd = os.path.join(V, "seeded")
    ids = args or sorted(d for d in os.listdir(sd) if os.path.isdir(os.path.join(sd, d)))
    for sid in ids:
        meta_p = os.path.join(sd, sid, "meta.json")
        meta = json.load(open(meta_p))
        d = tempfile.mkdtemp(prefix="sqseed-")
        try:
            subprocess.check_call(["rsync", "-a", "--exclude", "target", "--exclude", ".git", "/repo/", d + "/"])
            r = subprocess.run(["git", "apply", "--unsafe-paths", "--directory", d, os.path.join(sd, sid, "patch.diff")], cwd="/", capture_output=True, text=True)
            if r.returncode != 0:
                r = subprocess.run("patch -p1 -d %s < %s" % (d, os.path.join(sd, sid, "patch.diff")), shell=True, capture_output=True, text=True)
            if r.returncode != 0:
                print(sid, "PATCH DOES NOT APPLY to the current tree:", r.stderr[:200])
                meta["applies_to_current_tree"] = False
                json.dump(meta, open(meta_p, "w"), indent=1)
                continue
            meta["applies_to_current_tree"] = True
            cs = checks or meta.get("checks_run") or ALL
            det = {}
            for c in cs:
                rr = subprocess.run([os.path.join(V, "check"), c], env=dict(os.environ, SQ_REPO=d), capture_output=True, text=True, cwd=V)
                if rr.returncode == 1:
                    fl = [l for l in rr.stdout.splitlines() if l.startswith("FINDING")]
                    det[c] = {"exit": 1, "findings": [l[:300] for l in fl][:4]}
                elif rr.returncode == 2:
                    det[c] = {"exit": 2, "findings": [rr.stdout.strip().splitlines()[-1][:300] if rr.stdout.strip() else ""]}
            detected = sorted(c for c, v in det.items() if v["exit"] == 1)
            if checks:
                old = set(meta.get("detected_by", [])) - set(checks)
                detected = sorted(old | set(detected))
                dd = dict(meta.get("detail", {}))
                for c in checks:
                    dd.pop(c, None)
                dd.update({c: v for c, v in det.items() if v["exit"] == 1})
                meta["detail"] = dd
            else:
                meta["detail"] = {c: v for c, v in det.items() if v["exit"] == 1}
            meta["detected_by"] = detected
            meta["rechecked_at_repo_head"] = subprocess.check_output(["git", "-C", "/repo", "rev-parse", "--short", "HEAD"], text=True).strip()
            json.dump(meta, open(meta_p, "w"), indent=1)
            print(sid, "detected by", detected, {c: v for c, v in det.items() if v["exit"] == 2} or "")
        finally:
            shutil.rmtree(d, ignore_errors=True)
    # index
    lines = ["# Seeded changes (written by independent sub-agents; confirmed here) and the checks that catch them", "",
             "| seed | breaks | needs to manifest | detected by |", "|---|---|---|---|"]
    for sid in sorted(d for d in os.listdir(sd) if os.path.isdir(os.path.join(sd, d))):
        m = json.load(open(os.path.join(sd, sid, "meta.json")))
        det = ", ".join("%s (%s)" % (c, (m["detail"][c]["findings"][0].split(" at ")[0].replace("FINDING ", "")[:70] if m.get("detail", {}).get(c, {}).get("findings") else ""))
                        for c in m.get("detected_by", [])) or (m.get("not_detected_reason") or "**not detected**")
        lines.append("| %s | %s | %s | %s |" % (sid, m["breaks_property"], (m.get("needs_to_manifest") or "")[:220].replace("|", "/"), det))
    open(os.path.join(sd, "INDEX.md"), "w").write("\n".join(lines) + "\n")


if __name__ == "__main__":
    main()
