#!/usr/bin/env python3
"""tools/benign_recheck.py [id ...] - apply each behaviour-preserving refactoring kept under /verif/benign/<id>/patch.diff to a
scratch copy of the CURRENT /repo tree, check that the 66 tests still pass there, and run all 19 checks on it: every check
must stay silent (exit 0).  Writes benign/INDEX.md."""
import json
import os
import shutil
import subprocess
import sys
import tempfile

V = os.path.dirname(os.path.dirname(os.path.abspath(__file__)))
ALL = ["C%02d" % i for i in range(1, 20)]


def main():
    bd = os.path.join(V, "benign")
    ids = [a for a in sys.argv[1:] if not a.startswith("--")] or sorted(d for d in os.listdir(bd) if os.path.isdir(os.path.join(bd, d)))
    rows = []
    bad = 0
    for bid in ids:
        d = tempfile.mkdtemp(prefix="sqbenign-")
        try:
            subprocess.check_call(["rsync", "-a", "--exclude", "target", "--exclude", ".git", "/repo/", d + "/"])
            r = subprocess.run("patch -p1 -s -d %s < %s" % (d, os.path.join(bd, bid, "patch.diff")), shell=True, capture_output=True, text=True)
            if r.returncode != 0:
                print(bid, "PATCH DOES NOT APPLY")
                rows.append((bid, "patch does not apply", ""))
                bad += 1
                continue
            t = subprocess.run("cargo test --offline --lib 2>&1 | grep -E '^test result'", shell=True, cwd=d, capture_output=True, text=True)
            import re
            m = re.search(r"(\d+) passed; (\d+) failed", t.stdout)
            tests_ok = bool(m) and int(m.group(1)) >= 66 and int(m.group(2)) == 0
            notok = []
            for c in ALL:
                rr = subprocess.run([os.path.join(V, "check"), c], env=dict(os.environ, SQ_REPO=d), capture_output=True, text=True, cwd=V)
                if rr.returncode != 0:
                    last = rr.stdout.strip().splitlines()[-1] if rr.stdout.strip() else ""
                    fl = [l for l in rr.stdout.splitlines() if l.startswith("FINDING")]
                    notok.append("%s exit %d: %s" % (c, rr.returncode, (fl[0] if fl else last)[:160]))
            print(bid, "tests ok" if tests_ok else "TESTS FAIL", "all 19 checks silent" if not notok else "ALARMS: %s" % notok)
            rows.append((bid, "unit tests pass" if tests_ok else "tests fail", "silent" if not notok else "; ".join(notok)))
            json.dump({"tests": rows[-1][1], "checks": rows[-1][2]}, open(os.path.join(bd, bid, "result.json"), "w"))
            if notok or not tests_ok:
                bad += 1
        finally:
            shutil.rmtree(d, ignore_errors=True)
    with open(os.path.join(bd, "INDEX.md"), "w") as fh:
        fh.write("# Behaviour-preserving refactorings (written by independent sub-agents) - every check must stay silent on them\n\n")
        fh.write("| refactoring | tests | 19 checks |\n|---|---|---|\n")
        for bid in sorted(d for d in os.listdir(bd) if os.path.isdir(os.path.join(bd, d))):
            rp = os.path.join(bd, bid, "result.json")
            r = json.load(open(rp)) if os.path.exists(rp) else {"tests": "not run", "checks": "not run"}
            fh.write("| %s | %s | %s |\n" % (bid, r["tests"], r["checks"]))
    return 1 if bad else 0


if __name__ == "__main__":
    sys.exit(main())
