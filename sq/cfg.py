"""E1 graph utilities over a MIR body: CFG without unwind edges, dominators,
post-dominators, natural loops, reachability, call graph."""
from collections import defaultdict


class CFG:
    def __init__(self, body, unwind=False):
        self.body = body
        n = len(body.blocks)
        self.n = n
        self.succ = [body.succs(i, unwind) for i in range(n)]
        self.pred = [[] for _ in range(n)]
        for i, ss in enumerate(self.succ):
            for s in ss:
                self.pred[s].append(i)
        self.reach = self._reach(0)
        self._dom = None
        self._pdom = None

    def _reach(self, start, succ=None):
        succ = succ or self.succ
        seen = {start}
        st = [start]
        while st:
            x = st.pop()
            for s in succ[x]:
                if s not in seen:
                    seen.add(s)
                    st.append(s)
        return seen

    def reachable_from(self, start, avoid=()):
        """blocks reachable from `start` without passing through blocks in `avoid`"""
        avoid = set(avoid)
        if start in avoid:
            return set()
        seen = {start}
        st = [start]
        while st:
            x = st.pop()
            for s in self.succ[x]:
                if s not in seen and s not in avoid:
                    seen.add(s)
                    st.append(s)
        return seen

    # -- dominators (iterative, sets; bodies are small)
    def dom(self):
        if self._dom is None:
            self._dom = _dominators(self.n, self.succ, self.pred, 0, self.reach)
        return self._dom

    def dominates(self, a, b):
        return a in self.dom().get(b, ())

    def exits(self):
        return [i for i in self.reach if self.body.blocks[i]["term"]["k"] == "return"]

    def pdom(self):
        """post-dominators w.r.t. a virtual exit joined from every Return block"""
        if self._pdom is None:
            n = self.n
            virt = n
            succ = [list(self.pred[i]) for i in range(n)] + [self.exits()]
            pred = [list(self.succ[i]) for i in range(n)] + [[]]
            for e in self.exits():
                pred[e] = pred[e] + [virt]
            reach = {virt}
            st = [virt]
            while st:
                x = st.pop()
                for s in succ[x]:
                    if s not in reach:
                        reach.add(s)
                        st.append(s)
            self._pdom = _dominators(n + 1, succ, pred, virt, reach)
        return self._pdom

    def postdominates(self, a, b):
        return a in self.pdom().get(b, ())

    # -- natural loops
    def back_edges(self):
        d = self.dom()
        out = []
        for a in self.reach:
            for b in self.succ[a]:
                if b in d.get(a, ()):
                    out.append((a, b))
        return out

    def loops(self):
        """header -> set of blocks (natural loop, merged per header)"""
        loops = defaultdict(set)
        for a, h in self.back_edges():
            body = {h, a}
            st = [a]
            while st:
                x = st.pop()
                if x == h:
                    continue
                for p in self.pred[x]:
                    if p not in body and p in self.reach:
                        body.add(p)
                        st.append(p)
            loops[h] |= body
        return dict(loops)

    def loop_exits(self, blocks):
        out = []
        for b in blocks:
            for s in self.succ[b]:
                if s not in blocks:
                    out.append((b, s))
        return out


def _dominators(n, succ, pred, root, reach):
    dom = {i: set(reach) for i in reach}
    dom[root] = {root}
    order = _rpo(succ, root)
    changed = True
    while changed:
        changed = False
        for b in order:
            if b == root:
                continue
            ps = [p for p in pred[b] if p in reach]
            if not ps:
                continue
            new = set.intersection(*(dom[p] for p in ps)) | {b}
            if new != dom[b]:
                dom[b] = new
                changed = True
    return dom


def _rpo(succ, root):
    seen = set()
    post = []
    st = [(root, iter(succ[root]))]
    seen.add(root)
    while st:
        x, it = st[-1]
        adv = False
        for s in it:
            if s not in seen:
                seen.add(s)
                st.append((s, iter(succ[s])))
                adv = True
                break
        if not adv:
            post.append(x)
            st.pop()
    return post[::-1]


# ---------------------------------------------------------------------------
# call graph


def call_graph(facts):
    """caller body name -> list of (bb, term, callee body name or None)"""
    g = {}
    for name, b in facts.bodies.items():
        if b.kind == "promoted":
            continue
        edges = []
        for bb, t in b.calls():
            c = t["callee"]
            target = None
            inst = c.get("instance")
            if inst and inst in facts.bodies:
                target = inst
            elif c.get("path") in facts.bodies:
                target = c["path"]
            edges.append((bb, t, target))
        # closures created in this body are potential callees (passed to combinators)
        for i, blk in enumerate(b.blocks):
            if blk["cleanup"]:
                continue
            for s in blk["stmts"]:
                if s["k"] == "assign" and s["rv"]["k"] == "agg" and s["rv"].get("agg") == "closure":
                    cn = s["rv"]["closure"]
                    if cn in facts.bodies:
                        edges.append((i, None, cn))
                # fn items used as values (e.g. `.map(ia5)`)
            for op in _const_fn_operands(blk):
                if op in facts.bodies:
                    edges.append((i, None, op))
        g[name] = edges
    return g


def _const_fn_operands(blk):
    out = []

    def visit(o):
        if isinstance(o, dict):
            c = o.get("const")
            if isinstance(c, dict) and c.get("fn"):
                out.append(c.get("instance") or c["fn"])
            for v in o.values():
                visit(v)
        elif isinstance(o, list):
            for v in o:
                visit(v)

    for s in blk["stmts"]:
        visit(s)
    t = blk["term"]
    if t["k"] == "call":
        for a in t["args"]:
            visit(a)
    return out


def reachable_bodies(facts, roots, cg=None):
    cg = cg or call_graph(facts)
    seen = set()
    st = list(roots)
    while st:
        x = st.pop()
        if x in seen or x not in cg:
            continue
        seen.add(x)
        for _, _, tgt in cg[x]:
            if tgt and tgt not in seen:
                st.append(tgt)
    return seen
