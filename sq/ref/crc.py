"""Reference: Mode S CRC-24 (generator 0x1FFF409) as a GF(2)-linear map, computed by polynomial division,
independently of /repo."""
G = 0x1FFF409


def contributions(ndata):
    """contribution of data bit i (1-based, MSB first) of an ndata-bit block to the 24-bit CRC"""
    out = {}
    for i in range(1, ndata + 1):
        v = 1 << (ndata - i + 24)
        for sh in range(ndata + 24 - 1, 23, -1):
            if (v >> sh) & 1:
                v ^= G << (sh - 24)
        out[i] = v & 0xFFFFFF
    return out


def expected_bit(k, nbits, fixed, with_parity_field=True):
    """XOR-set and constant of bit k (LSB = 0) of  CRC24(data bits 1..nbits-24) [xor last-24-bit field]  for a frame of
    `nbits` bits whose bits in `fixed` are constants"""
    ndata = nbits - 24
    cb = contributions(ndata)
    s = set()
    c = 0
    if with_parity_field:
        p = nbits - k
        if p in fixed:
            c ^= fixed[p]
        else:
            s ^= {p}
    for i in range(1, ndata + 1):
        if (cb[i] >> k) & 1:
            if i in fixed:
                c ^= fixed[i]
            else:
                s ^= {i}
    return s, c


def bit_as_set(b):
    """abstract bit -> (set of frame bits, const) or None if not XOR-linear"""
    if b == 0 or b == 1:
        return set(), b
    if b[0] == "b":
        return {b[1]}, 0
    if b[0] == "x":
        return set(b[1]), b[2]
    return None
