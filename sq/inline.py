"""MIR-level inlining of a crate-local helper into its caller (E1 support).

The per-line processing of the reader may be split over helpers (`accept_line`, `process_line`, ...).
The structural rules (gate dominance, effect sites, cadence) are path rules over ONE control-flow graph,
so the helpers on the way from the line loop to the `get_message` call are inlined into a synthetic body:

* callee locals/blocks are appended with an offset (no renaming of anything else);
* the call block assigns the arguments to the callee's parameter locals and jumps to its entry;
* every callee `return` assigns `_0'` to the call's destination and jumps to the call's target;
* return-value threading: when a callee return provably yields one variant of Option/Result (aggregate,
  or `FromResidual::from_residual`, which can only build None/Err) and the continuation block tests
  `discriminant(dest)`, that return jumps straight to the matching arm.  This keeps the correlation
  "helper returned Some  <=>  all its `?` succeeded" that a flow-insensitive join would lose.

Nothing here decides a property; it only rewrites the graph on which the rules run, and it is exact
w.r.t. MIR semantics (by-value parameter passing, single return place).
"""
import copy

from .facts import Body, callee_name


def _rename(o, loff, boff):
    """deep-copy `o` shifting every local by loff (block numbers are handled by the caller)"""
    if isinstance(o, dict):
        if "path" in o and "ty" in o and "local" in o and isinstance(o["local"], bool):
            return copy.deepcopy(o)  # callee descriptor (`local` = crate-local flag)
        out = {}
        for k, v in o.items():
            if k == "local" and isinstance(v, int) and not isinstance(v, bool):
                out[k] = v + loff
            else:
                out[k] = _rename(v, loff, boff)
        return out
    if isinstance(o, list):
        return [_rename(v, loff, boff) for v in o]
    return o


def _retarget(term, boff):
    t = term
    k = t["k"]
    if k == "goto":
        t["target"] += boff
    elif k == "switch":
        t["targets"] = [[v, b + boff] for v, b in t["targets"]]
        t["otherwise"] += boff
    elif k in ("call", "assert", "drop"):
        if t.get("target") is not None:
            t["target"] += boff
        if isinstance(t.get("unwind"), int) and not isinstance(t.get("unwind"), bool):
            t["unwind"] += boff
    else:
        for key in ("target", "real_target", "imaginary_target"):
            if isinstance(t.get(key), int):
                t[key] += boff
    return t


def _place(n):
    return {"local": n, "proj": []}


def inline_call(caller, call_bb, callee):
    """-> synthetic Body: `caller` with the call at call_bb replaced by the body of `callee`.
    The callee's graph is split by the statically known variant (None/Some, Ok/Err) of its return place, so that a
    caller that immediately tests the result keeps the correlation with the path taken inside the callee."""
    loff = len(caller.locals)
    boff = len(caller.blocks)
    blocks = copy.deepcopy(caller.blocks)
    locals_ = list(caller.locals) + [dict(l, inlined_from=callee.name, inlined_ret=(i == 0)) for i, l in enumerate(callee.locals)]
    call = blocks[call_bb]["term"]
    assert call["k"] == "call"
    target = call.get("target")
    dest = call["dest"]
    span = call.get("span")
    # product of the callee CFG with the state "variant currently held by _0" ('?', 0, 1)
    index = {(0, "?"): 0}
    order = [(0, "?")]
    i = 0
    while i < len(order):
        b, st = order[i]
        i += 1
        d = _defines_variant(callee.blocks[b], 0)
        so = st if d is None else d
        for sb in _all_succs(callee.blocks[b]["term"]):
            if (sb, so) not in index:
                index[(sb, so)] = len(order)
                order.append((sb, so))
    arms = _discr_arms(blocks, dest, target) if target is not None else None
    new = []
    for (b, st) in order:
        blk = callee.blocks[b]
        d = _defines_variant(blk, 0)
        so = st if d is None else d
        term = _rename(blk["term"], loff, boff)
        _map_targets(term, lambda x: boff + index[(x, so)])
        nb = {"cleanup": blk["cleanup"], "stmts": _rename(blk["stmts"], loff, boff), "term": term, "inlined_from": callee.name, "ret_variant": so}
        if term["k"] == "return":
            nb["stmts"].append({"k": "assign", "place": copy.deepcopy(dest), "rv": {"k": "use", "x": {"move": _place(loff)}}, "span": term.get("span") or span, "inline_ret": True})
            if target is None:
                nb["term"] = {"k": "unreachable", "span": span}
            elif arms is not None and so in (0, 1):
                # the continuation tests discriminant(dest): jump to a copy of it that takes the known arm
                T = blocks[target]
                clone = {"cleanup": False, "stmts": [copy.deepcopy(x) for x in T["stmts"] if not (x["k"] == "assign" and x["rv"]["k"] == "discr")], "term": {"k": "goto", "target": arms[so], "span": T["term"].get("span"), "threaded": so}}
                nb["term"] = {"k": "goto", "target": ("clone", clone), "span": term.get("span") or span}
            else:
                nb["term"] = {"k": "goto", "target": target, "span": term.get("span") or span}
        new.append(nb)
    blocks.extend(new)
    for nb in new:
        t = nb["term"]
        if t["k"] == "goto" and isinstance(t["target"], tuple):
            blocks.append(t["target"][1])
            t["target"] = len(blocks) - 1
    # call block: parameter passing + jump
    cb = blocks[call_bb]
    for i, a in enumerate(call["args"]):
        cb["stmts"].append({"k": "assign", "place": _place(loff + 1 + i), "rv": {"k": "use", "x": copy.deepcopy(a)}, "span": span, "inline_arg": True})
    cb["term"] = {"k": "goto", "target": boff, "span": span, "inlined_call": callee.name, "orig_call": call}
    j = dict(caller.j)
    j["locals"] = locals_
    j["blocks"] = blocks
    j["inlined"] = list(caller.j.get("inlined", [])) + [callee.name]
    return Body(caller.name, j)


def _all_succs(t):
    out = _succs(t)
    if isinstance(t.get("unwind"), int) and not isinstance(t.get("unwind"), bool):
        out = out + [t["unwind"]]
    return out


def _map_targets(t, f):
    k = t["k"]
    if k == "goto":
        t["target"] = f(t["target"])
    elif k == "switch":
        t["targets"] = [[v, f(b)] for v, b in t["targets"]]
        t["otherwise"] = f(t["otherwise"])
    elif k in ("call", "assert", "drop"):
        if t.get("target") is not None:
            t["target"] = f(t["target"])
        if isinstance(t.get("unwind"), int) and not isinstance(t.get("unwind"), bool):
            t["unwind"] = f(t["unwind"])


def _defines_variant(blk, ret_local):
    """None: the block does not write the return place; 0/1: it leaves that Option/Result variant there; '?': unknown"""
    out = None
    for s in blk["stmts"]:
        if s["k"] == "assign" and s["place"]["local"] == ret_local:
            rv = s["rv"]
            if not s["place"]["proj"] and rv["k"] == "agg" and rv.get("agg") == "adt" and rv.get("adt") in ("std::option::Option", "std::result::Result") \
                    and rv.get("variant_idx") in (0, 1):
                out = rv["variant_idx"]
            elif not s["place"]["proj"] and rv["k"] == "use" and "const" in rv["x"] and rv["x"]["const"].get("ty") == "bool" and "int" in rv["x"]["const"]:
                out = int(rv["x"]["const"]["int"])      # `return true` / `return false`
            else:
                out = "?"
    t = blk["term"]
    if t["k"] == "call" and t["dest"]["local"] == ret_local:
        out = "?"
        if not t["dest"]["proj"] and t["callee"].get("name") == "from_residual" and t["callee"].get("trait") == "std::ops::FromResidual":
            ga = t["callee"].get("generic_args") or []
            if ga and ga[0].startswith("std::option::Option<"):
                out = 0
            elif ga and ga[0].startswith("std::result::Result<"):
                out = 1
    return out


def _discr_arms(blocks, dest, target):
    """{variant: arm block} when block `target` switches on discriminant(dest)"""
    T = blocks[target]
    tt = T["term"]
    if tt["k"] != "switch" or dest["proj"]:
        return None
    d0 = tt["discr"]
    pl0 = d0.get("move") or d0.get("copy")
    if pl0 and pl0["local"] == dest["local"] and not pl0["proj"] and tt.get("ty") == "bool":
        arms = {}
        for v in (0, 1):
            arm = tt["otherwise"]
            for val, b in tt["targets"]:
                if int(val) == v:
                    arm = b
            arms[v] = arm
        return arms
    dl = None
    for s in T["stmts"]:
        if s["k"] == "assign" and s["rv"]["k"] == "discr" and s["rv"]["place"]["local"] == dest["local"] and not s["rv"]["place"]["proj"]:
            dl = s["place"]["local"]
    d = tt["discr"]
    pl = d.get("move") or d.get("copy")
    if dl is None or not pl or pl["local"] != dl:
        return None
    arms = {}
    for v in (0, 1):
        arm = tt["otherwise"]
        for val, b in tt["targets"]:
            if int(val) == v:
                arm = b
        arms[v] = arm
    return arms


def _succs(t):
    k = t["k"]
    if k == "goto":
        return [t["target"]]
    if k == "switch":
        return [b for _, b in t["targets"]] + [t["otherwise"]]
    if k in ("call", "assert", "drop"):
        return [t["target"]] if t.get("target") is not None else []
    return []


