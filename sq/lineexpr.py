"""Predicates over expression trees of the per-line region: what is 'this line', 'its message',
'its DF', 'its address' (provenance by def-use, see mirq.expr)."""


def strip_path(e, *want):
    """('path', x, path) with path == want -> x ; else None"""
    if e[0] == "path" and tuple(str(x) for x in e[2]) == tuple(str(x) for x in want):
        return e[1]
    return None


def _unref(e):
    # see through Deref::deref / as_ref / as_str / borrow calls
    while e[0] == "call" and e[1].split("::")[-1] in ("deref", "as_ref", "as_str", "as_slice", "borrow", "as_deref") and e[2]:
        e = e[2][0]
    return e


def walk(e):
    """all sub-expressions (pre-order)"""
    if isinstance(e, tuple):
        if e and isinstance(e[0], str):
            yield e
        for x in e:
            if isinstance(x, tuple):
                for y in walk(x):
                    yield y


def contains_call(e, suffix):
    for x in walk(e):
        if x[0] == "call" and isinstance(x[1], str) and x[1].endswith(suffix):
            return True
    return False


def is_line(e):
    """rooted at the item of the loop's iterator (`next`), or at the text decoded from the bytes of a read buffer
    (`read_until` style loops; that the buffer holds exactly the current line is C13 R13.2's buffer-reset rule)"""
    if contains_call(e, "Iterator>::next") or contains_call(e, "::next"):
        return True
    return any(contains_call(e, s) for s in ("String::from_utf8_lossy", "str::from_utf8", "String::from_utf8", "from_utf8_unchecked"))


def message_of_line(e):
    """e is (a reference to) the payload of get_message(<line>)"""
    e = _unref(e)
    x = strip_path(e, "as:Some", 0)
    if x is None:
        return False
    return x[0] == "call" and x[1].endswith("get_message") and len(x[2]) == 1 and is_line(x[2][0])


def df_of_line(e):
    x = strip_path(e, "as:Some", 0)
    if x is None:
        return False
    return x[0] == "call" and x[1].endswith("get_downlink_format") and len(x[2]) == 1 and message_of_line(x[2][0])


def icao_of_line(e):
    x = strip_path(e, "as:Some", 0)
    if x is None:
        return False
    return (x[0] == "call" and x[1].endswith("get_icao") and len(x[2]) == 2 and message_of_line(x[2][0])
            and df_of_line(x[2][1]))


def downlink_of_line(e):
    e = _unref(e)
    x = strip_path(e, "as:Ok", 0)
    if x is None:
        return False
    return x[0] == "call" and x[1].endswith("from_message") and len(x[2]) == 1 and message_of_line(x[2][0])


def updater_input_problems(facts, reg):
    """every argument of the table updater called in the per-line region is this line's message / DF / address / decoded
    frame (or a parameter / constant of the reader) -> [(call bb, callee, offending expression text)]; also the number examined"""
    from .effects import Effects
    from .facts import callee_name
    from .mirq import expr, show
    ups = [(bi, t) for bi, t, e in reg.effect_sites() if Effects.has_table(e) and callee_name(t) in facts.bodies
           and any(tt["callee"].get("name") == "entry" for _, tt in facts.bodies[callee_name(t)].calls())]
    out = []
    n = 0
    for bi, t in ups:
        for a in t["args"]:
            e = expr(reg.du, a)
            n += 1
            ok = e[0] in ("arg", "const") or icao_of_line(e) or df_of_line(e) or message_of_line(e) or downlink_of_line(e)
            if not ok:
                out.append((bi, callee_name(t), show(e)[:120]))
    return n, out
