"""Run a family of E2 contexts in parallel and cache the (picklable) results per tree hash + tier."""
import os
import pickle
import sys
import time
from concurrent.futures import ProcessPoolExecutor

from ..facts import CACHE, Broken
from . import k2 as K2
from .contexts import k2_contexts

_FACTS = None


def _init(facts):
    global _FACTS
    _FACTS = facts


class Res:
    """picklable summary of one K2 run"""
    __slots__ = ("ctx", "df", "icao", "icao_opt", "pre", "post_update", "post_create", "stores", "obligations", "warnings",
                 "diverged", "steps", "wall", "calllog", "new_row", "side", "gate", "message", "gate_preds", "dl", "post_update2",
                 "atom_vals", "entered")


def _run(args):
    ctx, inv = args
    t0 = time.time()
    sys.setrecursionlimit(20000)
    try:
        r = K2.run_k2(_FACTS, ctx, inv)
    except (Broken, KeyError, IndexError, AttributeError, TypeError, ValueError, AssertionError, RecursionError) as e:
        # an internal error of the interpreter on this context is an analysis limit, reported as such (never a crash of the check)
        out = Res()
        out.ctx = ctx
        out.diverged = "E2 broken: %s%s" % ("" if isinstance(e, Broken) else "internal %s: " % type(e).__name__, e)
        out.obligations = []
        out.warnings = [("broken", str(e), ctx.get("label"))]
        out.stores = []
        out.pre = out.post_update = out.post_create = None
        out.df = out.icao = out.icao_opt = None
        out.steps = 0
        out.wall = time.time() - t0
        out.calllog = []
        out.new_row = None
        out.side = {}
        out.gate = out.message = out.dl = out.post_update2 = None
        out.gate_preds = []
        out.atom_vals = {}
        out.entered = set()
        return out
    out = Res()
    out.ctx = ctx
    out.df = getattr(r, "df", None)
    out.icao = getattr(r, "icao", None)
    out.icao_opt = getattr(r, "icao_opt", None)
    out.pre = r.pre
    out.post_update = getattr(r, "post_update", None)
    out.post_create = getattr(r, "post_create", None)
    out.stores = r.stores
    out.obligations = r.I.obligations
    out.entered = set(r.I.entered)
    out.warnings = r.I.warnings
    out.diverged = r.diverged
    out.steps = r.I.steps
    out.wall = time.time() - t0
    out.calllog = r.I.calllog
    out.new_row = getattr(r, "new_row", None)
    out.side = {k: v for k, v in r.I.side.items() if k in ("retain_result",)}
    out.gate = getattr(r, "gate", None)
    out.message = getattr(r, "message", None)
    out.gate_preds = getattr(r, "gate_preds", [])
    out.dl = getattr(r, "dl", None)
    out.post_update2 = getattr(r, "post_update2", None)
    # the values compared in the path-condition atoms that travel with the gate's result (C04 needs the syndrome's bits)
    out.atom_vals = {}
    try:
        from .domain import EnumV, show_term
        av = getattr(r, "atom_vals", {}) or {}
        if isinstance(out.gate, EnumV):
            for n_, (pl_, g_) in out.gate.variants.items():
                for t_, tr_ in (g_ or {}).get("pc", ()):
                    k_ = show_term(t_)
                    if k_ in av:
                        out.atom_vals[k_] = av[k_]
    except Exception:
        out.atom_vals = {}
    return out


def run_contexts(facts, ctxs, inv=None, jobs=None):
    jobs = jobs or int(os.environ.get("SQ_JOBS", "0")) or min(16, os.cpu_count() or 4)
    _init(facts)
    if jobs <= 1 or len(ctxs) < 4:
        return [_run((c, inv)) for c in ctxs]
    import multiprocessing as mp
    ctxm = mp.get_context("fork")
    with ProcessPoolExecutor(max_workers=jobs, mp_context=ctxm) as ex:
        return list(ex.map(_run, [(c, inv) for c in ctxs], chunksize=2))


def code_hash():
    import hashlib
    h = hashlib.sha256()
    d = os.path.dirname(os.path.abspath(__file__))
    for f in sorted(os.listdir(d)):
        if f.endswith(".py"):
            with open(os.path.join(d, f), "rb") as fh:
                h.update(fh.read())
    return h.hexdigest()[:10]


def k2_results(facts, tier):
    """all K2 contexts of the tier, cached on disk per (tree hash, analyser code hash)"""
    path = os.path.join(CACHE, "k2-%s-%s-%s.pkl" % (facts.hash, code_hash(), tier))
    if os.path.exists(path) and not os.environ.get("SQ_NOCACHE"):
        try:
            with open(path, "rb") as fh:
                return pickle.load(fh)
        except Exception:
            pass
    t0 = time.time()
    ctxs = k2_contexts(tier)
    inv = invariants(facts, ctxs)
    res = run_contexts(facts, ctxs, inv)
    out = {"results": res, "inv": inv, "wall": round(time.time() - t0, 2), "n": len(ctxs), "hulls": hulls(facts, res, inv)}
    tmp = path + ".tmp%d" % os.getpid()
    with open(tmp, "wb") as fh:
        pickle.dump(out, fh)
    os.replace(tmp, path)
    # prune old caches: keep the newest few (disk is limited; a seeded-change sweep creates one per scratch tree)
    try:
        olds = sorted((f for f in os.listdir(CACHE) if f.startswith("k2-") and f.endswith(".pkl")),
                      key=lambda f: os.path.getmtime(os.path.join(CACHE, f)), reverse=True)
        for f in olds[int(os.environ.get("SQ_KEEP_K2", "6")):]:
            if os.path.join(CACHE, f) != path:
                os.remove(os.path.join(CACHE, f))
    except OSError:
        pass
    return out


def invariants(facts, ctxs):
    """row-field invariants: least fixpoint of (initial value in Plane::new) U (every value a context stores).
    Computed on the generic + altitude contexts (the only stores that feed other fields are altitude -> altitude_gnss)."""
    from .domain import EnumV, IntV
    inv = {"altitude": (0, 0)}
    sel = [c for c in ctxs if c["tags"] and c["tags"][0] in ("A",) or ("G" in c["tags"] and ("df4" in c["tags"]))]
    sel += [c for c in ctxs if "T" in c["tags"] and ("tc9" in c["tags"] or "tc18" in c["tags"] or "tc11" in c["tags"]) and "df17" in c["tags"]]
    for rnd in range(4):
        res = run_contexts(facts, sel, dict(inv))
        lo, hi = inv["altitude"]
        for r in res:
            for path, v, pc, kind in r.stores:
                if path[0][1] == "altitude" and isinstance(v, EnumV) and v.may("Some"):
                    p = v.payload("Some")
                    if isinstance(p, IntV):
                        lo, hi = min(lo, p.lo), max(hi, p.hi)
            for row in (r.post_create,):
                if row is not None:
                    v = row.fields.get("altitude")
                    if isinstance(v, EnumV) and v.may("Some") and isinstance(v.payload("Some"), IntV):
                        p = v.payload("Some")
                        lo, hi = min(lo, p.lo), max(hi, p.hi)
        if (lo, hi) == inv["altitude"]:
            break
        inv["altitude"] = (lo, hi)
    return inv


def hulls(facts, results, inv):
    """per-field hull of every value any context stores into a row (plus the blank row): the ranges the presentation
    path may assume.  Also returns which stored values depend on the row's own pre-state (must be covered by `inv`)."""
    from .domain import EnumV, FloatV, IntV, TupleV, VecV, deps_of
    h = {}
    predeps = {}

    def add(name, v):
        if isinstance(v, IntV):
            lo, hi = h.get(name, (v.lo, v.hi))
            h[name] = (min(lo, v.lo), max(hi, v.hi))
        elif isinstance(v, FloatV):
            lo, hi = h.get(name, (v.lo, v.hi))
            h[name] = (min(lo, v.lo), max(hi, v.hi))
        elif isinstance(v, EnumV):
            if v.may("Some"):
                add(name, v.payload("Some"))
        elif isinstance(v, TupleV):
            for i, x in enumerate(v.items):
                add("%s.%d" % (name, i), x)
        elif isinstance(v, VecV) and v.elems is not None:
            for i, x in enumerate(v.elems):
                add("%s[%d]" % (name, i), x)
        for d in deps_of(v) if v is not None else ():
            if isinstance(d, tuple) and d and d[0] == "pre":
                predeps.setdefault(name, set()).add(d[1])

    for r in results:
        for path, v, pc, kind in r.stores:
            add(path[0][1] if len(path) == 1 else ".".join(str(p[1]) for p in path if p[0] in ("field", "index")), v)
        if r.post_create is not None:
            for n, v in r.post_create.fields.items():
                add(n, v)
    return {"ranges": h, "predeps": {k: sorted(v) for k, v in predeps.items()}}
