"""Context families for E2 (selector fields enumerated, payload symbolic).  Each context has tags the rules select by."""
from .ctx import field_bits

ALL_CAPS = dict(bds20=True, bds40=True, bds44=True, bds50=True, bds60=True)
NO_CAPS = dict(bds20=False, bds40=False, bds44=False, bds50=False, bds60=False)


def _c(label, L, fixed, U=False, R=False, CA=None, caps=None, tags=(), via_line=None, digits=None):
    tags = tuple(tags)
    if via_line is None:
        via_line = "G" in tags or "K1" in tags
    d = dict(label=label, L=L, fixed=dict(fixed), U=U, R=R, CA=CA, caps=caps, tags=tags, via_line=via_line)
    if "T" in tags or "G" in tags or "gate" in tags:
        d["twice"] = True
    if digits is not None:
        d["digits"] = digits
    return d


def df_fixed(df):
    return field_bits({}, 1, 5, df)


def k2_contexts(tier):
    out = []
    thorough = tier == "thorough"
    # ---- G: every DF at its proper length, both update paths
    for df in range(32):
        L = 14 if df < 16 else 28
        for U in (False, True):
            if df in (20, 21):
                continue
            if df == 17:
                continue
            out.append(_c("G DF%d U%d" % (df, U), L, df_fixed(df), U=U, CA=0, caps=NO_CAPS, tags=("G", "df%d" % df)))
            # the same under -R (relaxed capability check): every option pair (-U, -R) is part of the partition
            out.append(_c("GR DF%d U%d R1" % (df, U), L, df_fixed(df), U=U, R=True, CA=0, caps=NO_CAPS, tags=("GR", "df%d" % df), via_line=False))
    # ---- K1: the accept gate itself: every digit count, DF/length mismatches, time-stamp prefixed lines
    for n in range(0, 65):
        if n in (14, 28, 26, 40):
            continue
        out.append(_c("K1 digits%d" % n, n, {}, tags=("K1", "badlen"), digits=n))
    for df in range(32):
        L = 28 if df < 16 else 14       # the WRONG length for this DF
        out.append(_c("K1 DF%d L%d" % (df, L), L, df_fixed(df), tags=("K1", "mismatch", "df%d" % df)))
    for df in (4, 11, 17, 20):
        L = 14 if df < 16 else 28
        out.append(_c("K1 DF%d prefixed" % df, L, df_fixed(df), tags=("K1", "prefix", "df%d" % df), digits=L + 12, CA=0, caps=NO_CAPS))
    for df in (17, 20, 21):
        for U in (False, True):
            if df != 17 and U:
                continue
            out.append(_c("G DF%d U%d" % (df, U), 28, df_fixed(df), U=U, CA=0, caps=NO_CAPS, tags=("G", "df%d" % df)))
    # ---- T: DF17/DF18 by type code (and subtype for TC19)
    for df in (17, 18):
        for tc in range(32):
            sts = range(8) if tc == 19 else [None]
            if df == 18 and not thorough and tc not in (0, 4, 11, 19):
                continue
            for stv in sts:
                for U in (False, True):
                    fx = field_bits(df_fixed(df), 33, 37, tc)
                    if stv is not None:
                        field_bits(fx, 38, 40, stv)
                    out.append(_c("T DF%d TC%d%s U%d" % (df, tc, "" if stv is None else " ST%d" % stv, U), 28, fx, U=U, CA=0, caps=NO_CAPS,
                                  tags=("T", "df%d" % df, "tc%d" % tc) + (("st%d" % stv,) if stv is not None else ())))
                    if U and (thorough or tc in (0, 4, 11, 19)):
                        out.append(_c("TR DF%d TC%d%s U1 R1" % (df, tc, "" if stv is None else " ST%d" % stv), 28, fx, U=True, R=True, CA=0, caps=NO_CAPS,
                                      tags=("TR", "df%d" % df, "tc%d" % tc) + (("st%d" % stv,) if stv is not None else ())))
    # ---- A: altitude code classes
    for df, L in ((4, 14), (20, 28)):
        for U in (False, True):
            if df == 20 and U:
                continue
            base = df_fixed(df)
            q1 = dict(base); q1[26] = 0; q1[28] = 1
            out.append(_c("A DF%d Q1 U%d" % (df, U), L, q1, U=U, CA=0, caps=NO_CAPS, tags=("A", "alt-q1", "df%d" % df)))
            q0 = dict(base); q0[26] = 0; q0[28] = 0
            out.append(_c("A DF%d Q0 U%d" % (df, U), L, q0, U=U, CA=0, caps=NO_CAPS, tags=("A", "alt-q0", "df%d" % df)))
            z = field_bits(dict(base), 20, 32, 0)
            out.append(_c("A DF%d ZERO U%d" % (df, U), L, z, U=U, CA=0, caps=NO_CAPS, tags=("A", "alt-zero", "df%d" % df)))
            m1 = dict(base); m1[26] = 1
            out.append(_c("A DF%d M1 U%d" % (df, U), L, m1, U=U, CA=0, caps=NO_CAPS, tags=("A", "alt-m1", "df%d" % df)))
    for cval in range(8):
        fx = df_fixed(4); fx[26] = 0; fx[28] = 0
        fx[20] = (cval >> 2) & 1   # C1
        fx[22] = (cval >> 1) & 1   # C2
        fx[24] = cval & 1          # C4
        out.append(_c("A DF4 Q0 C%d U1" % cval, 14, fx, U=True, CA=0, caps=NO_CAPS, tags=("A", "gillham", "c%d" % cval)))
    tcs = range(9, 19) if thorough else (9, 18)
    for tc in tcs:
        for U in (False, True):
            base = field_bits(df_fixed(17), 33, 37, tc)
            q1 = dict(base); q1[48] = 1
            out.append(_c("A DF17 TC%d Q1 U%d" % (tc, U), 28, q1, U=U, CA=0, caps=NO_CAPS, tags=("A", "alt-q1", "df17", "tc%d" % tc)))
            q0 = dict(base); q0[48] = 0
            out.append(_c("A DF17 TC%d Q0 U%d" % (tc, U), 28, q0, U=U, CA=0, caps=NO_CAPS, tags=("A", "alt-q0", "df17", "tc%d" % tc)))
            z = field_bits(dict(base), 41, 52, 0)
            out.append(_c("A DF17 TC%d ZERO U%d" % (tc, U), 28, z, U=U, CA=0, caps=NO_CAPS, tags=("A", "alt-zero", "df17", "tc%d" % tc)))
    # ---- P: airborne / surface position with the CPR format bit fixed
    for tc in (11, 6):
        for F in (0, 1):
            for U in (False, True):
                fx = field_bits(df_fixed(17), 33, 37, tc)
                fx[54] = F
                out.append(_c("P TC%d F%d U%d" % (tc, F, U), 28, fx, U=U, CA=0, caps=NO_CAPS, tags=("P", "tc%d" % tc, "F%d" % F)))
    # ---- V: TC19 velocity: zero fields and signs
    for stv in (1, 2):
        for U in (False, True):
            base = field_bits(field_bits(df_fixed(17), 33, 37, 19), 38, 40, stv)
            for nm, sb, eb in (("EW0", 47, 56), ("NS0", 58, 67), ("VR0", 70, 78)):
                fx = field_bits(dict(base), sb, eb, 0)
                out.append(_c("V ST%d %s U%d" % (stv, nm, U), 28, fx, U=U, CA=0, caps=NO_CAPS, tags=("V", "st%d" % stv, nm)))
            for sgn in (0, 1):
                fx = dict(base); fx[69] = sgn
                out.append(_c("V ST%d VRS%d U%d" % (stv, sgn, U), 28, fx, U=U, CA=0, caps=NO_CAPS, tags=("V", "st%d" % stv, "VRS%d" % sgn)))
                fx = dict(base); fx[46] = sgn; fx[57] = sgn
                out.append(_c("V ST%d DIR%d U%d" % (stv, sgn, U), 28, fx, U=U, CA=0, caps=NO_CAPS, tags=("V", "st%d" % stv, "DIR%d" % sgn)))
            fx = field_bits(dict(base), 70, 78, 1)
            out.append(_c("V ST%d VR1 U%d" % (stv, U), 28, fx, U=U, CA=0, caps=NO_CAPS, tags=("V", "st%d" % stv, "VR1")))
    # ---- B: Comm-B
    cas = range(8) if thorough else (0, 3, 4, 7)
    for df in (20, 21):
        if df == 21 and not thorough:
            cas_df = (3, 4)
        else:
            cas_df = cas
        for ca in cas_df:
            for R in (False, True):
                out.append(_c("B DF%d CA%d R%d" % (df, ca, R), 28, df_fixed(df), R=R, CA=ca, caps=ALL_CAPS, tags=("B", "gate", "df%d" % df, "ca%d" % ca)))
    # register advertisement: one flag off at a time (CA 4, strict)
    # (bit 39 = 0: the frame itself is not a BDS1,7 report, so the row's flags are the ones recorded before)
    not17 = df_fixed(20)
    not17[39] = 0
    for off in ("bds40", "bds50", "bds60"):
        caps = dict(ALL_CAPS)
        caps[off] = False
        out.append(_c("B DF20 CA4 R0 no-%s" % off, 28, not17, R=False, CA=4, caps=caps, tags=("B", "adv", "no-" + off)))
        out.append(_c("B DF20 CA4 R1 no-%s" % off, 28, not17, R=True, CA=4, caps=caps, tags=("B", "adv-relaxed", "no-" + off)))
    out.append(_c("B DF20 CA4 R0 nocaps", 28, not17, R=False, CA=4, caps=NO_CAPS, tags=("B", "adv", "nocaps")))
    # forced-valid registers (status bits 1, reserved 0) with only that register advertised
    regs = register_specs()
    for rname, spec in regs.items():
        caps = dict(NO_CAPS)
        if spec["cap"]:
            caps[spec["cap"]] = True
        base = df_fixed(20)
        for b in spec["status"]:
            base[b] = 1
        for b in spec["reserved"]:
            base[b] = 0
        for b, v in spec.get("fixed", {}).items():
            base[b] = v
        signs = spec["signs"]
        combos = [tuple(0 for _ in signs), tuple(1 for _ in signs)] if not thorough else \
            [tuple((m >> i) & 1 for i in range(len(signs))) for m in range(1 << len(signs))]
        for cmb in (combos if signs else [()]):
            fx = dict(base)
            for b, v in zip(signs, cmb):
                fx[b] = v
            out.append(_c("B %s valid signs%s" % (rname, "".join(map(str, cmb))), 28, fx, R=False, CA=4, caps=caps,
                          tags=("B", "valid", rname) + tuple("s%d=%d" % (b, v) for b, v in zip(signs, cmb))))
        # one status bit off / one reserved bit on
        sb = spec["status"] if thorough else spec["status"][:5]
        for b in sb:
            fx = dict(base)
            fx[b] = 0
            out.append(_c("B %s status%d=0" % (rname, b), 28, fx, R=True, CA=4, caps=ALL_CAPS, tags=("B", "invalid", rname, "status%d" % b)))
        rb = spec["reserved"] if thorough else spec["reserved"][:1] + spec["reserved"][-1:]
        for b in sorted(set(rb)):
            fx = dict(base)
            fx[b] = 1
            out.append(_c("B %s reserved%d=1" % (rname, b), 28, fx, R=True, CA=4, caps=ALL_CAPS, tags=("B", "invalid", rname, "reserved%d" % b)))
    # precedence: a field that satisfies both the 1,7 and the 4,0 rules must be taken as 1,7
    fx = df_fixed(20)
    for b in (33, 39, 46, 47, 59, 60):
        fx[b] = 1
    for b in range(61, 89):
        fx[b] = 0
    out.append(_c("B prec 1,7 over 4,0", 28, fx, R=True, CA=4, caps=ALL_CAPS, tags=("B", "prec", "bds17>bds40")))
    # first match wins: one concrete MB field that satisfies BOTH the 5,0 and the 6,0 rules must be taken as 5,0 only
    fx = df_fixed(20)
    mb = {}
    for b in range(33, 89):
        mb[b] = 0
    for b in (33, 44, 45, 56, 67, 78):            # status bits of 5,0 and 6,0
        mb[b] = 1
    field_bits(mb, 35, 43, 16)                      # roll raw 16 / heading raw bits
    field_bits(mb, 46, 55, 256)                     # track 225 deg / IAS 256
    field_bits(mb, 57, 66, 100)                     # GS 200 kt / Mach 0.4
    field_bits(mb, 69, 77, 32)                      # track rate / baro rate 1024 ft/min
    field_bits(mb, 80, 88, 90)                      # TAS 180 kt / inertial vertical velocity 2880 ft/min
    fx.update(mb)
    out.append(_c("B prec 5,0 over 6,0", 28, fx, R=True, CA=4, caps=ALL_CAPS, tags=("B", "prec", "bds50>bds60")))
    # a signed field whose sign bit is set and whose magnitude is zero is a non-zero value field (track/heading 180 deg,
    # track angle rate -16 deg/s): the register must still be recognised
    def _mb(fields):
        fx = df_fixed(20)
        for b in range(33, 89):
            fx[b] = 0
        for sb, eb, val in fields:
            field_bits(fx, sb, eb, val)
        return fx
    e50 = [(33, 33, 1), (44, 44, 1), (56, 56, 1), (67, 67, 1), (78, 78, 1), (57, 66, 100), (79, 88, 90)]
    out.append(_c("B edge bds50 track=180", 28, _mb(e50 + [(35, 43, 16), (45, 45, 1), (46, 55, 0), (69, 77, 32)]), R=False, CA=4, caps=ALL_CAPS,
                  tags=("B", "edge", "bds50", "track180")))
    out.append(_c("B edge bds50 rate=-16", 28, _mb(e50 + [(35, 43, 16), (46, 55, 256), (68, 68, 1), (69, 77, 0)]), R=False, CA=4, caps=ALL_CAPS,
                  tags=("B", "edge", "bds50", "rate-16")))
    e60 = [(33, 33, 1), (45, 45, 1), (56, 56, 1), (67, 67, 1), (78, 78, 1), (46, 55, 256), (57, 66, 100), (69, 77, 32), (80, 88, 90)]
    out.append(_c("B edge bds60 heading=180", 28, _mb(e60 + [(34, 34, 1), (35, 44, 0)]), R=False, CA=4, caps=ALL_CAPS,
                  tags=("B", "edge", "bds60", "heading180")))
    # BDS 2,0 / 3,0 by selector
    for sel, nm in ((0x20, "bds20"), (0x30, "bds30"), (0x10, "bds10")):
        fx = field_bits(df_fixed(20), 33, 40, sel)
        for ca in (3, 4):
            out.append(_c("B %s CA%d" % (nm, ca), 28, fx, R=False, CA=ca, caps=ALL_CAPS, tags=("B", nm, "ca%d" % ca)))
        fx21 = field_bits(df_fixed(21), 33, 40, sel)
        out.append(_c("B %s DF21 CA4" % nm, 28, fx21, R=False, CA=4, caps=ALL_CAPS, tags=("B", nm, "df21", "ca4")))
    return out


def register_specs():
    """Doc 9871 layouts (Mode S bit numbers): status bits, reserved bits, sign bits, advertising BDS1,7 flag"""
    return {
        "bds40": dict(status=[33, 46, 59], reserved=list(range(72, 80)) + [84, 85], signs=[], cap="bds40"),
        "bds50": dict(status=[33, 44, 56, 67, 78], reserved=[], signs=[34, 45, 68], cap="bds50"),
        "bds60": dict(status=[33, 45, 56, 67, 78], reserved=[], signs=[34, 68, 79], cap="bds60"),
        "bds17": dict(status=[39], reserved=list(range(61, 89)), signs=[], cap=None),  # MB bits 29-56 (pyModeS convention)
    }
