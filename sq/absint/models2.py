"""Second tranche of reviewed std contracts: the APIs a refactoring of this code base is likely to reach for
(iterator adaptors/consumers, slice/Vec/String helpers, integer and float helpers, Option/Result combinators).

Every model states (a) the value (as precisely as the domain allows, Top otherwise), (b) the panics of the API as
obligations, (c) its effects on `&mut` arguments.  A model never *claims* more than the std documentation does; where
the abstraction cannot follow (position-based operations on the abstract input line, unknown lengths) the result is an
unknown value with the right dependencies - never a silently wrong one.
"""
import math

from . import ops
from .domain import (INT_TYPES, BoolV, EnumV, FloatV, IntV, IterV, OpaqueV, RefV, StrV, StructV, Top, TupleV, VecV, deps_of, fresh_sid,
                     join, ty_range)
from .interp import Diverge
from . import models as M
from .models import OPT, RES, deref, opt_cases

UNIT = TupleV(())


def _store(I, st, ref, v, t):
    """a model writing through a reference: recorded like a MIR store (rules look at the stores into the row)"""
    try:
        I.on_store(st, ref.cell, ref.proj, v, t)
    except Exception:
        pass
    I.set_path(st, ref.cell, ref.proj, v)


# --------------------------------------------------------------------------- helpers

def _is_line_item(e):
    return (isinstance(e, OpaqueV) and e.ty in ("char*", "byte*")) or (isinstance(e, IntV) and e.term and e.term[0] in ("hexbyte",))


def _plain_src(it):
    """the remaining source elements when the iterator has no stages and a concrete, position-stable source"""
    if it.unknown or it.src is None or it.stages:
        return None
    rest = list(it.src[it.pos:])
    if any(_is_line_item(e) for e in rest):
        return None
    return rest


def materialize(I, st, it):
    """run the pipeline now. -> (st, [values]) when every element is definitely produced, else (st, None, joined element)"""
    if it.unknown or it.src is None:
        return st, None, (it.end if it.end is not None else Top(it.deps, "item of unknown iterator"))
    st, out, pos = M.drive(I, st, it)
    if all(c == "always" for c, _ in out):
        return st, [e for _, e in out], None
    j = None
    for _, e in out:
        j = e if j is None else join(j, e)
    return st, None, (j if j is not None else Top(it.deps, "no element"))


def _unknown_iter(it, elem, deps=frozenset()):
    return IterV(None, unknown=True, deps=frozenset(deps) | it.deps | deps_of(elem), end=elem)


def _const(v):
    return v.lo if isinstance(v, IntV) and v.is_const() else None


def _opt(some=None, none=True, deps=frozenset()):
    v = {}
    if none:
        v["None"] = ((), {"deps": deps} if deps else {})
    if some is not None:
        v["Some"] = ((some,), {"deps": deps} if deps else {})
    return EnumV(OPT, v)


def _line_warn(I, st, it, what):
    if it.src is not None and any(_is_line_item(e) or (isinstance(e, IntV) and e.term and e.term[0] == "hexchar") for e in it.src):
        I.warn("line-use", "%s on the characters of the input line (position-dependent, not a digit projection)" % what)


# --------------------------------------------------------------------------- iterator adaptors

def m_rev(I, st, c, args, body, t):
    it = M.to_iter(I, st, args[0])
    rest = _plain_src(it)
    if rest is not None:
        return st, IterV(list(reversed(rest)), 0, (), None, it.by_ref_elems)
    _line_warn(I, st, it, "rev()")
    st, vals, j = materialize(I, st, it)
    if vals is not None:
        return st, IterV(list(reversed(vals)))
    return st, _unknown_iter(it, j)


def m_skip_take(I, st, c, args, body, t):
    it = M.to_iter(I, st, args[0])
    n = deref(I, st, args[1])
    nm = c.get("name")
    k = _const(n)
    rest = _plain_src(it)
    if rest is not None and k is not None:
        return st, IterV(rest[k:] if nm == "skip" else rest[:k], 0, (), None, it.by_ref_elems)
    _line_warn(I, st, it, "%s()" % nm)
    st, vals, j = materialize(I, st, it)
    if vals is not None and k is not None:
        return st, IterV(vals[k:] if nm == "skip" else vals[:k])
    if vals is not None:
        j = None
        for e in vals:
            j = e if j is None else join(j, e)
        if j is None:
            return st, IterV([])
    return st, _unknown_iter(it, j, deps_of(n))


def m_step_by(I, st, c, args, body, t):
    it = M.to_iter(I, st, args[0])
    n = deref(I, st, args[1])
    k = _const(n)
    I.call_obligation(body, t, "step_by step != 0", isinstance(n, IntV) and n.lo > 0, repr(n))
    rest = _plain_src(it)
    if rest is None:
        _line_warn(I, st, it, "step_by()")
        st, rest, j = materialize(I, st, it)
    if rest is not None and k:
        return st, IterV(rest[::k])
    if rest is not None:
        j = None
        for e in rest:
            j = e if j is None else join(j, e)
    return st, _unknown_iter(it, j if j is not None else Top(why="step_by"), deps_of(n))


def m_zip(I, st, c, args, body, t):
    a = M.to_iter(I, st, args[0])
    b = M.to_iter(I, st, args[1])
    _line_warn(I, st, a, "zip()")
    _line_warn(I, st, b, "zip()")
    st, va, ja = materialize(I, st, a)
    st, vb, jb = materialize(I, st, b)
    if va is not None and vb is not None:
        return st, IterV([TupleV([x, y]) for x, y in zip(va, vb)])

    def _j(vals, j):
        if vals is None:
            return j
        r = None
        for e in vals:
            r = e if r is None else join(r, e)
        return r
    ea, eb = _j(va, ja), _j(vb, jb)
    if ea is None or eb is None:
        return st, IterV([])
    return st, IterV(None, unknown=True, deps=a.deps | b.deps, end=TupleV([ea, eb]))


def m_chain(I, st, c, args, body, t):
    a = M.to_iter(I, st, args[0])
    b = M.to_iter(I, st, args[1])
    st, va, ja = materialize(I, st, a)
    st, vb, jb = materialize(I, st, b)
    if va is not None and vb is not None:
        return st, IterV(va + vb)
    j = None
    for e in (va or []) + (vb or []) + [x for x in (ja, jb) if x is not None]:
        j = e if j is None else join(j, e)
    return st, IterV(None, unknown=True, deps=a.deps | b.deps, end=j if j is not None else Top(why="chain"))


def m_take_skip_while(I, st, c, args, body, t):
    """take_while / skip_while: cut the (materialised) sequence at the first element the predicate rejects"""
    it = M.to_iter(I, st, args[0])
    nm = c.get("name")
    _line_warn(I, st, it, "%s()" % nm)
    st, vals, j = materialize(I, st, it)
    if vals is None:
        return st, _unknown_iter(it, j)
    cut = None
    undecided = False
    deps = frozenset()
    for i, e in enumerate(vals):
        st, r = _pred(I, st, args[1], e, True)
        deps |= r.deps
        if r.val is None:
            undecided = True
            break
        if r.val is False:
            cut = i
            break
    if undecided:
        jj = None
        for e in vals:
            jj = e if jj is None else join(jj, e)
        return st, IterV(None, unknown=True, deps=it.deps | deps, end=jj)
    if cut is None:
        cut = len(vals)
    return st, IterV(vals[:cut] if nm == "take_while" else vals[cut:])


def m_slice_chunks(I, st, c, args, body, t):
    """chunks / chunks_exact / windows over a concrete slice: an iterator of sub-slice references"""
    v = deref(I, st, args[0])
    n = deref(I, st, args[1])
    nm = c.get("name")
    k = _const(n)
    I.call_obligation(body, t, "%s size != 0" % nm, isinstance(n, IntV) and n.lo > 0, repr(n))
    if isinstance(v, VecV) and v.elems is not None and k:
        el = v.elems
        parts = []
        if nm == "windows":
            parts = [el[i:i + k] for i in range(0, max(0, len(el) - k + 1))]
        else:
            parts = [el[i:i + k] for i in range(0, len(el), k)]
            if nm == "chunks_exact" and parts and len(parts[-1]) < k:
                parts.pop()
        return st, IterV([RefV(I.new_cell(st, VecV(p, elem_ty=v.elem_ty))) for p in parts])
    summ = M._summary(v) if isinstance(v, VecV) else Top(deps_of(v), "chunk")
    cell = I.new_cell(st, VecV(None, IntV("usize", None, 0 if nm == "chunks" else (k or 0), k if k else (1 << 40)), summ))
    return st, IterV(None, unknown=True, deps=deps_of(v) | deps_of(n), end=RefV(cell))


def m_as_chunks(I, st, c, args, body, t):
    """as_chunks::<N>() / as_rchunks -> (&[[T; N]], &[T]): whole N-element arrays and the remainder (N != 0 is a compile-time check)"""
    v = deref(I, st, args[0])
    k = None
    for g in (c.get("generic_args") or [])[::-1]:
        if str(g).strip().isdigit():
            k = int(str(g).strip())
            break
    if isinstance(v, VecV) and v.elems is not None and k:
        el = list(v.elems)
        nfull = len(el) // k
        if c.get("name") == "as_rchunks":
            rem, body_ = el[:len(el) - nfull * k], el[len(el) - nfull * k:]
        else:
            body_, rem = el[:nfull * k], el[nfull * k:]
        arrs = [VecV(body_[i * k:(i + 1) * k], elem_ty=v.elem_ty) for i in range(nfull)]
        a = RefV(I.new_cell(st, VecV(arrs)))
        r = RefV(I.new_cell(st, VecV(rem, elem_ty=v.elem_ty)))
        return st, TupleV([r, a] if c.get("name") == "as_rchunks" else [a, r])
    summ = M._summary(v) if isinstance(v, VecV) else Top(deps_of(v), "chunk")
    a = RefV(I.new_cell(st, VecV(None, IntV("usize", None, 0, 1 << 40), VecV(None, IntV.const("usize", k or 0), summ))))
    r = RefV(I.new_cell(st, VecV(None, IntV("usize", None, 0, max(0, (k or 1) - 1)), summ)))
    return st, TupleV([a, r])


# --------------------------------------------------------------------------- iterator consumers

def _elems(I, st, it):
    """-> (st, [(cond, value)]) or (st, None) for an unknown iterator"""
    if it.unknown or it.src is None:
        return st, None
    st, out, pos = M.drive(I, st, it)
    return st, out


def m_sum(I, st, c, args, body, t):
    it = M.to_iter(I, st, args[0])
    ga = c.get("generic_args") or []
    ty = next((g for g in ga if g in INT_TYPES), None)
    is_prod = c.get("name") == "product"
    st, out = _elems(I, st, it)
    if out is None or ty is None:
        if ty is not None:
            I.call_obligation(body, t, "overflow:%s of an unbounded sequence" % c.get("name"), False, "unknown iterator")
            return st, IntV(ty, deps=it.deps)
        return st, Top(it.deps, c.get("name"))
    acc = IntV.const(ty, 1 if is_prod else 0)
    for cnd, e in out:
        e = deref(I, st, e)
        if not isinstance(e, IntV):
            return st, Top(deps_of(e), "sum of non-integers")
        if e.ty != ty:
            e = ops.cast_int(e, ty)
        r, ovf = ops.int_binop(("Mul" if is_prod else "Add") + "WithOverflow", acc, e, ty)
        I.call_obligation(body, t, "overflow:%s" % c.get("name"), ovf.val is False, "%r %r" % (acc, e))
        acc = r if cnd == "always" else join(acc, r)
        if cnd == "many":
            I.call_obligation(body, t, "overflow:%s of an unbounded sequence" % c.get("name"), False, "repeated element")
            return st, IntV(ty, deps=deps_of(acc))
    return st, acc


def m_count(I, st, c, args, body, t):
    it = M.to_iter(I, st, args[0])
    st, out = _elems(I, st, it)
    if out is None:
        return st, IntV("usize", deps=it.deps)
    n_always = sum(1 for cnd, _ in out if cnd == "always")
    if n_always == len(out):
        return st, IntV.const("usize", n_always)
    d = frozenset()
    for cnd, e in out:
        if cnd != "always":
            d |= deps_of(e)
    many = any(cnd == "many" for cnd, _ in out)
    return st, IntV("usize", None, n_always, (1 << 40) if many else len(out), None, d | it.deps)


def _pred(I, st, f, e, by_ref):
    arg = RefV(I.new_cell(st, e)) if by_ref else e
    st, r = I.call_value(st, f, [arg])
    if not isinstance(r, BoolV):
        r = BoolV(None, None, deps_of(r))
    return st, r


def m_position(I, st, c, args, body, t):
    it = M.to_iter(I, st, args[0])
    st, out = _elems(I, st, it)
    if out is None or any(cnd != "always" for cnd, _ in out):
        return st, _opt(IntV("usize", deps=it.deps), True, it.deps)
    cands = []
    deps = frozenset()
    for i, (cnd, e) in enumerate(out):
        st, r = _pred(I, st, args[1], e, False)
        deps |= r.deps
        if r.val is True:
            cands.append(i)
            if len(cands) == 1:
                return st, EnumV.some(IntV.const("usize", i))
            return st, _opt(IntV("usize", None, min(cands), max(cands), None, deps, fresh_sid()), False, deps)
        if r.val is None:
            cands.append(i)
    if not cands:
        return st, EnumV.none()
    return st, _opt(IntV("usize", None, min(cands), max(cands), None, deps, fresh_sid()), True, deps)


def m_find(I, st, c, args, body, t):
    it = M.to_iter(I, st, args[0])
    st, out = _elems(I, st, it)
    if out is None:
        e = it.end if it.end is not None else Top(it.deps, "find")
        return st, _opt(e, True, it.deps)
    res = None
    deps = frozenset()

    def merge(res, e):
        if res is None:
            return e
        if isinstance(res, RefV) and isinstance(e, RefV) and not res.mut and not e.mut:
            # one of several elements of read-only data: a reference to a summary of the candidates
            return RefV(I.new_cell(st, join(deref(I, st, res), deref(I, st, e))))
        return join(res, e)

    for cnd, e in out:
        st, r = _pred(I, st, args[1], e, True)
        deps |= r.deps
        if r.val is False:
            continue
        res = merge(res, e)
        if r.val is True and cnd == "always":
            if deps or res is not e:
                return st, _opt(res, False, deps)
            return st, EnumV.some(e)
    if res is None:
        return st, EnumV.none()
    return st, _opt(res, True, deps)


def m_find_map(I, st, c, args, body, t):
    it = M.to_iter(I, st, args[0])
    st, out = _elems(I, st, it)
    if out is None:
        return st, _opt(Top(it.deps, "find_map"), True, it.deps)
    res = None
    for cnd, e in out:
        st, r = I.call_value(st, args[1], [e])
        r = opt_cases(I, st, r)
        if r.only("None"):
            continue
        p = r.payload("Some")
        res = p if res is None else join(res, p)
        if r.only("Some") and cnd == "always":
            return st, _opt(res, False)
    if res is None:
        return st, EnumV.none()
    return st, _opt(res, True)


def m_last(I, st, c, args, body, t):
    it = M.to_iter(I, st, args[0])
    st, out = _elems(I, st, it)
    if out is None:
        return st, _opt(it.end if it.end is not None else Top(it.deps, "last"), True, it.deps)
    if not out:
        return st, EnumV.none()
    if out[-1][0] == "always":
        return st, EnumV.some(out[-1][1])
    j = None
    for _, e in out:
        j = e if j is None else join(j, e)
    return st, _opt(j, not any(cnd == "always" for cnd, _ in out))


def m_nth(I, st, c, args, body, t):
    it = M.to_iter(I, st, args[0])
    n = deref(I, st, args[1])
    k = _const(n)
    st, out = _elems(I, st, it)
    if out is not None and k is not None and all(cnd == "always" for cnd, _ in out):
        if isinstance(args[0], RefV):
            I.set_path(st, args[0].cell, args[0].proj, IterV([e for _, e in out][k + 1:]))
        return st, (EnumV.some(out[k][1]) if k < len(out) else EnumV.none())
    j = None
    for _, e in (out or []):
        j = e if j is None else join(j, e)
    if j is None:
        j = it.end if it.end is not None else Top(it.deps, "nth")
    return st, _opt(j, True, it.deps | deps_of(n))


def m_for_each(I, st, c, args, body, t):
    it = M.to_iter(I, st, args[0])
    st, out = _elems(I, st, it)
    if out is None:
        item = it.end if it.end is not None else Top(it.deps, "item of unknown iterator")
        for _ in range(3):
            try:
                s2, _r = I.call_value(st.copy(), args[1], [item])
            except Diverge:
                break
            st, ch = I.join_states(st, s2)
            if not ch:
                break
        return st, UNIT
    for cnd, e in out:
        if cnd == "always":
            st, _r = I.call_value(st, args[1], [e])
        else:
            s2, _r = I.call_value(st.copy(), args[1], [e])
            st, _ = I.join_states(st, s2)
    return st, UNIT


def m_slice_sort(I, st, c, args, body, t):
    """sort / sort_by / sort_by_key / sort_by_cached_key / sort_unstable* / reverse / rotate / swap on a slice: a permutation.
    The key / comparator closure is called on arbitrary elements (its panics are obligations like any other); afterwards the
    elements are the same multiset in an order the domain does not track."""
    nm = c.get("name")
    v = deref(I, st, args[0])
    if isinstance(v, RefV):
        v = deref(I, st, v)
    elem = None
    if isinstance(v, VecV):
        if v.elems is not None:
            for e in v.elems:
                elem = e if elem is None else join(elem, e)
        else:
            elem = v.summary
    if elem is None:
        elem = Top(deps_of(v), "element of the sorted slice")
    if len(args) > 1 and nm not in ("reverse", "rotate_left", "rotate_right", "swap"):
        n_el = 2 if nm in ("sort_by", "sort_unstable_by", "select_nth_unstable_by") else 1
        # (the probe elements live in cells tied to the call site: a fresh cell per visit would keep a surrounding loop from
        # reaching its fixpoint)
        sp = t.get("span") or {}
        cells = []
        for k_ in range(n_el):
            key = ("sort-probe", body.name if body is not None else "?", sp.get("line"), sp.get("col"), k_)
            cid = I.side.get(key)
            if cid is None:
                cid = I.new_cell(st, elem)
                I.side[key] = cid
            else:
                old = st.heap.get(cid)
                I.cell_set(st, cid, elem if old is None else join(old, elem))
            cells.append(cid)
        try:
            s2, _r = I.call_value(st.copy(), args[-1], [RefV(c_) for c_ in cells])
            st, _ = I.join_states(st, s2)
        except Diverge:
            pass
    if isinstance(v, VecV) and v.elems is not None and len(v.elems) > 1 and isinstance(args[0], RefV):
        tgt = args[0]
        inner = I.get_path(st, tgt.cell, tgt.proj)
        if isinstance(inner, RefV):
            tgt = inner
        I.set_path(st, tgt.cell, tgt.proj, VecV(None, IntV.const("usize", len(v.elems)), elem, elem_ty=v.elem_ty))
    return st, UNIT


def m_try_for_each(I, st, c, args, body, t):
    """try_for_each(f): like for_each, but stops at the first Err / None the closure returns, which is then the result"""
    it = M.to_iter(I, st, args[0])
    st, out = _elems(I, st, it)
    good, badn = ("Ok", "Err")
    acc_bad = None
    okv = None
    if out is None:
        item = it.end if it.end is not None else Top(it.deps, "item of unknown iterator")
        out = [("maybe", item)]
    done_states = []
    for cnd, e in out:
        s2, r = I.call_value(st.copy() if cnd != "always" else st, args[1], [e])
        r = opt_cases(I, s2, r) if isinstance(r, EnumV) or r is None else r
        if isinstance(r, EnumV) and r.adt == OPT:
            good, badn = ("Some", "None")
        if isinstance(r, EnumV) and r.may(badn):
            # the closure may stop the iteration here
            sb = s2.copy()
            if I.install_guard(sb, r.variants[badn][1], narrowed=len(r.variants) > 1):
                done_states.append((sb, EnumV(r.adt, {badn: r.variants[badn]})))
        if isinstance(r, EnumV) and r.may(good):
            if not I.install_guard(s2, r.variants[good][1], narrowed=len(r.variants) > 1):
                break
            okv = EnumV(r.adt, {good: ((UNIT,), {})})
        elif not isinstance(r, EnumV):
            okv = None
        else:
            break       # cannot continue
        if cnd == "always":
            st = s2
        else:
            st, _ = I.join_states(st, s2)
    if okv is None:
        okv = EnumV(RES, {"Ok": ((UNIT,), {})})
    return M.join_results(I, [(st, okv)] + done_states)


def m_minmax_by_key(I, st, c, args, body, t):
    it = M.to_iter(I, st, args[0])
    st, out = _elems(I, st, it)
    if out is None:
        return st, _opt(it.end if it.end is not None else Top(it.deps, "max_by_key"), True, it.deps)
    if not out:
        return st, EnumV.none()
    j = None
    d = frozenset()
    for cnd, e in out:
        st, k = I.call_value(st, args[1], [RefV(I.new_cell(st, e))])
        d |= deps_of(k)
        j = e if j is None else join(j, e)
    return st, _opt(j, not any(cnd == "always" for cnd, _ in out), d if len(out) > 1 else frozenset())


# --------------------------------------------------------------------------- slices / Vec

def _vec_of(I, st, a):
    v = deref(I, st, a)
    return v if isinstance(v, VecV) else None


def m_first_last(I, st, c, args, body, t):
    a = args[0]
    v = _vec_of(I, st, a)
    nm = c.get("name")
    if v is not None and v.elems is not None and isinstance(a, RefV):
        if not v.elems:
            return st, EnumV.none()
        base = a
        inner = I.get_path(st, a.cell, a.proj)
        if isinstance(inner, RefV):
            base = inner
        i = 0 if nm == "first" else len(v.elems) - 1
        return st, EnumV.some(RefV(base.cell, base.proj + (("index", i, IntV.const("usize", i)),)))
    d = deps_of(v) if v is not None else frozenset()
    summ = M._summary(v) if v is not None else Top(d, nm)
    may_empty = not (v is not None and isinstance(v.length, IntV) and v.length.lo > 0)
    return st, _opt(RefV(I.new_cell(st, summ)), may_empty, deps_of(v.length) if v is not None else d)


def m_slice_get(I, st, c, args, body, t):
    a = args[0]
    v = _vec_of(I, st, a)
    idx = deref(I, st, args[1])
    if isinstance(idx, IntV) and v is not None and isinstance(a, RefV):
        base = a
        inner = I.get_path(st, a.cell, a.proj)
        if isinstance(inner, RefV):
            base = inner
        ln = v.length
        if isinstance(ln, IntV):
            if idx.hi < ln.lo:
                return st, EnumV.some(RefV(base.cell, base.proj + (("index", idx.lo if idx.is_const() else None, idx),)))
            if idx.lo >= ln.hi:
                return st, EnumV.none()
        d = idx.deps | deps_of(ln)
        return st, _opt(RefV(base.cell, base.proj + (("index", idx.lo if idx.is_const() else None, idx),)), True, d)
    if isinstance(idx, StructV) and v is not None and v.elems is not None:
        s, e = idx.get("start"), idx.get("end")
        n = len(v.elems)
        lo = _const(s) if s is not None else 0
        hi = n if e is None else (_const(e) + (1 if "Inclusive" in idx.adt else 0) if _const(e) is not None else None)
        if lo is not None and hi is not None:
            if 0 <= lo <= hi <= n:
                return st, EnumV.some(RefV(I.new_cell(st, VecV(v.elems[lo:hi], elem_ty=v.elem_ty))))
            return st, EnumV.none()
    d = deps_of(v) | deps_of(idx)
    return st, _opt(RefV(I.new_cell(st, M._summary(v) if v is not None else Top(d, "get"))), True, d)


def m_is_empty(I, st, c, args, body, t):
    v = deref(I, st, args[0])
    if isinstance(v, VecV):
        ln = v.length
        if isinstance(ln, IntV):
            if ln.hi == 0:
                return st, BoolV(True)
            if ln.lo > 0:
                return st, BoolV(False)
            return st, BoolV(None, None, ln.deps, ("eq", M._t(ln), 0))
    if isinstance(v, StrV):
        if v.skind == "lit":
            return st, BoolV(len(v.text) == 0)
        if v.skind == "line":
            if len(v.digits) > 0:
                return st, BoolV(False)       # a line with a hex digit in it is not empty
            I.warn("line-use", "is_empty() of a line without hex digits (depends on decoration only)")
            return st, BoolV(None, None, frozenset([("decoration",)]))
        if v.skind == "chars":
            if not v.chars:
                return st, BoolV(True)
            if any(cnd == "always" for cnd, _ in v.chars):
                return st, BoolV(False)
            d = frozenset()
            for _, ch in v.chars:
                d |= deps_of(ch)
            return st, BoolV(None, None, d, ("str_is_empty", tuple(M._t(ch) for _, ch in v.chars)))
        return st, BoolV(None, None, v.deps)
    if isinstance(v, IterV):
        return st, BoolV(None, None, v.deps)
    return st, BoolV(None, None, deps_of(v))


def m_with_capacity(I, st, c, args, body, t):
    if "String" in (c.get("path") or "") or "String" in (c.get("instance") or ""):
        return st, StrV("lit", text="")
    return st, VecV([])


def m_vec_extend(I, st, c, args, body, t):
    a = args[0]
    va = _vec_of(I, st, a)
    src = deref(I, st, args[1]) if not isinstance(args[1], IterV) else args[1]
    vals = None
    j = None
    if isinstance(src, VecV) and src.elems is not None:
        vals = list(src.elems)
    else:
        it = M.to_iter(I, st, args[1])
        st, vals, j = materialize(I, st, it)
        if vals is not None:
            vals = [deref(I, st, e) if it.by_ref_elems else e for e in vals]
    if isinstance(a, RefV) and va is not None:
        if va.elems is not None and vals is not None:
            I.set_path(st, a.cell, a.proj, VecV(tuple(va.elems) + tuple(vals), elem_ty=va.elem_ty))
        else:
            s = M._summary(va) if (va.elems or va.summary is not None) else None
            for e in (vals or []) + ([j] if j is not None else []):
                s = e if s is None else join(s, e)
            I.set_path(st, a.cell, a.proj, VecV(None, IntV("usize"), s if s is not None else Top(why="extend")))
    return st, UNIT


def m_vec_clear(I, st, c, args, body, t):
    a = args[0]
    if isinstance(a, RefV):
        v = deref(I, st, a)
        if isinstance(v, StrV):
            I.set_path(st, a.cell, a.proj, StrV("lit", text=""))
        else:
            I.set_path(st, a.cell, a.proj, VecV([], elem_ty=getattr(v, "elem_ty", None)))
    return st, UNIT


def m_vec_truncate(I, st, c, args, body, t):
    a = args[0]
    v = _vec_of(I, st, a)
    k = _const(deref(I, st, args[1]))
    if isinstance(a, RefV) and v is not None:
        if v.elems is not None and k is not None:
            I.set_path(st, a.cell, a.proj, VecV(v.elems[:k], elem_ty=v.elem_ty))
        else:
            I.set_path(st, a.cell, a.proj, VecV(None, IntV("usize"), M._summary(v)))
    return st, UNIT


def m_vec_pop(I, st, c, args, body, t):
    a = args[0]
    v = _vec_of(I, st, a)
    if isinstance(a, RefV) and v is not None and v.elems is not None:
        if not v.elems:
            return st, EnumV.none()
        I.set_path(st, a.cell, a.proj, VecV(v.elems[:-1], elem_ty=v.elem_ty))
        return st, EnumV.some(v.elems[-1])
    s = M._summary(v) if v is not None else Top(why="pop")
    return st, _opt(s, True, deps_of(v))


def m_split_off(I, st, c, args, body, t):
    a = args[0]
    v = _vec_of(I, st, a)
    n = deref(I, st, args[1])
    k = _const(n)
    if v is not None and isinstance(v.length, IntV) and isinstance(n, IntV):
        I.call_obligation(body, t, "split_off at <= len", n.hi <= v.length.lo, "at %r len %r" % (n, v.length))
        if n.lo > v.length.hi:
            raise Diverge("split_off")
    else:
        I.call_obligation(body, t, "split_off at <= len", False, "unknown")
    if isinstance(a, RefV) and v is not None and v.elems is not None and k is not None and k <= len(v.elems):
        I.set_path(st, a.cell, a.proj, VecV(v.elems[:k], elem_ty=v.elem_ty))
        return st, VecV(v.elems[k:], elem_ty=v.elem_ty)
    if isinstance(a, RefV) and v is not None:
        I.set_path(st, a.cell, a.proj, VecV(None, IntV("usize"), M._summary(v)))
    return st, VecV(None, IntV("usize"), M._summary(v) if v is not None else Top(why="split_off"))


def m_split_at(I, st, c, args, body, t):
    v = _vec_of(I, st, args[0])
    n = deref(I, st, args[1])
    k = _const(n)
    if v is not None and isinstance(v.length, IntV) and isinstance(n, IntV):
        I.call_obligation(body, t, "split_at mid <= len", n.hi <= v.length.lo, "mid %r len %r" % (n, v.length))
        if n.lo > v.length.hi:
            raise Diverge("split_at")
    else:
        I.call_obligation(body, t, "split_at mid <= len", False, "unknown")
    if v is not None and v.elems is not None and k is not None and k <= len(v.elems):
        return st, TupleV([RefV(I.new_cell(st, VecV(v.elems[:k], elem_ty=v.elem_ty))), RefV(I.new_cell(st, VecV(v.elems[k:], elem_ty=v.elem_ty)))])
    s = M._summary(v) if v is not None else Top(why="split_at")
    return st, TupleV([RefV(I.new_cell(st, VecV(None, IntV("usize"), s))), RefV(I.new_cell(st, VecV(None, IntV("usize"), s)))])


def m_vec_remove_insert(I, st, c, args, body, t):
    """Vec::remove / insert / swap_remove: index obligations; contents followed only for constant indices"""
    a = args[0]
    v = _vec_of(I, st, a)
    nm = c.get("name")
    idx = deref(I, st, args[1])
    k = _const(idx)
    ln = v.length if v is not None else None
    lim_ok = isinstance(idx, IntV) and isinstance(ln, IntV) and (idx.hi <= ln.lo if nm == "insert" else idx.hi < ln.lo)
    I.call_obligation(body, t, "%s index in bounds" % nm, lim_ok, "index %r len %r" % (idx, ln))
    if isinstance(idx, IntV) and isinstance(ln, IntV) and (idx.lo > ln.hi if nm == "insert" else idx.lo >= ln.hi):
        raise Diverge(nm)
    if isinstance(a, RefV) and v is not None and v.elems is not None and k is not None and lim_ok:
        el = list(v.elems)
        if nm == "insert":
            el.insert(k, args[2])
            I.set_path(st, a.cell, a.proj, VecV(el, elem_ty=v.elem_ty))
            return st, UNIT
        if nm == "remove":
            x = el.pop(k)
        else:
            x = el[k]
            el[k] = el[-1]
            el.pop()
        I.set_path(st, a.cell, a.proj, VecV(el, elem_ty=v.elem_ty))
        return st, x
    s = M._summary(v) if v is not None else Top(why=nm)
    if nm == "insert":
        s = join(s, args[2])
    if isinstance(a, RefV) and v is not None:
        I.set_path(st, a.cell, a.proj, VecV(None, IntV("usize"), s))
    return st, UNIT if nm == "insert" else s


def m_slice_reverse(I, st, c, args, body, t):
    a = args[0]
    v = _vec_of(I, st, a)
    if isinstance(a, RefV) and v is not None:
        base = a
        inner = I.get_path(st, a.cell, a.proj)
        if isinstance(inner, RefV):
            base = inner
        if v.elems is not None:
            I.set_path(st, base.cell, base.proj, VecV(tuple(reversed(v.elems)), elem_ty=v.elem_ty))
    return st, UNIT


def m_starts_ends_with(I, st, c, args, body, t):
    v = deref(I, st, args[0])
    p = deref(I, st, args[1])
    nm = c.get("name")
    if isinstance(v, VecV) and isinstance(p, VecV) and v.elems is not None and p.elems is not None:
        if len(p.elems) > len(v.elems):
            return st, BoolV(False)
        seg = v.elems[:len(p.elems)] if nm == "starts_with" else v.elems[len(v.elems) - len(p.elems):]
        res = True
        d = frozenset()
        for x, y in zip(seg, p.elems):
            b = M.values_eq(I, st, x, y)
            d |= b.deps
            if b.val is False:
                return st, BoolV(False)
            if b.val is None:
                res = None
        return st, BoolV(res, None, d)
    if isinstance(v, StrV) and v.skind == "lit" and isinstance(p, StrV) and p.skind == "lit":
        return st, BoolV(v.text.startswith(p.text) if nm == "starts_with" else v.text.endswith(p.text))
    if isinstance(v, StrV) and v.skind == "line":
        I.warn("line-use", "%s() on the input line (depends on decoration)" % nm)
        return st, BoolV(None, None, frozenset([("decoration",)]))
    return st, BoolV(None, None, deps_of(v) | deps_of(p))


# --------------------------------------------------------------------------- str / String / char

def _nonhex_pattern(p):
    """is the pattern (char / &str literal / char array) free of hex digits?  None = unknown"""
    if isinstance(p, IntV) and p.is_const():
        return chr(p.lo) not in "0123456789abcdefABCDEF"
    if isinstance(p, StrV) and p.skind == "lit":
        return not any(ch in "0123456789abcdefABCDEF" for ch in p.text)
    if isinstance(p, VecV) and p.elems is not None:
        r = [_nonhex_pattern(e) for e in p.elems]
        return all(x is True for x in r) if all(x is not None for x in r) else None
    return None


def m_str_decoration(I, st, c, args, body, t):
    """trim*/to_*case/to_owned/.. on the abstract line: the hex-digit sequence is unchanged (only decoration or letter case
    changes), so the result is the same abstract line; on other strings: opaque with the same dependencies"""
    s = deref(I, st, args[0])
    nm = c.get("name")
    if isinstance(s, StrV) and s.skind == "line":
        if nm in ("trim_matches", "trim_start_matches", "trim_end_matches", "replace", "replacen"):
            p = deref(I, st, args[1])
            if _nonhex_pattern(p) is not True:
                I.warn("line-use", "%s() with a pattern that may contain hex digits" % nm)
                return st, StrV("opaque", deps=deps_of(s) | frozenset([("decoration",)]))
            if nm in ("replace", "replacen"):
                r = deref(I, st, args[2])
                if _nonhex_pattern(r) is not True:
                    I.warn("line-use", "%s() inserts text that may contain hex digits" % nm)
                    return st, StrV("opaque", deps=deps_of(s) | frozenset([("decoration",)]))
        return st, s
    if isinstance(s, StrV) and s.skind == "lit":
        f = {"trim": str.strip, "trim_start": str.lstrip, "trim_end": str.rstrip, "to_uppercase": str.upper, "to_lowercase": str.lower,
             "to_ascii_uppercase": str.upper, "to_ascii_lowercase": str.lower, "to_owned": str, "to_string": str, "as_str": str}.get(nm)
        if f is not None and all(ord(ch) < 128 for ch in s.text):
            return st, StrV("lit", text=f(s.text))
    if isinstance(s, StrV) and nm in ("to_owned", "to_string", "as_str", "clone", "into", "from", "borrow", "as_ref", "into_boxed_str", "into_string"):
        return st, s
    return st, StrV("opaque", deps=deps_of(s))


def m_strip_prefix(I, st, c, args, body, t):
    s = deref(I, st, args[0])
    p = deref(I, st, args[1])
    if isinstance(s, StrV) and s.skind == "line":
        if _nonhex_pattern(p) is True:
            # present or not depends on decoration only; the remainder is the same abstract line
            return st, _opt(s, True, frozenset([("decoration",)]))
        I.warn("line-use", "%s() with a pattern that may contain hex digits" % c.get("name"))
    return st, _opt(StrV("opaque", deps=deps_of(s) | deps_of(p)), True, deps_of(s) | deps_of(p))


def m_string_push(I, st, c, args, body, t):
    a = args[0]
    s = deref(I, st, a)
    x = deref(I, st, args[1])
    if isinstance(a, RefV):
        if isinstance(s, StrV) and s.skind == "lit" and isinstance(x, IntV) and x.is_const() and c.get("name") == "push":
            I.set_path(st, a.cell, a.proj, StrV("lit", text=s.text + chr(x.lo)))
        elif isinstance(s, StrV) and s.skind == "lit" and isinstance(x, StrV) and x.skind == "lit":
            I.set_path(st, a.cell, a.proj, StrV("lit", text=s.text + x.text))
        elif isinstance(s, StrV) and s.skind in ("lit", "chars") and isinstance(x, IntV) and c.get("name") == "push":
            pre = [("always", IntV.const("char", ord(ch))) for ch in s.text] if s.skind == "lit" else list(s.chars)
            I.set_path(st, a.cell, a.proj, StrV("chars", chars=pre + [("always", x)]))
        else:
            I.set_path(st, a.cell, a.proj, StrV("opaque", deps=deps_of(s) | deps_of(x)))
    return st, UNIT


def m_char_class(I, st, c, args, body, t):
    ch = deref(I, st, args[0])
    nm = c.get("name")
    radix16 = True
    if nm == "is_digit":
        r = deref(I, st, args[1])
        radix16 = isinstance(r, IntV) and r.is_const() and r.lo == 16
    if isinstance(ch, IntV) and ch.term and ch.term[0] in ("hexchar", "nonhexchar"):
        hexc = ch.term[0] == "hexchar"
        if nm == "is_ascii_hexdigit" or (nm == "is_digit" and radix16):
            return st, BoolV(hexc)
        if nm in ("is_ascii_alphanumeric", "is_alphanumeric", "is_ascii_graphic", "is_ascii") and hexc:
            return st, BoolV(True)
        if nm in ("is_whitespace", "is_ascii_whitespace", "is_ascii_punctuation", "is_control", "is_ascii_control") and hexc:
            return st, BoolV(False)
        return st, BoolV(None, None, ch.deps | frozenset([("decoration",)]))
    if isinstance(ch, IntV) and ch.is_const():
        x = chr(ch.lo) if ch.lo < 0x110000 else "\0"
        table = {"is_ascii_hexdigit": x in "0123456789abcdefABCDEF", "is_whitespace": x.isspace(), "is_ascii_whitespace": x in " \t\n\r\x0c",
                 "is_ascii_digit": x in "0123456789", "is_alphabetic": x.isalpha(), "is_ascii_alphabetic": x.isascii() and x.isalpha(),
                 "is_alphanumeric": x.isalnum(), "is_ascii_alphanumeric": x.isascii() and x.isalnum(), "is_ascii": x.isascii(),
                 "is_ascii_uppercase": x.isascii() and x.isupper(), "is_ascii_lowercase": x.isascii() and x.islower(),
                 "is_numeric": x.isnumeric(), "is_uppercase": x.isupper(), "is_lowercase": x.islower(),
                 "is_ascii_punctuation": x.isascii() and not x.isalnum() and x.isprintable() and x != " ",
                 "is_control": ch.lo < 32 or 127 <= ch.lo < 160, "is_ascii_control": ch.lo < 32 or ch.lo == 127,
                 "is_ascii_graphic": 33 <= ch.lo <= 126}
        if nm in table:
            return st, BoolV(table[nm])
    if isinstance(ch, IntV) and nm in ("is_whitespace", "is_ascii_whitespace"):
        ws = [9, 10, 11, 12, 13, 32] if nm == "is_whitespace" else [9, 10, 12, 13, 32]
        if ch.vset is not None:
            hits = [x in ws or (nm == "is_whitespace" and x in (0x85, 0xA0, 0x1680, 0x2028, 0x2029, 0x202F, 0x205F, 0x3000) or 0x2000 <= x <= 0x200A) for x in ch.vset]
            if all(hits):
                return st, BoolV(True)
            if not any(hits):
                return st, BoolV(False)
        return st, BoolV(None, None, ch.deps, (nm, M._t(ch)))
    return st, BoolV(None, None, deps_of(ch), (nm, M._t(ch)) if isinstance(ch, IntV) else None)


def m_char_case(I, st, c, args, body, t):
    ch = deref(I, st, args[0])
    if isinstance(ch, IntV) and ch.term and ch.term[0] in ("hexchar", "nonhexchar"):
        return st, ch        # same hex digit / still not a hex digit (ASCII case mapping keeps both classes)
    if isinstance(ch, IntV) and ch.is_const() and ch.lo < 128:
        x = chr(ch.lo)
        return st, IntV.const(ch.ty, ord(x.upper() if "upper" in c.get("name") else x.lower()))
    return st, IntV(ch.ty if isinstance(ch, IntV) else "char", deps=deps_of(ch))


# --------------------------------------------------------------------------- integers

def m_int_pow(I, st, c, args, body, t):
    a, e = deref(I, st, args[0]), deref(I, st, args[1])
    nm = c.get("name")
    if isinstance(a, IntV) and isinstance(e, IntV) and e.is_const() and e.lo <= 64:
        acc = IntV.const(a.ty, 1)
        ok = True
        for _ in range(e.lo):
            acc, ovf = ops.int_binop("MulWithOverflow", acc, a, a.ty)
            if ovf.val is not False:
                ok = False
        if nm == "pow":
            I.call_obligation(body, t, "overflow:pow", ok, "%r ^ %r" % (a, e))
            return st, acc
        if ok:
            return st, (EnumV.some(acc) if nm == "checked_pow" else acc)
    if nm == "pow":
        I.call_obligation(body, t, "overflow:pow", False, "%r ^ %r" % (a, e))
    d = deps_of(a) | deps_of(e)
    r = IntV(a.ty if isinstance(a, IntV) else "u32", deps=d)
    return st, (_opt(r, True, d) if nm == "checked_pow" else r)


def m_int_bits(I, st, c, args, body, t):
    a = deref(I, st, args[0])
    nm = c.get("name")
    if isinstance(a, IntV):
        w = INT_TYPES[a.ty][0]
        if a.is_const():
            x = a.lo & ((1 << w) - 1)
            r = {"count_ones": bin(x).count("1"), "count_zeros": w - bin(x).count("1"),
                 "leading_zeros": w - x.bit_length(), "trailing_zeros": (w if x == 0 else (x & -x).bit_length() - 1),
                 "leading_ones": w - ((~x) & ((1 << w) - 1)).bit_length(),
                 "trailing_ones": (lambda y: (w if y == 0 else (y & -y).bit_length() - 1))((~x) & ((1 << w) - 1))}.get(nm)
            if r is not None:
                return st, IntV.const("u32", r)
        if nm in ("leading_zeros",) and a.lo >= 0:
            return st, IntV("u32", None, w - max(a.hi, 0).bit_length(), w - max(a.lo, 0).bit_length(), None, a.deps, None,
                            ("lzbits", a.bits[w - 1]) if a.bits is not None else (nm, M._t(a)))
        return st, IntV("u32", None, 0, w, None, a.deps, None, (nm, M._t(a)))
    return st, IntV("u32", None, 0, 128, None, deps_of(a))


def m_is_power_of_two(I, st, c, args, body, t):
    a = deref(I, st, args[0])
    if isinstance(a, IntV) and a.is_const():
        return st, BoolV(a.lo > 0 and a.lo & (a.lo - 1) == 0)
    return st, BoolV(None, None, deps_of(a))


def m_euclid(I, st, c, args, body, t):
    a, b = deref(I, st, args[0]), deref(I, st, args[1])
    nm = c.get("name")
    if isinstance(a, FloatV) or isinstance(b, FloatV):
        d = deps_of(a) | deps_of(b)
        if nm == "rem_euclid" and isinstance(b, FloatV) and b.is_const() and b.lo > 0:
            return st, FloatV(0.0, b.lo, d, (nm, getattr(a, "term", None), b.lo))
        return st, FloatV(deps=d, term=(nm,))
    if isinstance(a, IntV) and isinstance(b, IntV):
        I.call_obligation(body, t, "division by zero (%s)" % nm, not (b.lo <= 0 <= b.hi), repr(b))
        if b.lo == 0 and b.hi == 0:
            raise Diverge(nm)
        tlo, thi = ty_range(a.ty)
        if tlo < 0:
            I.call_obligation(body, t, "overflow:%s (MIN / -1)" % nm, not (a.lo == tlo and b.lo <= -1 <= b.hi), "%r %r" % (a, b))
        d = a.deps | b.deps
        if nm == "rem_euclid":
            if a.is_const() and b.is_const():
                return st, IntV.const(a.ty, a.lo % abs(b.lo))
            m = max(abs(b.lo), abs(b.hi))
            hi = m - 1
            if a.lo >= 0:
                hi = min(hi, a.hi)
            return st, IntV(a.ty, None, 0, max(hi, 0), None, d, None, ("rem_euclid", M._t(a), M._t(b)))
        if a.is_const() and b.is_const():
            q = (a.lo - (a.lo % abs(b.lo))) // b.lo
            return st, IntV.const(a.ty, q)
        m = max(abs(a.lo), abs(a.hi)) + 1
        return st, IntV(a.ty, None, max(tlo, -m), min(thi, m), None, d)
    return st, Top(deps_of(a) | deps_of(b), nm)


def m_clamp(I, st, c, args, body, t):
    a, lo, hi = (deref(I, st, x) for x in args[:3])
    if isinstance(a, IntV) and isinstance(lo, IntV) and isinstance(hi, IntV):
        I.call_obligation(body, t, "clamp min <= max", lo.hi <= hi.lo, "%r %r" % (lo, hi))
        return st, IntV(a.ty, None, max(min(a.lo, hi.lo), lo.lo), min(max(a.hi, lo.hi), hi.hi), None, a.deps | lo.deps | hi.deps)
    if isinstance(a, FloatV) and isinstance(lo, FloatV) and isinstance(hi, FloatV):
        I.call_obligation(body, t, "clamp min <= max", lo.hi <= hi.lo, "%r %r" % (lo, hi))
        return st, FloatV(max(min(a.lo, hi.lo), lo.lo), min(max(a.hi, lo.hi), hi.hi), a.deps | lo.deps | hi.deps, ("clamp", a.term, lo.term, hi.term))
    return st, Top(deps_of(a) | deps_of(lo) | deps_of(hi), "clamp")


def m_signum(I, st, c, args, body, t):
    a = deref(I, st, args[0])
    if isinstance(a, IntV):
        return st, IntV(a.ty, None, -1 if a.lo < 0 else (0 if a.lo == 0 else 1), 1 if a.hi > 0 else (0 if a.hi == 0 else -1), None, a.deps)
    if isinstance(a, FloatV):
        return st, FloatV(-1.0 if a.lo < 0 else 1.0, 1.0 if a.hi >= 0 else -1.0, a.deps, ("signum", a.term))
    return st, Top(deps_of(a), "signum")


def m_checked_div(I, st, c, args, body, t):
    a, b = deref(I, st, args[0]), deref(I, st, args[1])
    nm = c.get("name")
    op = {"checked_div": "Div", "checked_rem": "Rem", "checked_shl": "Shl", "checked_shr": "Shr"}.get(nm)
    if isinstance(a, IntV) and isinstance(b, IntV) and op:
        d = a.deps | b.deps
        if op in ("Div", "Rem"):
            if b.lo == 0 and b.hi == 0:
                return st, EnumV.none()
            nz = b if not (b.lo <= 0 <= b.hi) else (b.with_range(1, b.hi) if b.lo == 0 else b)
            r = ops.int_binop(op, a, nz, a.ty) if not (nz.lo <= 0 <= nz.hi) else IntV(a.ty, deps=d)
            return st, _opt(r, b.lo <= 0 <= b.hi, d)
        w = INT_TYPES[a.ty][0]
        if 0 <= b.lo and b.hi < w:
            return st, EnumV.some(ops.int_binop(op, a, b, a.ty))
        return st, _opt(IntV(a.ty, deps=d), True, d)
    return st, _opt(Top(deps_of(a) | deps_of(b), nm), True)


def m_wrapping_shift(I, st, c, args, body, t):
    a, b = deref(I, st, args[0]), deref(I, st, args[1])
    nm = c.get("name")
    if isinstance(a, IntV) and isinstance(b, IntV):
        w = INT_TYPES[a.ty][0]
        if 0 <= b.lo and b.hi < w:
            return st, ops.int_binop("Shl" if nm.endswith("shl") else "Shr", a, b, a.ty)
        return st, IntV(a.ty, deps=a.deps | b.deps)
    return st, Top(deps_of(a) | deps_of(b), nm)


def m_unsigned_abs(I, st, c, args, body, t):
    a = deref(I, st, args[0])
    if isinstance(a, IntV):
        lo = 0 if a.lo <= 0 <= a.hi else min(abs(a.lo), abs(a.hi))
        return st, IntV("u" + a.ty[1:], None, lo, max(abs(a.lo), abs(a.hi)), None, a.deps, None, ("abs", M._t(a)))
    return st, Top(deps_of(a), "unsigned_abs")


def m_try_from(I, st, c, args, body, t):
    """<U as TryFrom<T>>::try_from(x) for integers"""
    a = deref(I, st, args[0])
    ga = c.get("generic_args") or []
    to = ga[0] if ga else None
    if isinstance(a, IntV) and to in INT_TYPES:
        lo, hi = ty_range(to)
        v = {}
        if a.lo >= lo and a.hi <= hi:
            v["Ok"] = ((ops.cast_int(a, to),), {})
        else:
            if a.hi >= lo and a.lo <= hi:
                v["Ok"] = ((ops.cast_int(a.with_range(max(a.lo, lo), min(a.hi, hi)), to),), {"deps": a.deps})
            v["Err"] = ((OpaqueV("TryFromIntError"),), {"deps": a.deps})
        return st, EnumV(RES, v)
    return st, EnumV(RES, {"Ok": ((Top(deps_of(a), "try_from"),), {}), "Err": ((OpaqueV("TryFromIntError"),), {})})


def m_parse_result(I, st, c, args, body, t):
    d = frozenset()
    for a in args:
        v = deref(I, st, a)
        d |= deps_of(v)
        if isinstance(v, StrV) and v.skind == "line":
            I.warn("line-use", "%s() on the input line" % c.get("name"))
    ga = c.get("generic_args") or []
    ty = next((g for g in ga if g in INT_TYPES), None)
    ok = IntV(ty, deps=d) if ty else Top(d, "parsed value")
    return st, EnumV(RES, {"Ok": ((ok,), {"deps": d}), "Err": ((OpaqueV("ParseError"),), {"deps": d})})


# --------------------------------------------------------------------------- floats

def _float_any(name, lo=-math.inf, hi=math.inf):
    def m(I, st, c, args, body, t):
        d = frozenset()
        terms = []
        for a in args:
            v = deref(I, st, a)
            d |= deps_of(v)
            terms.append(getattr(v, "term", None))
        return st, FloatV(lo, hi, d, (name,) + tuple(terms))
    return m


def m_to_radians(I, st, c, args, body, t):
    a = deref(I, st, args[0])
    if isinstance(a, FloatV):
        k = math.pi / 180.0
        return st, FloatV(a.lo * k if math.isfinite(a.lo) else a.lo, a.hi * k if math.isfinite(a.hi) else a.hi, a.deps, ("to_radians", a.term))
    return st, FloatV(deps=deps_of(a))


def m_float_pred(I, st, c, args, body, t):
    a = deref(I, st, args[0])
    return st, BoolV(None, None, deps_of(a))


def m_float_from_int(I, st, c, args, body, t):
    a = deref(I, st, args[0])
    if isinstance(a, IntV):
        return st, ops.int_to_float(a)
    if isinstance(a, FloatV):
        return st, a
    return st, FloatV(deps=deps_of(a))


def m_hypot(I, st, c, args, body, t):
    a, b = deref(I, st, args[0]), deref(I, st, args[1])
    if isinstance(a, FloatV) and isinstance(b, FloatV) and all(math.isfinite(x) for x in (a.lo, a.hi, b.lo, b.hi)):
        def mn(v):
            return 0.0 if v.lo <= 0 <= v.hi else min(abs(v.lo), abs(v.hi))
        def mx(v):
            return max(abs(v.lo), abs(v.hi))
        return st, FloatV(math.hypot(mn(a), mn(b)) * (1 - 1e-15), math.hypot(mx(a), mx(b)) * (1 + 1e-15), a.deps | b.deps, ("hypot", a.term, b.term))
    return st, FloatV(0.0, math.inf, deps_of(a) | deps_of(b), ("hypot",))


# --------------------------------------------------------------------------- Option / Result combinators

def _cases(I, st, o):
    o = deref(I, st, o)
    if isinstance(o, EnumV):
        return o
    return None


def _some_name(e):
    return "Some" if e.adt == OPT else "Ok"


def _none_name(e):
    return "None" if e.adt == OPT else "Err"


def m_map_or(I, st, c, args, body, t):
    """Option::map_or(default, f) / Result::map_or / map_or_else(default_fn, f)"""
    o = _cases(I, st, args[0])
    nm = c.get("name")
    if o is None:
        o = opt_cases(I, st, args[0])
    out = []
    sn, nn = _some_name(o), _none_name(o)
    multi = len(o.variants) > 1
    if o.may(sn):
        s1 = st.copy()
        if I.install_guard(s1, o.variants[sn][1], narrowed=multi):
            try:
                s1, r = I.call_value(s1, args[2], [I.resolve(s1, o.payload(sn))])
                out.append((s1, r))
            except Diverge:
                pass
    if o.may(nn):
        s2 = st.copy()
        if I.install_guard(s2, o.variants[nn][1], narrowed=multi):
            try:
                if nm == "map_or":
                    out.append((s2, args[1]))
                else:
                    pl = o.variants[nn][0]
                    s2, r = I.call_value(s2, args[1], list(pl) if (o.adt == RES and pl) else [])
                    out.append((s2, r))
            except Diverge:
                pass
    stj, v = M.join_results(I, out)
    if multi:
        gd = frozenset(o.variants[sn][1].get("deps", ())) | frozenset(o.variants[nn][1].get("deps", ())) if o.may(sn) and o.may(nn) else frozenset()
        if gd and isinstance(v, IntV):
            v = IntV(v.ty, v.bits, v.lo, v.hi, v.aff, v.deps | gd, v.sid, v.term, v.vset)
        elif gd and isinstance(v, BoolV):
            v = BoolV(v.val, v.origin, v.deps | gd, v.term)
    return stj, v


def m_ok_or(I, st, c, args, body, t):
    o = opt_cases(I, st, args[0])
    v = {}
    if o.may("Some"):
        v["Ok"] = o.variants["Some"]
    if o.may("None"):
        if c.get("name") == "ok_or":
            v["Err"] = ((args[1],), o.variants["None"][1])
        else:
            st, e = I.call_value(st, args[1], [])
            v["Err"] = ((e,), o.variants["None"][1])
    return st, EnumV(RES, v)


def m_res_ok_err(I, st, c, args, body, t):
    o = _cases(I, st, args[0])
    if o is None:
        return st, _opt(Top(deps_of(deref(I, st, args[0])), c.get("name")), True)
    v = {}
    keep, drop = ("Ok", "Err") if c.get("name") == "ok" else ("Err", "Ok")
    if o.may(keep):
        v["Some"] = o.variants[keep]
    if o.may(drop):
        v["None"] = ((), o.variants[drop][1])
    return st, EnumV(OPT, v)


def m_map_err(I, st, c, args, body, t):
    o = _cases(I, st, args[0])
    if o is None:
        return st, EnumV(RES, {"Ok": ((Top(why="map_err"),), {}), "Err": ((Top(why="map_err"),), {})})
    v = {}
    if o.may("Ok"):
        v["Ok"] = o.variants["Ok"]
    if o.may("Err"):
        s2 = st.copy() if o.may("Ok") else st
        s2, e = I.call_value(s2, args[1], [o.payload("Err")])
        if s2 is not st:
            st, _ = I.join_states(st, s2)
        v["Err"] = ((e,), o.variants["Err"][1])
    return st, EnumV(RES, v)


def m_unwrap_or_default(I, st, c, args, body, t):
    o = _cases(I, st, args[0])
    if o is None:
        return st, Top(deps_of(deref(I, st, args[0])), "unwrap_or_default")
    sn, nn = _some_name(o), _none_name(o)
    if o.only(sn):
        return st, o.payload(sn)
    ga = c.get("generic_args") or []
    ty = ga[0] if ga else None
    dflt = None
    if ty in INT_TYPES:
        dflt = IntV.const(ty, 0)
    elif ty in ("f64", "f32"):
        dflt = FloatV(0.0, 0.0, ty=ty)
    elif ty == "bool":
        dflt = BoolV(False)
    elif ty and ty.endswith("String"):
        dflt = StrV("lit", text="")
    elif ty and "Vec<" in ty:
        dflt = VecV([])
    if dflt is None:
        if o.may(sn):
            p = o.payload(sn)
            if isinstance(p, IntV):
                dflt = IntV.const(p.ty, 0)
            elif isinstance(p, FloatV):
                dflt = FloatV(0.0, 0.0, ty=p.ty)
        if dflt is None:
            dflt = Top(frozenset(), "Default::default()")
    if o.only(nn):
        return st, dflt
    gd = frozenset(o.variants[sn][1].get("deps", ())) | frozenset(o.variants[nn][1].get("deps", ()))
    r = join(o.payload(sn), dflt)
    if gd and isinstance(r, IntV):
        r = IntV(r.ty, None, r.lo, r.hi, None, r.deps | gd)
    elif gd and isinstance(r, FloatV):
        r = FloatV(r.lo, r.hi, r.deps | gd, None, r.ty)
    return st, r


def m_opt_and(I, st, c, args, body, t):
    """Option::and(b) / xor / zip"""
    a = opt_cases(I, st, args[0])
    b = opt_cases(I, st, args[1])
    nm = c.get("name")
    if nm == "and":
        if a.only("None"):
            return st, EnumV.none()
        if a.only("Some"):
            return st, b
        v = dict(b.variants)
        v.setdefault("None", ((), {}))
        return st, EnumV(OPT, v)
    if nm == "zip":
        if a.only("None") or b.only("None"):
            return st, EnumV.none()
        both = a.only("Some") and b.only("Some")
        return st, _opt(TupleV([a.payload("Some"), b.payload("Some")]), not both)
    pl = None
    for x in (a, b):
        if x.may("Some"):
            pl = x.payload("Some") if pl is None else join(pl, x.payload("Some"))
    return st, _opt(pl, True)


def m_opt_unzip(I, st, c, args, body, t):
    """Option<(A, B)>::unzip -> (Option<A>, Option<B>): both halves are Some exactly when the pair is (same guards)"""
    o = opt_cases(I, st, args[0])
    outs = []
    for i in range(2):
        v = {}
        if o.may("None"):
            v["None"] = ((), o.variants["None"][1])
        if o.may("Some"):
            pl = o.payload("Some")
            item = pl.items[i] if isinstance(pl, TupleV) and len(pl.items) == 2 else Top(deps_of(pl), "half of an unknown pair")
            v["Some"] = ((item,), o.variants["Some"][1])
        outs.append(EnumV(OPT, v))
    return st, TupleV(outs)


def _split_top(s):
    out, depth, cur = [], 0, ""
    for ch in s:
        if ch in "<([":
            depth += 1
        elif ch in ">)]":
            depth -= 1
        if ch == "," and depth == 0:
            out.append(cur.strip())
            cur = ""
        else:
            cur += ch
    if cur.strip():
        out.append(cur.strip())
    return out


def _default_of(ty):
    """`<ty as Default>::default()` for the std types whose default is a plain value (None if not one of them)"""
    ty = ty.strip()
    if ty in INT_TYPES and ty not in ("bool", "char"):
        return IntV.const(ty, 0)
    if ty == "bool":
        return BoolV(False)
    if ty == "char":
        return IntV.const("char", 0)
    if ty in ("f64", "f32"):
        return FloatV(0.0, 0.0, ty=ty)
    if ty == "()":
        return UNIT
    if ty.startswith("std::option::Option<"):
        return EnumV.none()
    if ty in ("std::string::String", "&str", "&'static str"):
        return StrV("lit", text="")
    if ty.startswith("std::vec::Vec<"):
        return VecV([])
    if ty.startswith("(") and ty.endswith(")"):
        items = [_default_of(x) for x in _split_top(ty[1:-1])]
        return None if any(x is None for x in items) else TupleV(items)
    return None


def m_default(I, st, c, args, body, t):
    return st, _default_of((c.get("generic_args") or ["?"])[0])


def m_to_bytes(I, st, c, args, body, t):
    """uN::to_be_bytes / to_le_bytes / to_ne_bytes (little-endian target): the value's bits cut into bytes, bit-exact"""
    a = deref(I, st, args[0])
    nm = c.get("name")
    if not isinstance(a, IntV) or a.ty not in INT_TYPES:
        return st, Top(deps_of(a), nm)
    w = INT_TYPES[a.ty][0]
    nb = w // 8
    out = []
    for k in range(nb):                 # k = byte number, least significant first
        if a.is_const():
            v = (a.lo >> (8 * k)) & 0xFF
            out.append(IntV.const("u8", v))
        elif a.bits is not None:
            out.append(IntV("u8", tuple(a.bits[8 * k:8 * k + 8]), None, None, None, a.deps))
        else:
            out.append(IntV("u8", None, 0, 255, None, a.deps))
    if nm == "to_be_bytes":
        out.reverse()
    return st, VecV(out, elem_ty="u8")


def m_from_bytes(I, st, c, args, body, t):
    """uN::from_be_bytes / from_le_bytes / from_ne_bytes"""
    v = deref(I, st, args[0])
    nm = c.get("name")
    ty = None
    for part in (c.get("instance") or c.get("path") or "").split("<impl "):
        cand = part.split(">")[0].strip()
        if cand in INT_TYPES:
            ty = cand
    if ty is None or not (isinstance(v, VecV) and v.elems is not None and len(v.elems) * 8 == INT_TYPES[ty][0]
                          and all(isinstance(e, IntV) for e in v.elems)):
        return st, Top(deps_of(v), nm)
    el = list(v.elems)
    if nm == "from_be_bytes":
        el.reverse()                    # now least significant byte first
    if all(e.is_const() for e in el):
        n = 0
        for k, e in enumerate(el):
            n |= (e.lo & 0xFF) << (8 * k)
        w, signed = INT_TYPES[ty]
        if signed and n >> (w - 1):
            n -= 1 << w
        return st, IntV.const(ty, n)
    bits = []
    d = frozenset()
    for e in el:
        d |= e.deps
        if e.is_const():
            bits.extend(((e.lo >> i) & 1) for i in range(8))
        elif e.bits is not None:
            bits.extend(e.bits[:8])
        else:
            bits.extend([M.TBIT] * 8)
    return st, IntV(ty, tuple(bits), None, None, None, d)


def m_is_none_or(I, st, c, args, body, t):
    """Option::is_none_or(pred): true for None, pred(x) for Some(x)"""
    o = opt_cases(I, st, args[0])
    if o.only("None"):
        return st, BoolV(True)
    s1 = st.copy()
    multi = len(o.variants) > 1
    if not I.install_guard(s1, o.variants["Some"][1], narrowed=multi):
        return st, BoolV(True)
    s1, r = I.call_value(s1, args[1], [I.resolve(s1, o.payload("Some"))])
    if not isinstance(r, BoolV):
        r = BoolV(None, None, deps_of(r))
    if o.only("Some"):
        return s1, r
    st2, _ = I.join_states(st.copy(), s1)
    if r.val is True:
        return st2, BoolV(True)
    return st2, BoolV(None, None, r.deps | deps_of(o))


def m_or_else(I, st, c, args, body, t):
    o = opt_cases(I, st, args[0])
    if o.only("Some"):
        return st, o
    out = []
    multi = len(o.variants) > 1
    if o.may("Some"):
        s1 = st.copy()
        if I.install_guard(s1, o.variants["Some"][1], narrowed=multi):
            out.append((s1, EnumV(OPT, {"Some": o.variants["Some"]})))
    s2 = st.copy()
    if I.install_guard(s2, o.variants["None"][1], narrowed=multi):
        try:
            s2, r = I.call_value(s2, args[1], [])
            out.append((s2, opt_cases(I, s2, r)))
        except Diverge:
            pass
    return M.join_results(I, out)


def m_opt_take(I, st, c, args, body, t):
    a = args[0]
    o = deref(I, st, a)
    if isinstance(a, RefV):
        _store(I, st, a, EnumV.none(), t)
    return st, o if isinstance(o, EnumV) else opt_cases(I, st, o)


def m_opt_replace(I, st, c, args, body, t):
    a = args[0]
    o = deref(I, st, a)
    if isinstance(a, RefV):
        _store(I, st, a, EnumV.some(args[1]), t)
    if c.get("name") == "insert":
        return st, RefV(a.cell, a.proj + (("downcast", "Some"), ("field", 0)), True) if isinstance(a, RefV) else Top(why="insert")
    return st, o if isinstance(o, EnumV) else opt_cases(I, st, o)


def m_get_or_insert(I, st, c, args, body, t):
    """Option::get_or_insert(v) / get_or_insert_with(f): writes only when the option is None; -> &mut payload"""
    a = args[0]
    o = opt_cases(I, st, a)
    nm = c.get("name")
    if not isinstance(a, RefV):
        return st, Top(why=nm)
    ret = RefV(a.cell, a.proj + (("variant", "Some"), ("field", 0)), True)
    if not o.may("None"):
        return st, ret
    out = []
    if o.may("Some"):
        out.append((st.copy(), o.payload("Some")))
    s1 = st.copy()
    try:
        if nm == "get_or_insert":
            nv = args[1]
        else:
            s1, nv = I.call_value(s1, args[1], [])
        out.append((s1, nv))
    except Diverge:
        pass
    st2, j = M.join_results(I, out)
    if o.may("Some"):
        gd = frozenset(o.variants["Some"][1].get("deps", ())) | frozenset(o.variants["None"][1].get("deps", ())) | deps_of(o.payload("Some"))
        if isinstance(j, IntV):
            j = IntV(j.ty, j.bits, j.lo, j.hi, j.aff, j.deps | gd, None, None, j.vset)
        elif isinstance(j, StrV):
            j = StrV("opaque", deps=deps_of(j) | gd)
    _store(I, st2, a, EnumV.some(j), t)
    return st2, ret


def m_opt_copied(I, st, c, args, body, t):
    o = opt_cases(I, st, args[0])
    v = {}
    for k, (pl, g) in o.variants.items():
        v[k] = (tuple(deref(I, st, x) for x in pl), g)
    return st, EnumV(o.adt, v)


def m_opt_flatten(I, st, c, args, body, t):
    o = opt_cases(I, st, args[0])
    if o.only("None"):
        return st, o
    inner = opt_cases(I, st, o.payload("Some"))
    if o.only("Some"):
        return st, inner
    v = dict(inner.variants)
    v.setdefault("None", ((), {}))
    return st, EnumV(OPT, v)


def m_bool_then(I, st, c, args, body, t):
    """bool::then(f) / then_some(v): Some under the facts of `b == true`, None under `b == false`"""
    b = deref(I, st, args[0])
    nm = c.get("name")
    if not isinstance(b, BoolV):
        b = BoolV(None, None, deps_of(b))
    if b.val is None and body is not None and body.name.endswith("get_message") and "gate_preds" in I.side:
        x = b
        while x.origin and x.origin[0] == "not" and isinstance(x.origin[1], BoolV):
            x = x.origin[1]
        I.side["gate_preds"].append(x)
    if b.val is False:
        return st, EnumV.none()
    out = {}
    # Some side
    s1 = st.copy()
    if I.refine(s1, b, True):
        I.note_atoms(s1, b, True)          # the Some side is under the condition: its atoms go into the variant's guard
        if nm == "then_some":
            r = args[1]
        else:
            s1, r = I.call_value(s1, args[1], [])
        g = M.guard_from(I, st, s1, {"deps": b.deps} if b.val is None else None)
        if b.val is None and b.bit is not None and b.bit != M.TBIT and not M.bit_is_const(b.bit):
            g = dict(g)
            g["bit"] = b.bit            # Some exactly when this (truth-table / frame) bit is 1: kept for guarded consumers
        out["Some"] = ((I.resolve(s1, r) if isinstance(r, (IntV, BoolV)) else r,), g)
    if b.val is True:
        return (s1, EnumV(OPT, out)) if out else (st, EnumV.none())
    s0 = st.copy()
    if I.refine(s0, b, False):
        I.note_atoms(s0, b, False)
        out["None"] = ((), M.guard_from(I, st, s0, {"deps": b.deps}))
    if nm != "then_some" and "Some" in out:
        st, _ = I.join_states(st, s1)
    return st, EnumV(OPT, out)


def m_is_ok_and(I, st, c, args, body, t):
    return M.m_is_some_and(I, st, c, args, body, t)


def m_mem_take(I, st, c, args, body, t):
    a = args[0]
    v = deref(I, st, a)
    if isinstance(a, RefV):
        d = None
        if isinstance(v, VecV):
            d = VecV([], elem_ty=v.elem_ty)
        elif isinstance(v, StrV):
            d = StrV("lit", text="")
        elif isinstance(v, IntV):
            d = IntV.const(v.ty, 0)
        elif isinstance(v, EnumV) and v.adt == OPT:
            d = EnumV.none()
        elif isinstance(v, BoolV):
            d = BoolV(False)
        elif isinstance(v, FloatV):
            d = FloatV(0.0, 0.0, ty=v.ty)
        _store(I, st, a, d if d is not None else Top(why="Default::default()"), t)
    return st, v


def m_mem_replace(I, st, c, args, body, t):
    a = args[0]
    v = deref(I, st, a)
    if isinstance(a, RefV):
        _store(I, st, a, args[1], t)
    return st, v


def m_tuple_cmp(I, st, c, args, body, t):
    """lexicographic lt/le/gt/ge of tuples of integers (derived PartialOrd)"""
    a, b = deref(I, st, args[0]), deref(I, st, args[1])
    nm = c.get("name")
    if not (isinstance(a, TupleV) and isinstance(b, TupleV) and len(a.items) == len(b.items)):
        return st, BoolV(None, None, deps_of(a) | deps_of(b))
    strict = {"lt": "Lt", "le": "Lt", "gt": "Gt", "ge": "Gt"}[nm]
    deps = frozenset()
    for i, (x, y) in enumerate(zip(a.items, b.items)):
        x, y = deref(I, st, x), deref(I, st, y)
        if not (isinstance(x, IntV) and isinstance(y, IntV)):
            return st, BoolV(None, None, deps_of(a) | deps_of(b))
        deps |= x.deps | y.deps
        s_ = ops.compare(strict, x, y)
        if s_.val is True:
            return st, BoolV(True) if not deps - (x.deps | y.deps) or i == 0 else BoolV(True)
        e_ = ops.compare("Eq", x, y)
        if s_.val is False and e_.val is False:
            return st, BoolV(False)
        if e_.val is True:
            continue
        # undecided at this component
        if i == len(a.items) - 1 and e_.val is not True:
            last = ops.compare({"lt": "Lt", "le": "Le", "gt": "Gt", "ge": "Ge"}[nm], x, y)
            if all(ops.compare("Eq", deref(I, st, p), deref(I, st, q)).val is True for p, q in list(zip(a.items, b.items))[:i]):
                return st, last
        return st, BoolV(None, None, deps)
    # all components equal
    return st, BoolV(nm in ("le", "ge"))


def m_vec_drain(I, st, c, args, body, t):
    """Vec::drain(range): removes the range from the vector, yields the removed elements"""
    a = args[0]
    v = _vec_of(I, st, a)
    r = deref(I, st, args[1])
    lo = hi = None
    n = len(v.elems) if v is not None and v.elems is not None else None
    if isinstance(r, StructV):
        s_, e_ = r.get("start"), r.get("end")
        lo = 0 if s_ is None else _const(s_)
        if e_ is None:
            hi = n
        else:
            hi = _const(e_)
            if hi is not None and "Inclusive" in r.adt:
                hi += 1
    elif isinstance(r, TupleV) and not r.items:
        lo, hi = 0, n           # RangeFull
    ok = n is not None and lo is not None and hi is not None and 0 <= lo <= hi <= n
    I.call_obligation(body, t, "drain range in bounds", bool(ok), "range %r on %r" % (r, v))
    if ok and isinstance(a, RefV):
        removed = list(v.elems[lo:hi])
        _store(I, st, a, VecV(v.elems[:lo] + v.elems[hi:], elem_ty=v.elem_ty), t)
        return st, IterV(removed)
    if n is not None and lo is not None and hi is not None:
        raise Diverge("drain")
    if isinstance(a, RefV) and v is not None:
        I.set_path(st, a.cell, a.proj, VecV(None, IntV("usize"), M._summary(v)))
    return st, IterV(None, unknown=True, deps=deps_of(v), end=M._summary(v) if v is not None else Top(why="drain"))


def m_ordering_reverse(I, st, c, args, body, t):
    o = deref(I, st, args[0])
    if isinstance(o, EnumV):
        sw = {"Less": "Greater", "Greater": "Less", "Equal": "Equal"}
        return st, EnumV(o.adt, {sw.get(k, k): v for k, v in o.variants.items()})
    return st, EnumV("std::cmp::Ordering", {"Less": ((), {}), "Equal": ((), {}), "Greater": ((), {})})


def m_array_map(I, st, c, args, body, t):
    """[T; N]::map(f)"""
    v = deref(I, st, args[0])
    if isinstance(v, VecV) and v.elems is not None:
        out = []
        for e in v.elems:
            st, r = I.call_value(st, args[1], [e])
            out.append(r)
        return st, VecV(out)
    s_ = M._summary(v) if isinstance(v, VecV) else Top(deps_of(v), "array elem")
    try:
        st, r = I.call_value(st, args[1], [s_])
    except Diverge:
        r = Top(deps_of(v), "array::map")
    return st, VecV(None, v.length if isinstance(v, VecV) else IntV("usize"), r)


def m_flat_map(I, st, c, args, body, t):
    """flat_map(f) / flatten(): materialise the outer sequence and concatenate the inner ones"""
    it = M.to_iter(I, st, args[0])
    st, vals, j = materialize(I, st, it)
    if vals is None:
        return st, IterV(None, unknown=True, deps=it.deps, end=Top(it.deps, "flat_map item"))
    out = []
    for e in vals:
        if c.get("name") == "flat_map":
            st, inner = I.call_value(st, args[1], [e])
        else:
            inner = e
        iv = M.to_iter(I, st, inner) if not isinstance(inner, EnumV) else None
        if isinstance(inner, EnumV):
            oc = opt_cases(I, st, inner)
            if oc.only("Some"):
                out.append(oc.payload("Some"))
                continue
            if oc.only("None"):
                continue
            return st, IterV(None, unknown=True, deps=it.deps, end=oc.payload("Some"))
        st, ivals, ij = materialize(I, st, iv)
        if ivals is None:
            jj = ij
            for x in out:
                jj = x if jj is None else join(jj, x)
            return st, IterV(None, unknown=True, deps=it.deps | iv.deps, end=jj if jj is not None else Top(why="flat_map"))
        out.extend(ivals)
    return st, IterV(out)


def m_opaque_cmp(I, st, c, args, body, t):
    """PartialOrd / Ord comparisons of opaque values (durations, time stamps, strings): no panic, result unknown"""
    a, b = deref(I, st, args[0]), deref(I, st, args[1])
    nm = c.get("name")
    ta, tb = getattr(a, "term", None), getattr(b, "term", None)
    if nm in ("lt", "le", "gt", "ge"):
        return st, BoolV(None, None, deps_of(a) | deps_of(b), (nm.capitalize(), ta, tb))
    if nm in ("cmp", "partial_cmp", "total_cmp"):
        ordv = EnumV("std::cmp::Ordering", {"Less": ((), {}), "Equal": ((), {}), "Greater": ((), {})})
        if isinstance(a, IntV) and isinstance(b, IntV) and a.is_const() and b.is_const():
            ordv = EnumV("std::cmp::Ordering", {("Less" if a.lo < b.lo else "Equal" if a.lo == b.lo else "Greater"): ((), {})})
        return st, (EnumV.some(ordv) if nm == "partial_cmp" else ordv)
    return st, Top(deps_of(a) | deps_of(b), nm)


def m_hm_readonly(I, st, c, args, body, t):
    """read-only queries on the aircraft table (len / is_empty / contains_key / get / values / keys / iter): no panic, no effect;
    a row handed out is the symbolic row of the context"""
    nm = c.get("name")
    d = frozenset([("table",)])
    row_cell = I.side.get("row_cell")
    if nm in ("len", "capacity"):
        return st, IntV("usize", None, 0, 1 << 40, None, d)
    mode = I.side.get("table_mode")
    if nm == "contains_key" and mode in ("present", "absent"):
        I.side["entry_style"] = "match"
        return st, BoolV(mode == "present")
    if nm in ("is_empty", "contains_key"):
        if nm == "contains_key":
            I.side["entry_style"] = "match"
        return st, BoolV(None, None, d)
    if nm in ("get", "get_mut", "get_key_value"):
        tgt = RefV(row_cell, (), nm == "get_mut") if row_cell is not None else Top(d, "row")
        if nm == "get_mut":
            I.side["entry_style"] = "match"
        if mode == "present":
            return st, EnumV.some(tgt)
        if mode == "absent":
            return st, EnumV.none()
        return st, _opt(tgt, True, d)
    if nm in ("values", "values_mut", "iter", "iter_mut", "keys"):
        if nm == "keys":
            item = RefV(I.new_cell(st, IntV("u32", None, 1, (1 << 24) - 1, None, d)))
        elif nm.startswith("values"):
            item = RefV(row_cell, (), nm.endswith("mut")) if row_cell is not None else Top(d, "row")
        else:
            k = RefV(I.new_cell(st, IntV("u32", None, 1, (1 << 24) - 1, None, d)))
            item = TupleV([k, RefV(row_cell, (), nm.endswith("mut")) if row_cell is not None else Top(d, "row")])
        return st, IterV(None, unknown=True, deps=d, end=item)
    return st, Top(d, nm)


def m_noop(I, st, c, args, body, t):
    return st, UNIT


def m_identity(I, st, c, args, body, t):
    return st, args[0]


# --------------------------------------------------------------------------- registration

def install(models):
    E = models.exact
    it = "std::iter::Iterator::"
    for nm, f in (("rev", m_rev), ("skip", m_skip_take), ("take", m_skip_take), ("step_by", m_step_by), ("zip", m_zip), ("chain", m_chain),
                  ("take_while", m_take_skip_while), ("skip_while", m_take_skip_while),
                  ("sum", m_sum), ("product", m_sum), ("count", m_count), ("position", m_position), ("find", m_find),
                  ("find_map", m_find_map), ("last", m_last), ("nth", m_nth), ("for_each", m_for_each), ("try_for_each", m_try_for_each),
                  ("max_by_key", m_minmax_by_key), ("min_by_key", m_minmax_by_key)):
        E[it + nm] = f
    E["std::iter::DoubleEndedIterator::rposition"] = m_position   # (not reversed: conservative Some-range is computed the same way)
    sl = "core::slice::<impl [T]>::"
    for nm, f in (("first", m_first_last), ("last", m_first_last), ("get", m_slice_get), ("is_empty", m_is_empty),
                  ("chunks", m_slice_chunks), ("chunks_exact", m_slice_chunks), ("windows", m_slice_chunks),
                  ("as_chunks", m_as_chunks), ("as_rchunks", m_as_chunks),
                  ("sort_unstable", m_slice_sort), ("sort_unstable_by", m_slice_sort), ("sort_unstable_by_key", m_slice_sort),
                  ("rotate_left", m_slice_sort), ("rotate_right", m_slice_sort),
                  ("split_at", m_split_at), ("reverse", m_slice_reverse), ("starts_with", m_starts_ends_with),
                  ("ends_with", m_starts_ends_with), ("to_owned", M.m_to_vec)):
        E[sl + nm] = f
    E["std::slice::<impl [T]>::to_vec"] = M.m_to_vec
    vv = "std::vec::Vec::<T, A>::"
    for nm, f in (("is_empty", m_is_empty), ("extend_from_slice", m_vec_extend), ("clear", m_vec_clear), ("truncate", m_vec_truncate),
                  ("pop", m_vec_pop), ("split_off", m_split_off), ("remove", m_vec_remove_insert), ("insert", m_vec_remove_insert),
                  ("swap_remove", m_vec_remove_insert), ("drain", m_vec_drain), ("reserve", m_noop), ("shrink_to_fit", m_noop), ("as_slice", M.m_identity_ref),
                  ("as_mut_slice", M.m_identity_ref)):
        E[vv + nm] = f
    E["std::vec::Vec::<T>::with_capacity"] = m_with_capacity
    E["std::string::String::with_capacity"] = m_with_capacity
    E["std::iter::Extend::extend"] = m_vec_extend
    ss = "core::str::<impl str>::"
    for nm in ("trim", "trim_start", "trim_end", "trim_matches", "trim_start_matches", "trim_end_matches"):
        E[ss + nm] = m_str_decoration
    for nm in ("to_uppercase", "to_lowercase", "to_ascii_uppercase", "to_ascii_lowercase", "replace", "replacen", "to_owned", "into_string"):
        E["std::str::<impl str>::" + nm] = m_str_decoration
        E["alloc::str::<impl str>::" + nm] = m_str_decoration
        E[ss + nm] = m_str_decoration
    for nm in ("strip_prefix", "strip_suffix"):
        E[ss + nm] = m_strip_prefix
    for nm in ("starts_with", "ends_with"):
        E[ss + nm] = m_starts_ends_with
    E[ss + "is_empty"] = m_is_empty
    E["std::string::String::is_empty"] = m_is_empty
    E["std::string::String::len"] = M.m_vec_len
    E["std::string::String::as_str"] = m_str_decoration
    E["std::string::String::push"] = m_string_push
    E["std::string::String::push_str"] = m_string_push
    E["std::string::String::clear"] = m_vec_clear
    E["<str as std::borrow::ToOwned>::to_owned"] = m_str_decoration
    E["<std::string::String as std::convert::From<&str>>::from"] = m_str_decoration
    ch = "std::char::methods::<impl char>::"
    for nm in ("is_ascii_hexdigit", "is_digit", "is_whitespace", "is_ascii_whitespace", "is_ascii_digit", "is_alphabetic", "is_ascii_alphabetic",
               "is_alphanumeric", "is_ascii_alphanumeric", "is_ascii", "is_ascii_uppercase", "is_ascii_lowercase", "is_numeric",
               "is_uppercase", "is_lowercase", "is_ascii_punctuation", "is_control", "is_ascii_control", "is_ascii_graphic"):
        E[ch + nm] = m_char_class
    for nm in ("to_ascii_uppercase", "to_ascii_lowercase"):
        E[ch + nm] = m_char_case
    for fl in ("std::f64::<impl f64>::", "core::f64::<impl f64>::", "std::f32::<impl f32>::", "core::f32::<impl f32>::"):
        E[fl + "to_radians"] = m_to_radians
        E[fl + "hypot"] = m_hypot
        E[fl + "clamp"] = m_clamp
        E[fl + "signum"] = m_signum
        E[fl + "rem_euclid"] = m_euclid
        E[fl + "div_euclid"] = m_euclid
        for nm, lo, hi in (("tan", -math.inf, math.inf), ("asin", -1.5707963267948968, 1.5707963267948968), ("acos", 0.0, 3.1415926535897936),
                           ("atan", -1.5707963267948968, 1.5707963267948968), ("powf", -math.inf, math.inf), ("exp", 0.0, math.inf),
                           ("ln", -math.inf, math.inf), ("log10", -math.inf, math.inf), ("log2", -math.inf, math.inf),
                           ("fract", -1.0, 1.0), ("mul_add", -math.inf, math.inf), ("copysign", -math.inf, math.inf),
                           ("recip", -math.inf, math.inf), ("cbrt", -math.inf, math.inf), ("sinh", -math.inf, math.inf),
                           ("cosh", 1.0, math.inf), ("tanh", -1.0, 1.0), ("exp2", 0.0, math.inf), ("log", -math.inf, math.inf)):
            E.setdefault(fl + nm, _float_any(nm, lo, hi))
        for nm in ("is_nan", "is_finite", "is_infinite", "is_sign_negative", "is_sign_positive", "is_normal"):
            E[fl + nm] = m_float_pred
    o = "std::option::Option::<T>::"
    r = "std::result::Result::<T, E>::"
    for pre in (o, r):
        E[pre + "map_or"] = m_map_or
        E[pre + "map_or_else"] = m_map_or
        E[pre + "unwrap_or_default"] = m_unwrap_or_default
        E[pre + "copied"] = m_opt_copied
        E[pre + "cloned"] = m_opt_copied
    E[o + "ok_or"] = m_ok_or
    E[o + "ok_or_else"] = m_ok_or
    E[o + "and"] = m_opt_and
    E[o + "xor"] = m_opt_and
    E[o + "zip"] = m_opt_and
    E["std::option::Option::<(T, U)>::unzip"] = m_opt_unzip
    E[o + "or_else"] = m_or_else
    E[o + "take"] = m_opt_take
    E[o + "replace"] = m_opt_replace
    E[o + "insert"] = m_opt_replace
    E[o + "get_or_insert"] = m_get_or_insert
    E[o + "get_or_insert_with"] = m_get_or_insert
    E[o + "flatten"] = m_opt_flatten
    E["std::option::Option::<std::option::Option<T>>::flatten"] = m_opt_flatten
    E[o + "is_none_or"] = m_is_none_or
    E[o + "as_mut"] = M.m_as_ref
    E[o + "as_deref"] = M.m_as_ref
    E[r + "ok"] = m_res_ok_err
    E[r + "err"] = m_res_ok_err
    E[r + "map_err"] = m_map_err
    E[r + "and_then"] = M.m_option_and_then
    E[r + "is_ok_and"] = m_is_ok_and
    E[r + "as_ref"] = M.m_as_ref
    E["core::bool::<impl bool>::then"] = m_bool_then
    E["core::bool::<impl bool>::then_some"] = m_bool_then
    E["std::cmp::Ordering::reverse"] = m_ordering_reverse
    E["std::array::<impl [T; N]>::map"] = m_array_map
    E["core::array::<impl [T; N]>::map"] = m_array_map
    E["std::iter::Iterator::flat_map"] = m_flat_map
    E["std::iter::Iterator::flatten"] = m_flat_map
    for nm_ in ("sort", "sort_by", "sort_by_key", "sort_by_cached_key"):
        E["std::slice::<impl [T]>::" + nm_] = m_slice_sort
        E["alloc::slice::<impl [T]>::" + nm_] = m_slice_sort
    E["std::mem::take"] = m_mem_take
    E["std::mem::replace"] = m_mem_replace
    E["std::mem::drop"] = m_noop
    E["std::convert::identity"] = m_identity
    E["core::str::<impl str>::parse"] = m_parse_result

    prev = models.lookup_extra if hasattr(models, "lookup_extra") else None

    def extra(callee, name):
        nm = callee.get("name")
        p = callee.get("path") or ""
        if name is None:
            return None
        if "core::num::<impl " in name or "std::num::<impl " in name:
            if nm in ("pow", "checked_pow", "wrapping_pow", "saturating_pow"):
                return m_int_pow
            if nm in ("count_ones", "count_zeros", "leading_zeros", "trailing_zeros", "leading_ones", "trailing_ones"):
                return m_int_bits
            if nm == "is_power_of_two":
                return m_is_power_of_two
            if nm in ("rem_euclid", "div_euclid"):
                return m_euclid
            if nm == "clamp":
                return m_clamp
            if nm == "signum":
                return m_signum
            if nm in ("checked_div", "checked_rem", "checked_shl", "checked_shr"):
                return m_checked_div
            if nm in ("wrapping_shl", "wrapping_shr"):
                return m_wrapping_shift
            if nm == "unsigned_abs":
                return m_unsigned_abs
            if nm == "abs":
                return M.m_int_abs
            if nm == "abs_diff":
                return M.m_abs_diff
            if nm == "from_str_radix":
                return m_parse_result
            if nm in ("to_be_bytes", "to_le_bytes", "to_ne_bytes"):
                return m_to_bytes
            if nm in ("from_be_bytes", "from_le_bytes", "from_ne_bytes"):
                return m_from_bytes
        if name.startswith("std::collections::HashMap::<K, V, S") and nm in (
                "len", "capacity", "is_empty", "contains_key", "get", "get_mut", "get_key_value", "values", "keys", "iter"):
            return m_hm_readonly
        if name.startswith("core::tuple::<impl std::cmp::PartialOrd for (") and nm in ("lt", "le", "gt", "ge"):
            return m_tuple_cmp
        if p == "std::cmp::Ord::clamp":
            return m_clamp
        if nm in ("cmp", "partial_cmp", "total_cmp") and (p in ("std::cmp::Ord::cmp", "std::cmp::PartialOrd::partial_cmp") or "total_cmp" in name):
            return m_opaque_cmp
        if p in ("std::cmp::PartialOrd::lt", "std::cmp::PartialOrd::le", "std::cmp::PartialOrd::gt", "std::cmp::PartialOrd::ge") and (
                "chrono" in name or "time::Duration" in name or "String" in name or "str" in name):
            return m_opaque_cmp
        if p == "std::convert::TryFrom::try_from" and ("convert::num" in name):
            return m_try_from
        if p in ("std::convert::From::from", "std::convert::Into::into") and ("convert::num::float_conv" in name or " for f64>" in name or " for f32>" in name):
            return m_float_from_int
        if p == "std::convert::Into::into" and name == "<T as std::convert::Into<U>>::into":
            ga = callee.get("generic_args") or []
            if len(ga) == 2:
                if ga[0] == ga[1]:
                    return m_into_identity
                if "<%s as std::convert::From<%s>>::from" % (ga[1], ga[0]) in _FACTS_BODIES():
                    return m_into_from
        if p == "std::str::FromStr::from_str" and "core::num" in name:
            return m_parse_result
        if p != "std::convert::From::from" and name.endswith(">::from") and "convert::num" in name:
            # a conversion function passed as a value (`.map(f64::from)`): no callee descriptor, only the instance name
            return m_float_from_int if (" for f64>" in name or " for f32>" in name) else M.m_int_from
        if p == "std::default::Default::default" and not (callee.get("local")):
            ga = callee.get("generic_args") or []
            if ga and _default_of(ga[0]) is not None:
                return m_default
            return None
        return prev(callee, name) if prev else None
    models.lookup_extra = extra


def _FACTS_BODIES():
    from .. import mirq
    return mirq._FACTS.bodies if getattr(mirq, "_FACTS", None) is not None else {}


def m_into_identity(I, st, c, args, body, t):
    return st, args[0]


def m_into_from(I, st, c, args, body, t):
    """the blanket `impl<T, U: From<T>> Into<U> for T` is `U::from(self)`: run the crate's own `From` impl"""
    from .domain import FnV
    ga = c.get("generic_args") or []
    return I.call_value(st, FnV("<%s as std::convert::From<%s>>::from" % (ga[1], ga[0])), [args[0]])


_o_init = M.Models.__init__


def _init(self):
    _o_init(self)
    install(self)


M.Models.__init__ = _init
_o_lookup = M.Models.lookup


def _lookup(self, callee, name):
    r = _o_lookup(self, callee, name)
    if r is None and getattr(self, "lookup_extra", None):
        r = self.lookup_extra(callee, name)
    return r


M.Models.lookup = _lookup


# --------------------------------------------------------------------------- option strings as character sets (C14 R14.7)
# StrV("charset", chars={char: bit}) : a string about which only the presence of a few letters is known, each presence
# being a boolean function (truth-table bit) of the option atoms.  Everything else about the string is arbitrary.

def charset(presence):
    return StrV("charset", chars=dict(presence))


def _cs_of(I, st, v):
    v = deref(I, st, v)
    if isinstance(v, StrV) and v.skind == "charset":
        return v.chars
    if isinstance(v, OpaqueV) and v.ty == "charset":
        return dict(v.term)
    if isinstance(v, VecV) and isinstance(v.summary, OpaqueV) and v.summary.ty == "charset":
        return dict(v.summary.term)
    if isinstance(v, IterV) and isinstance(v.end, OpaqueV) and v.end.ty == "charset" and not v.stages:
        return dict(v.end.term)
    return None


def _cs_opaque(p):
    from .domain import bit_deps
    d = frozenset()
    for b in p.values():
        d |= bit_deps(b)
    return OpaqueV("charset", tuple(sorted(p.items(), key=lambda kv: kv[0])), d)


_o_chars = M.m_chars


def m_chars_cs(I, st, c, args, body, t):
    p = _cs_of(I, st, args[0])
    if p is not None:
        o = _cs_opaque(p)
        return st, IterV(None, unknown=True, deps=o.deps, end=o)
    return _o_chars(I, st, c, args, body, t)


_o_collect = M.m_collect


def m_collect_cs(I, st, c, args, body, t):
    p = _cs_of(I, st, args[0]) if isinstance(args[0], IterV) else None
    if p is not None:
        tys = (body.locals[t["dest"]["local"]]["ty"].get("s", "") if body is not None and t.get("dest") else "")
        if tys.endswith("String") and "Vec" not in tys:
            return st, charset(p)
        o = _cs_opaque(p)
        return st, VecV(None, IntV("usize", deps=o.deps), o)
    return _o_collect(I, st, c, args, body, t)


_o_contains = M.m_contains


def _presence(p, x):
    from .domain import bit_deps, bit_is_const
    if isinstance(x, IntV) and x.is_const():
        ch = chr(x.lo)
        if ch in p:
            b = p[ch]
            if bit_is_const(b):
                return BoolV(bool(b))
            return BoolV(None, None, bit_deps(b), None, b)
        return BoolV(None, None, frozenset([("opt", "other characters")]))
    if isinstance(x, StrV) and x.skind == "lit" and len(x.text) == 1:
        return _presence(p, IntV.const("char", ord(x.text)))
    return BoolV(None, None, frozenset([("opt", "?")]))


def m_contains_cs(I, st, c, args, body, t):
    p = _cs_of(I, st, args[0])
    if p is not None:
        return st, _presence(p, deref(I, st, args[1]))
    s = deref(I, st, args[0])
    if isinstance(s, StrV) and s.skind == "line":
        I.warn("line-use", "contains() on the input line (depends on decoration)")
        return st, BoolV(None, None, frozenset([("decoration",)]))
    if isinstance(s, StrV):
        x = deref(I, st, args[1])
        if s.skind == "lit" and isinstance(x, IntV) and x.is_const():
            return st, BoolV(chr(x.lo) in s.text)
        if s.skind == "lit" and isinstance(x, StrV) and x.skind == "lit":
            return st, BoolV(x.text in s.text)
        return st, BoolV(None, None, deps_of(s) | deps_of(x))
    return _o_contains(I, st, c, args, body, t)


def m_concat_cs(I, st, c, args, body, t):
    from .domain import bit_or
    v = deref(I, st, args[0])
    if isinstance(v, VecV) and v.elems is None and v.summary is not None:
        p = _cs_of(I, st, v.summary)
        if p is not None:
            from .domain import TBIT, bit_is_const
            # any number (possibly zero) of such strings: a letter that may occur in one may occur in the whole
            return st, charset({ch: (b if b == 0 else TBIT) for ch, b in p.items()})
    if isinstance(v, VecV) and v.elems is not None:
        ps = [_cs_of(I, st, e) for e in v.elems]
        if ps and all(p is not None for p in ps):
            out = {}
            for p in ps:
                for ch, b in p.items():
                    out[ch] = bit_or(out.get(ch, 0), b)
            if c.get("name") == "join" and len(args) > 1:
                sep = deref(I, st, args[1])
                if isinstance(sep, StrV) and sep.skind == "lit":
                    if len(ps) > 1:
                        for ch in sep.text:
                            if ch in out:
                                out[ch] = 1
                else:
                    return M.m_str_opaque(I, st, c, args, body, t)
            return st, charset(out)
    return M.m_str_opaque(I, st, c, args, body, t)


_o_all_any = M.m_all_any


def m_all_any_cs(I, st, c, args, body, t):
    from .domain import bit_and, bit_deps, bit_is_const, bit_or, bit_xor
    it = args[0] if isinstance(args[0], IterV) else deref(I, st, args[0])
    p = _cs_of(I, st, it) if isinstance(it, IterV) else None
    if p is not None:
        is_all = c.get("name") == "all"
        # the closure must be decided on every listed letter, and constant on all other characters
        others = []
        for probe in ("\x00", "~", "Z"):
            if probe in p:
                continue
            st, r = I.call_value(st, args[1], [IntV.const("char", ord(probe))])
            others.append(r.val if isinstance(r, BoolV) else None)
        neutral = (True if is_all else False)
        if any(o is not neutral for o in others):
            return st, BoolV(None, None, frozenset([("opt", "other characters")]))
        acc = 1 if is_all else 0
        for ch, b in sorted(p.items()):
            st, r = I.call_value(st, args[1], [IntV.const("char", ord(ch))])
            if not isinstance(r, BoolV) or r.val is None:
                return st, BoolV(None, None, frozenset([("opt", "?")]))
            if is_all and r.val is False:
                acc = bit_and(acc, bit_xor(b, 1))      # fails iff the letter is present
            elif not is_all and r.val is True:
                acc = bit_or(acc, b)
        if bit_is_const(acc):
            return st, BoolV(bool(acc))
        return st, BoolV(None, None, bit_deps(acc), None, acc)
    return _o_all_any(I, st, c, args, body, t)


def install_charset(models):
    E = models.exact
    E["core::str::<impl str>::chars"] = m_chars_cs
    E["std::iter::Iterator::collect"] = m_collect_cs
    E["core::slice::<impl [T]>::contains"] = m_contains_cs
    E["core::str::<impl str>::contains"] = m_contains_cs
    E["std::slice::<impl [T]>::concat"] = m_concat_cs
    E["std::slice::<impl [T]>::join"] = m_concat_cs
    for k in ("<std::slice::Iter<'a, T> as std::iter::Iterator>::all", "<std::slice::Iter<'a, T> as std::iter::Iterator>::any",
              "std::iter::Iterator::all", "std::iter::Iterator::any"):
        E[k] = m_all_any_cs
    E["<std::str::Chars<'a> as std::iter::Iterator>::all"] = m_all_any_cs
    E["<std::str::Chars<'a> as std::iter::Iterator>::any"] = m_all_any_cs


_o_init2 = M.Models.__init__


def _init_cs(self):
    _o_init2(self)
    install_charset(self)


M.Models.__init__ = _init_cs
