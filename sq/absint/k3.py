"""K3 unit contexts: small functions analysed on enumerated / interval arguments (options, presentation path)."""
from .ctx import new_interp, ref_to
from .domain import BoolV, EnumV, FloatV, IntV, OpaqueV, RefV, StrV, StructV, Top, TupleV, VecV, fresh_sid, ty_range
from .interp import Diverge, State
from .k2 import args_value, pre_row


def run_fn(facts, name, build_args, label, side=None):
    """-> (Interp, result value or None if diverged, state)"""
    I = new_interp(facts)
    I.ctx_label = label
    if side:
        I.side.update(side)
    st = State()
    args = build_args(I, st)
    b = facts.bodies.get(name) or facts.one(name)
    try:
        st, v = I.run_body(st, b, args)
        return I, v, st
    except Diverge:
        return I, None, None


def any_int(ty, label):
    lo, hi = ty_range(ty)
    return IntV(ty, None, lo, hi, None, frozenset([("args", label)]), fresh_sid(), ("args", label))


def counters_value(facts, cleanup_count):
    adt = [n for n in facts.adts if n.endswith("::AppCounters")][0]
    return StructV(adt, {"df_count": OpaqueV("BTreeMap"), "timestamp": OpaqueV("chrono::DateTime<chrono::Utc>", ("pre", "refresh")),
                         "cleanup_count": cleanup_count})


def row_with_hulls(facts, hulls):
    return pre_row(facts, {"CA": None, "caps": {}}, hulls)
