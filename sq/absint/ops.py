"""Transfer functions on abstract scalars."""
import math

from .domain import (INT_TYPES, TBIT, Aff, BoolV, FloatV, IntV, Top, bit_and, bit_is_const, bit_not, bit_or, bit_xor,
                     ty_range)


def _deps(a, b=None):
    d = a.deps
    if b is not None:
        d = d | b.deps
    return d


def aff_to_bits(aff, width):
    """bits of an affine form whose coefficients are distinct powers of two over frame bits (no carries)"""
    if aff is None:
        return None
    used = {}
    for a, v in aff.t.items():
        if a[0] != "b" or v <= 0 or v & (v - 1):
            return None
        i = v.bit_length() - 1
        if i in used or i >= width:
            return None
        used[i] = ("b", a[1])
    c = aff.c
    if c < 0:
        return None
    bits = []
    for i in range(width):
        cb = (c >> i) & 1
        if i in used:
            if cb:
                return None
            bits.append(used[i])
        else:
            bits.append(cb)
    if c >> width:
        return None
    return tuple(bits)


FT_MAX = 12          # at most 2^12 table entries


def _bit_atoms(b, out):
    if bit_is_const(b):
        return True
    if b == TBIT or not isinstance(b, tuple):
        return False
    if b[0] == "b":
        out.add(b[1])
        return True
    if b[0] == "x":
        out |= set(b[1])
        return True
    return False


def _bit_val(b, env):
    if bit_is_const(b):
        return b
    if b[0] == "b":
        return env[b[1]]
    v = b[2]
    for n in b[1]:
        v ^= env[n]
    return v


def ftab_of(v, extra_atoms=()):
    """the value as an explicit function table over the frame bits it is made of (None if that is not known or too large)"""
    if not isinstance(v, IntV):
        return None
    if v.ftab is not None and not extra_atoms:
        return v.ftab
    if v.is_const() and not extra_atoms:
        return ((), (v.lo,))
    if v.ftab is not None:
        return ftab_extend(v.ftab, tuple(sorted(set(v.ftab[0]) | set(extra_atoms))))
    atoms = set(extra_atoms)
    w, signed = INT_TYPES[v.ty]
    if v.bits is not None:
        for b in v.bits:
            if not _bit_atoms(b, atoms):
                return None
        if len(atoms) > FT_MAX:
            return None
        al = tuple(sorted(atoms))
        vals = []
        for m in range(1 << len(al)):
            env = {n: (m >> i) & 1 for i, n in enumerate(al)}
            x = 0
            for i, b in enumerate(v.bits):
                if _bit_val(b, env):
                    x |= 1 << i
            if signed and x >> (w - 1):
                x -= 1 << w
            vals.append(x)
        return (al, tuple(vals))
    aff = v.affine()
    if aff is not None:
        for a in aff.t:
            if a[0] == "b":
                atoms.add(a[1])
            elif a[0] == "x":
                atoms |= set(a[1])
            else:
                return None
        if len(atoms) > FT_MAX:
            return None
        al = tuple(sorted(atoms))
        vals = []
        for m in range(1 << len(al)):
            env = {n: (m >> i) & 1 for i, n in enumerate(al)}
            x = aff.c
            for a, k in aff.t.items():
                x += k * (env[a[1]] if a[0] == "b" else _bit_val(a, env))
            vals.append(x)
        return (al, tuple(vals))
    if v.is_const():
        return ftab_extend(((), (v.lo,)), tuple(sorted(extra_atoms)))
    return None


def ftab_extend(ft, atoms):
    """re-express a table over a superset of its atoms"""
    a0, v0 = ft
    if tuple(a0) == tuple(atoms):
        return ft
    pos = [atoms.index(a) for a in a0]
    vals = []
    for m in range(1 << len(atoms)):
        i0 = 0
        for j, p in enumerate(pos):
            if (m >> p) & 1:
                i0 |= 1 << j
        vals.append(v0[i0])
    return (tuple(atoms), tuple(vals))


def ftab_pointwise(op, a, b, ty):
    """result table of a binary integer operation applied entry by entry (None entries: overflow / division by zero / undefined input)"""
    fa, fb = ftab_of(a), ftab_of(b)
    if fa is None or fb is None:
        return None
    atoms = tuple(sorted(set(fa[0]) | set(fb[0])))
    if len(atoms) > FT_MAX:
        return None
    fa, fb = ftab_extend(fa, atoms), ftab_extend(fb, atoms)
    w, signed = INT_TYPES[ty]
    tlo, thi = ty_range(ty)
    mask = (1 << w) - 1
    out = []
    for x, y in zip(fa[1], fb[1]):
        if x is None or y is None:
            out.append(None)
            continue
        try:
            if op == "Add":
                r = x + y
            elif op == "Sub":
                r = x - y
            elif op == "Mul":
                r = x * y
            elif op == "Div":
                r = None if y == 0 else _tdiv(x, y)
            elif op == "Rem":
                r = None if y == 0 else int(math.fmod(x, y))
            elif op == "BitAnd":
                r = (x & mask) & (y & mask)
            elif op == "BitOr":
                r = (x & mask) | (y & mask)
            elif op == "BitXor":
                r = (x & mask) ^ (y & mask)
            elif op == "Shl":
                r = None if not 0 <= y < w else (x << y) & mask
            elif op == "Shr":
                r = None if not 0 <= y < w else (x >> y)
            else:
                return None
        except (OverflowError, ValueError):
            r = None
        if r is not None and op in ("BitAnd", "BitOr", "BitXor", "Shl") and signed and r >> (w - 1):
            r -= 1 << w
        if r is not None and not (tlo <= r <= thi):
            r = None          # the operation overflows under this assignment
        out.append(r)
    return (atoms, tuple(out))


def ftab_mux(bit, a, b):
    """IntV: `a` where the bit expression is 1, `b` where it is 0 (as an explicit function table)"""
    if not (isinstance(a, IntV) and isinstance(b, IntV)) or a.ty != b.ty:
        return None
    atoms = set()
    if not _bit_atoms(bit, atoms):
        return None
    fa, fb = ftab_of(a), ftab_of(b)
    if fa is None or fb is None:
        return None
    al = tuple(sorted(atoms | set(fa[0]) | set(fb[0])))
    if len(al) > FT_MAX:
        return None
    fa, fb = ftab_extend(fa, al), ftab_extend(fb, al)
    vals = []
    for m in range(1 << len(al)):
        env = {n: (m >> i) & 1 for i, n in enumerate(al)}
        vals.append(fa[1][m] if _bit_val(bit, env) else fb[1][m])
    return IntV(a.ty, None, None, None, None, a.deps | b.deps, None, None, None, (al, tuple(vals)))


def make_int(ty, bits=None, lo=None, hi=None, aff=None, deps=frozenset(), term=None):
    w, signed = INT_TYPES[ty]
    tlo, thi = ty_range(ty)
    if aff is not None:
        alo, ahi = aff.range(lambda a: (0, 1) if a[0] in ("b", "x") else (a[2], a[3]))
        # the affine form is exact as long as the value itself is known to be representable
        # (either by the form's own range or by the interval established by refinement)
        if (alo < tlo and (lo is None or lo < tlo)) or (ahi > thi and (hi is None or hi > thi)):
            aff = None
    if bits is None and aff is not None:
        bits = aff_to_bits(aff, w)
    return IntV(ty, bits, lo, hi, aff, deps, None, term)


def int_binop(op, a, b, ty):
    r = _int_binop(op, a, b, ty)
    # explicit function tables (from constant-table lookups) are carried through arithmetic entry by entry
    if (a.ftab is not None or b.ftab is not None):
        checked = op.endswith("WithOverflow")
        base = op[:-len("WithOverflow")] if checked else op
        if base in ("Add", "Sub", "Mul", "Div", "Rem", "BitAnd", "BitOr", "BitXor", "Shl", "Shr"):
            ft = ftab_pointwise(base, a, b, ty)
            if ft is not None:
                res = r[0] if checked else r
                if isinstance(res, IntV):
                    defined = [x for x in ft[1] if x is not None]
                    if defined:
                        nr = IntV(ty, res.bits, min(defined), max(defined), res.aff, res.deps | _deps(a, b), None, res.term, None, ft)
                        if checked:
                            ovf = BoolV(False) if len(defined) == len(ft[1]) else BoolV(None, None, _deps(a, b))
                            return (nr, ovf)
                        return nr
    return r


def _int_binop(op, a, b, ty):
    """a, b IntV (already resolved).  Returns IntV of type ty for arithmetic/bit ops, BoolV for comparisons,
    for *WithOverflow ops returns (IntV, BoolV overflow)"""
    checked = op.endswith("WithOverflow")
    base = op[:-len("WithOverflow")] if checked else op
    if base in ("Eq", "Ne", "Lt", "Le", "Gt", "Ge"):
        return compare(base, a, b)
    w, signed = INT_TYPES[ty]
    tlo, thi = ty_range(ty)
    deps = _deps(a, b)
    if base in ("Add", "Sub", "Mul"):
        if base == "Add":
            lo, hi = a.lo + b.lo, a.hi + b.hi
        elif base == "Sub":
            lo, hi = a.lo - b.hi, a.hi - b.lo
        else:
            c = [a.lo * b.lo, a.lo * b.hi, a.hi * b.lo, a.hi * b.hi]
            lo, hi = min(c), max(c)
        aa, ab = a.affine(), b.affine()
        aff = None
        if aa is not None and ab is not None:
            if base == "Add":
                aff = aa.add(ab)
            elif base == "Sub":
                aff = aa.add(ab, -1)
            elif aa.is_const():
                aff = ab.scale(aa.c)
            elif ab.is_const():
                aff = aa.scale(ab.c)
        fits = lo >= tlo and hi <= thi
        bits = None
        if base == "Add" and a.bits is not None and b.bits is not None and fits:
            if all(x == 0 or y == 0 for x, y in zip(a.bits, b.bits)):
                bits = tuple(bit_or(x, y) for x, y in zip(a.bits, b.bits))
        if base == "Add" and bits is None and a.bits is not None and b.bits is not None and fits:
            # exact ripple-carry addition when every bit is a constant or a truth-table function of option atoms
            from .domain import _fmask
            if all(_fmask(x) is not None for x in a.bits) and all(_fmask(x) is not None for x in b.bits):
                out, carry = [], 0
                for x, y in zip(a.bits, b.bits):
                    xy = bit_xor(x, y)
                    out.append(bit_xor(xy, carry))
                    carry = bit_or(bit_and(x, y), bit_and(carry, xy))
                bits = tuple(out)
        if base == "Mul" and fits and a.bits is not None and b.is_const() and b.lo > 0 and b.lo & (b.lo - 1) == 0:
            k = b.lo.bit_length() - 1
            bits = ((0,) * k + a.bits)[:w]
        if base == "Mul" and fits and b.bits is not None and a.is_const() and a.lo > 0 and a.lo & (a.lo - 1) == 0:
            k = a.lo.bit_length() - 1
            bits = ((0,) * k + b.bits)[:w]
        if fits:
            res = make_int(ty, bits, lo, hi, aff, deps)
            ovf = BoolV(False)
        else:
            definitely = hi < tlo or lo > thi
            ovf = BoolV(True if definitely else None, deps=deps)
            if checked:
                # value after a passed overflow check: the in-range part (the affine form is exact there)
                res = IntV(ty, None, max(lo, tlo), min(hi, thi), aff, deps)
            else:
                res = IntV(ty, None, tlo, thi, None, deps)  # wraps
        return (res, ovf) if checked else res
    if base in ("BitAnd", "BitOr", "BitXor"):
        f = {"BitAnd": bit_and, "BitOr": bit_or, "BitXor": bit_xor}[base]
        bits = None
        if a.bits is not None and b.bits is not None:
            bits = tuple(f(x, y) for x, y in zip(a.bits, b.bits))
        elif base == "BitAnd" and (a.bits is not None or b.bits is not None):
            kb = a.bits if a.bits is not None else b.bits
            bits = tuple(0 if x == 0 else TBIT for x in kb)
        lo, hi = tlo, thi
        if not signed or (a.lo >= 0 and b.lo >= 0):
            if base == "BitAnd":
                lo, hi = 0, min(a.hi, b.hi) if a.lo >= 0 and b.lo >= 0 else max(a.hi, b.hi)
            else:
                m = max(a.hi, b.hi)
                lo, hi = 0, (1 << m.bit_length()) - 1 if m > 0 else 0
                if base == "BitOr":
                    lo = max(a.lo, b.lo)
        return IntV(ty, bits, lo, hi, None, deps)
    if base in ("Shl", "Shr"):
        if not b.is_const():
            return IntV(ty, None, tlo, thi, None, deps)
        k = b.lo
        if k < 0 or k >= w:
            return IntV(ty, None, tlo, thi, None, deps)
        bits = None
        aff = None
        if base == "Shl":
            if a.bits is not None:
                bits = ((0,) * k + a.bits)[:w]
            lo, hi = a.lo << k, a.hi << k
            if lo >= tlo and hi <= thi:
                aa = a.affine()
                aff = aa.scale(1 << k) if aa is not None else None
            else:
                lo, hi = tlo, thi
        else:
            if a.bits is not None:
                fill = 0 if not signed else a.bits[w - 1]
                bits = a.bits[k:] + (fill,) * k
            lo, hi = a.lo >> k, a.hi >> k
        return make_int(ty, bits, lo, hi, aff, deps)
    if base in ("Div", "Rem"):
        if b.lo <= 0 <= b.hi:
            lo, hi = tlo, thi
            if base == "Rem" and a.lo >= 0 and b.hi > 0:
                lo, hi = 0, min(a.hi, b.hi - 1)
            return IntV(ty, None, lo, hi, None, deps)
        if b.is_const() and b.lo > 0 and b.lo & (b.lo - 1) == 0 and a.lo >= 0 and a.bits is not None:
            # non-negative value divided by / reduced modulo a power of two: a shift / a mask, bit for bit
            k = b.lo.bit_length() - 1
            if base == "Div":
                return make_int(ty, a.bits[k:] + (0,) * k, a.lo >> k, a.hi >> k, None, deps)
            bits = a.bits[:k] + (0,) * (w - k)
            return make_int(ty, bits, 0, min(a.hi, b.lo - 1), None, deps)
        if base == "Div":
            c = [_tdiv(a.lo, b.lo), _tdiv(a.lo, b.hi), _tdiv(a.hi, b.lo), _tdiv(a.hi, b.hi)]
            if a.lo < 0 < a.hi:
                c.append(0)
            return IntV(ty, None, min(c), max(c), None, deps)
        m = max(abs(b.lo), abs(b.hi)) - 1
        if a.is_const() and b.is_const():
            v = int(math.fmod(a.lo, b.lo))
            return IntV.const(ty, v)._with(deps=deps)
        lo = -m if a.lo < 0 else 0
        hi = m if a.hi > 0 else 0
        if a.lo >= 0:
            hi = min(hi, a.hi)
        return IntV(ty, None, lo, hi, None, deps)
    return Top(deps, "int op %s" % op)


def _tdiv(a, b):
    q = abs(a) // abs(b)
    return q if (a >= 0) == (b >= 0) else -q


def compare(op, a, b):
    if (a.ftab is not None or b.ftab is not None):
        fa, fb = ftab_of(a), ftab_of(b)
        if fa is not None and fb is not None and len(set(fa[0]) | set(fb[0])) <= FT_MAX:
            atoms = tuple(sorted(set(fa[0]) | set(fb[0])))
            fa, fb = ftab_extend(fa, atoms), ftab_extend(fb, atoms)
            f = {"Eq": lambda x, y: x == y, "Ne": lambda x, y: x != y, "Lt": lambda x, y: x < y, "Le": lambda x, y: x <= y,
                 "Gt": lambda x, y: x > y, "Ge": lambda x, y: x >= y}[op]
            rs = {f(x, y) for x, y in zip(fa[1], fb[1]) if x is not None and y is not None}
            if len(rs) == 1:
                return BoolV(rs.pop(), ("cmp", op, a, b), frozenset())
    deps = _deps(a, b)
    val = None
    disjoint = False
    va, vb = a.values(), b.values()
    if va is not None and vb is not None and not (va & vb):
        disjoint = True
    if op == "Eq":
        if a.is_const() and b.is_const() and a.lo == b.lo:
            val = True
        elif a.hi < b.lo or b.hi < a.lo or disjoint:
            val = False
        elif _bits_differ(a, b):
            val = False
    elif op == "Ne":
        if a.is_const() and b.is_const() and a.lo == b.lo:
            val = False
        elif a.hi < b.lo or b.hi < a.lo or disjoint:
            val = True
        elif _bits_differ(a, b):
            val = True
    elif op == "Lt":
        val = True if a.hi < b.lo else (False if a.lo >= b.hi else None)
    elif op == "Le":
        val = True if a.hi <= b.lo else (False if a.lo > b.hi else None)
    elif op == "Gt":
        val = True if a.lo > b.hi else (False if a.hi <= b.lo else None)
    elif op == "Ge":
        val = True if a.lo >= b.hi else (False if a.hi < b.lo else None)
    bit = None
    if val is None and op in ("Eq", "Ne") and a.bits is not None and b.is_const():
        nz = [x for x in a.bits if x != 0]
        if len(nz) == 1 and not bit_is_const(nz[0]) and nz[0] != TBIT:
            i = a.bits.index(nz[0])
            if b.lo == 0:
                bit = nz[0] if op == "Ne" else bit_xor(nz[0], 1)
            elif b.lo == (1 << i):
                bit = nz[0] if op == "Eq" else bit_xor(nz[0], 1)
    if val is None and bit is None and a.term and a.term[0] == "lzbits" and b.is_const() and b.lo == 0 and op in ("Eq", "Ne", "Gt"):
        # leading_zeros(x) == 0  <=>  the top bit of x is set
        top = a.term[1]
        if not bit_is_const(top) and top != TBIT:
            bit = top if op == "Eq" else bit_xor(top, 1)
        elif bit_is_const(top):
            val = (top == 1) if op == "Eq" else (top == 0)
    return BoolV(val, ("cmp", op, a, b), deps, None, bit)


def _bits_differ(a, b):
    if a.bits is None or b.bits is None:
        return False
    for x, y in zip(a.bits, b.bits):
        if bit_is_const(x) and bit_is_const(y) and x != y:
            return True
    return False


def int_unop(op, a, ty):
    w, signed = INT_TYPES[ty]
    if op == "Neg":
        aa = a.affine()
        return make_int(ty, None, -a.hi, -a.lo, aa.scale(-1) if aa is not None else None, a.deps)
    if op == "Not":
        bits = tuple(bit_not(x) for x in a.bits) if a.bits is not None else None
        if signed:
            return IntV(ty, bits, -a.hi - 1, -a.lo - 1, None, a.deps)
        m = (1 << w) - 1
        return IntV(ty, bits, m - a.hi, m - a.lo, None, a.deps)
    return Top(a.deps, "unop %s" % op)


def bool_not(a):
    return BoolV(None if a.val is None else (not a.val), ("not", a), a.deps, a.term,
                 bit_xor(a.bit, 1) if a.bit is not None and a.val is None else None)


def cast_int(a, to):
    r = _cast_int(a, to)
    if a.ftab is not None and isinstance(r, IntV):
        w, signed = INT_TYPES[to]
        vals = []
        for x in a.ftab[1]:
            if x is None:
                vals.append(None)
                continue
            y = x & ((1 << w) - 1)
            if signed and y >> (w - 1):
                y -= 1 << w
            vals.append(y)
        return IntV(to, r.bits, r.lo, r.hi, r.aff, r.deps, r.sid, r.term, None, (a.ftab[0], tuple(vals)))
    return r


def _cast_int(a, to):
    """IntToInt cast (also bool/char -> int)"""
    w, signed = INT_TYPES[to]
    tlo, thi = ty_range(to)
    fw, fsigned = INT_TYPES[a.ty]
    bits = None
    if a.bits is not None:
        if w <= fw:
            bits = a.bits[:w]
        else:
            fill = a.bits[fw - 1] if fsigned else 0
            bits = a.bits + (fill,) * (w - fw)
    if tlo <= a.lo and a.hi <= thi:
        aa = a.affine()
        return IntV(to, bits, a.lo, a.hi, aa, a.deps, a.sid, a.term, a.vset)
    # truncation / reinterpretation
    if bits is not None:
        return IntV(to, bits, None, None, None, a.deps)
    if a.lo >= 0 and not signed:
        # low bits of a non-negative value
        return IntV(to, None, 0, thi, None, a.deps)
    return IntV(to, None, tlo, thi, None, a.deps)


def float_binop(op, a, b):
    deps = a.deps | b.deps
    term = (op, a.term if a.term is not None else _ft(a), b.term if b.term is not None else _ft(b))
    if op in ("Eq", "Ne", "Lt", "Le", "Gt", "Ge"):
        val = None
        if op == "Lt":
            val = True if a.hi < b.lo else (False if a.lo >= b.hi else None)
        elif op == "Le":
            val = True if a.hi <= b.lo else (False if a.lo > b.hi else None)
        elif op == "Gt":
            val = True if a.lo > b.hi else (False if a.hi <= b.lo else None)
        elif op == "Ge":
            val = True if a.lo >= b.hi else (False if a.hi < b.lo else None)
        elif op == "Eq":
            val = True if (a.is_const() and b.is_const() and a.lo == b.lo) else (False if (a.hi < b.lo or b.hi < a.lo) else None)
        elif op == "Ne":
            val = False if (a.is_const() and b.is_const() and a.lo == b.lo) else (True if (a.hi < b.lo or b.hi < a.lo) else None)
        return BoolV(val, ("fcmp", op, a, b), deps, term)
    try:
        if op == "Add":
            lo, hi = a.lo + b.lo, a.hi + b.hi
        elif op == "Sub":
            lo, hi = a.lo - b.hi, a.hi - b.lo
        elif op == "Mul":
            c = [x * y for x in (a.lo, a.hi) for y in (b.lo, b.hi)]
            c = [x for x in c if not math.isnan(x)]
            lo, hi = (min(c), max(c)) if c else (-math.inf, math.inf)
        elif op == "Div":
            if b.lo <= 0 <= b.hi:
                lo, hi = -math.inf, math.inf
            else:
                c = [x / y for x in (a.lo, a.hi) for y in (b.lo, b.hi)]
                lo, hi = min(c), max(c)
        elif op == "Rem":
            m = max(abs(b.lo), abs(b.hi))
            lo, hi = (-m if a.lo < 0 else 0.0), (m if a.hi > 0 else 0.0)
        else:
            lo, hi = -math.inf, math.inf
    except (OverflowError, ZeroDivisionError):
        lo, hi = -math.inf, math.inf
    if math.isnan(lo) or math.isnan(hi):
        lo, hi = -math.inf, math.inf
    # outward rounding slack is irrelevant for the facts we decide (ranges are used with margins)
    return FloatV(lo, hi, deps, term, a.ty)


def _ft(a):
    if a.is_const():
        return a.lo
    return ("f", sorted(a.deps, key=str)[:6].__repr__())


def int_to_float(a, ty="f64"):
    return FloatV(float(a.lo), float(a.hi), a.deps, ("int", _iterm(a)), ty)


def _iterm(a):
    if a.term is not None:
        return a.term
    aff = a.affine()
    fd = tuple(sorted(d for d in a.deps if isinstance(d, int)))
    if aff is not None:
        return ("aff", aff.show(), fd)
    return ("int?", tuple(sorted(a.deps, key=str)), fd)


def float_to_int(a, to):
    tlo, thi = ty_range(to)
    lo = tlo if a.lo == -math.inf or math.isnan(a.lo) else max(tlo, min(thi, int(a.lo)))
    hi = thi if a.hi == math.inf or math.isnan(a.hi) else max(tlo, min(thi, int(a.hi)))
    return IntV(to, None, lo, hi, None, a.deps, None, ("ftoi", a.term))



def bool_to_int(a, ty):
    """`b as uN` / `uN::from(b)`: 0 or 1, bit 0 being the flag's own bit expression when it has one"""
    from .domain import BoolV
    if a.val is not None:
        return IntV.const(ty, int(a.val))
    if a.bit is not None and a.bit != TBIT:
        w = INT_TYPES[ty][0]
        return IntV(ty, (a.bit,) + (0,) * (w - 1), 0, 1, None, a.deps)
    return IntV(ty, None, 0, 1, None, a.deps)
