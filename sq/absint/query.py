"""Helpers for rules over K2 results."""
from .domain import Aff, EnumV, IntV, deps_of
from .k2 import same_value


def sel(results, *tags, any_of=None):
    out = []
    for r in results:
        t = r.ctx.get("tags", ())
        if all(x in t for x in tags) and (any_of is None or any(x in t for x in any_of)):
            out.append(r)
    return out


def accepted(r):
    return not r.diverged


def stores_of(r, field):
    return [(path, v, pc) for path, v, pc, kind in r.stores if path and path[0][1] == field]


def stored_fields(r):
    return sorted({path[0][1] for path, v, pc, kind in r.stores if path})


def aff(coeffs, const=0):
    return Aff(const, {("b", b): c for b, c in coeffs.items() if c})


def int_aff(v):
    return v.affine() if isinstance(v, IntV) else None


def frame_deps(v, control=True):
    """frame bits a value depends on (data dependences, plus control dependences if asked)"""
    out = set()
    for d in deps_of(v):
        if isinstance(d, int):
            out.add(d)
        elif control and isinstance(d, tuple) and len(d) == 2 and d[0] == "ctl" and isinstance(d[1], int):
            out.add(d[1])
    return frozenset(out)


def other_deps(v):
    """non-frame data dependences (labels such as ('pre', field), ('observer', ..), ('args', ..))"""
    return frozenset(d for d in deps_of(v) if not isinstance(d, int) and not (isinstance(d, tuple) and d and d[0] == "ctl"))


def ctl_other_deps(v):
    """non-frame CONTROL dependences"""
    return frozenset(d[1] for d in deps_of(v) if isinstance(d, tuple) and len(d) == 2 and d[0] == "ctl" and not isinstance(d[1], int))


def option_some_payload(v):
    """(only_some?, payload or None)"""
    if isinstance(v, EnumV) and v.may("Some"):
        return v.only("Some"), v.payload("Some")
    return False, None


def unchanged(r, field, which="post_update"):
    row = getattr(r, which)
    if row is None or r.pre is None:
        return True
    return same_value(r.pre.fields.get(field), row.fields.get(field))


def field_bits_fixed(ctx, sb, eb):
    """value of a fully fixed field, else None"""
    fx = ctx.get("fixed") or {}
    v = 0
    for b in range(sb, eb + 1):
        if b not in fx:
            return None
        v = (v << 1) | fx[b]
    return v


def summary(v):
    """structural, run-independent summary of an abstract value (for comparing two contexts / two paths)"""
    from .domain import BoolV, EnumV, FloatV, IntV, OpaqueV, StrV, StructV, Top, TupleV, VecV, show_term
    if v is None:
        return None
    if isinstance(v, IntV):
        a = v.affine()
        return ("int", v.ty, v.lo, v.hi, a.show() if a is not None else None, show_term(_strip(v.term)) if v.term else None,
                tuple(sorted(frame_deps(v, control=False))), tuple(sorted(map(str, other_deps(v)))))
    if isinstance(v, FloatV):
        return ("float", round(v.lo, 6) if v.lo == v.lo else None, round(v.hi, 6) if v.hi == v.hi else None, show_term(_strip(v.term)),
                tuple(sorted(frame_deps(v, control=False))))
    if isinstance(v, BoolV):
        return ("bool", v.val, tuple(sorted(frame_deps(v, control=False))))
    if isinstance(v, EnumV):
        return ("enum", tuple(sorted((n, tuple(summary(x) for x in pl)) for n, (pl, g) in v.variants.items())))
    if isinstance(v, TupleV):
        return ("tuple", tuple(summary(x) for x in v.items))
    if isinstance(v, StructV):
        return ("struct", tuple(sorted((k, summary(x)) for k, x in v.fields.items())))
    if isinstance(v, VecV):
        return ("vec", tuple(summary(x) for x in v.elems) if v.elems is not None else ("len", summary(v.length), summary(v.summary)))
    if isinstance(v, StrV):
        if v.skind == "chars":
            return ("chars", tuple((c, summary(x)) for c, x in v.chars))
        return ("str", v.skind, v.text, tuple(sorted(map(str, v.deps))))
    if isinstance(v, OpaqueV):
        t = v.term
        if isinstance(t, tuple) and t and t[0] == "now":
            t = ("now",)
        return ("opaque", v.ty, show_term(t))
    if isinstance(v, Top):
        return ("top", tuple(sorted(map(str, v.deps))))
    return (v.kind,)


def _strip(t):
    """drop run-specific counters (now#k) from a term"""
    if isinstance(t, tuple):
        if t and t[0] == "now":
            return ("now",)
        return tuple(_strip(x) for x in t)
    return t


def term_find(t, head):
    """all sub-terms whose head symbol is `head`"""
    out = []
    if isinstance(t, tuple):
        if t and t[0] == head:
            out.append(t)
        for x in t[1:] if t and isinstance(t[0], str) else t:
            out += term_find(x, head)
    return out


def term_bits(t):
    """frame bits mentioned in a term (from the dependency tuples of its integer leaves)"""
    out = set()
    if isinstance(t, tuple):
        if t and t[0] in ("aff", "int?") and len(t) >= 3 and isinstance(t[2], tuple):
            out |= set(x for x in t[2] if isinstance(x, int))
        for x in t:
            out |= term_bits(x)
    return out


def fn_table(v, atoms=None):
    """value as an explicit table over frame bits: (atoms, vals) or None (works for affine / bit-exact / table-lookup values)"""
    from . import ops
    if not isinstance(v, IntV):
        return None
    return ops.ftab_of(v, tuple(atoms) if atoms else ())


def aff_table(a, atoms):
    """an expected affine form (over ('b', n) / ('x', set, c) atoms) tabulated over `atoms`"""
    from .ops import _bit_val
    vals = []
    for m in range(1 << len(atoms)):
        env = {n: (m >> i) & 1 for i, n in enumerate(atoms)}
        x = a.c
        for at, k in a.t.items():
            x += k * (env[at[1]] if at[0] == "b" else _bit_val(at, env))
        vals.append(x)
    return tuple(vals)


def same_fn(v, want_aff, defined_only=True):
    """does the abstract value compute exactly the function `want_aff` of the frame bits?  Decided by the affine form when
    there is one, else by tabulating both over the bits involved (a lookup-table implementation has no closed form)."""
    if not isinstance(v, IntV) or want_aff is None:
        return False
    a = v.affine()
    if a is not None and a == want_aff:
        return True
    need = set()
    for at in want_aff.t:
        if at[0] == "b":
            need.add(at[1])
        elif at[0] == "x":
            need |= set(at[1])
        else:
            return False
    ft = fn_table(v, sorted(need))
    if ft is None:
        return False
    atoms = ft[0]
    want = aff_table(want_aff, atoms)
    for g, w in zip(ft[1], want):
        if g is None:
            if defined_only:
                continue
            return False
        if g != w:
            return False
    return True
