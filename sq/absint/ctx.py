"""Context builders for E2: symbolic frames with enumerated selector fields."""
from .domain import IntV, RefV, VecV
from .interp import Interp, State
from .models import Models
from . import models2  # noqa: F401  (installs the second tranche of std contracts)
from . import models3  # noqa: F401  (constant strings; must come after models2)


def field_bits(fixed, sb, eb, value):
    """fix Mode S bits sb..eb (1-based, MSB first) to `value`"""
    n = eb - sb + 1
    for i in range(n):
        fixed[sb + i] = (value >> (n - 1 - i)) & 1
    return fixed


def frame(nnib, fixed=None):
    fixed = fixed or {}
    elems = []
    for i in range(nnib):
        bits = []
        for k in range(4):       # LSB first: bit 4i+4 is the LSB of nibble i
            n = 4 * i + 4 - k
            bits.append(fixed[n] if n in fixed else ("b", n))
        elems.append(IntV("u32", bits, None, None))
    return VecV(elems, elem_ty="u32")


def new_interp(facts):
    return Interp(facts, Models())


def call_fn(I, name, args, state=None, heap_args=None):
    """call crate fn `name` with args; values in heap_args (dict argindex->value) are placed in heap cells and passed by reference"""
    st = state or State()
    real = []
    for i, a in enumerate(args):
        real.append(a)
    b = I.facts.one(name) if name not in I.facts.bodies else I.facts.bodies[name]
    return I.run_body(st, b, real)


def ref_to(I, st, v, mut=False):
    c = I.new_cell(st, v)
    return RefV(c, (), mut)
