"""E2 — abstract interpreter over the MIR facts (flow-sensitive, context-sensitive by inlining,
joins at merge points, bounded exact unrolling of loops then widening, guarded join for XOR-linear code).
No path enumeration, no solver."""
import heapq
import itertools

from ..cfg import CFG
from ..facts import Broken, span_loc
from . import ops
from .domain import (INT_TYPES, TBIT, BoolV, ChoiceV, ClosureV, EnumV, FloatV, FnV, IntV, IterV, OpaqueV, RefV, StrV, StructV, Top,
                     TupleV, VecV, bit_is_const, bit_mux, bit_xor, deps_of, fresh_sid, join, join_guard, ty_range)

UNROLL_FUEL = 400
STD_ENUMS = {
    "std::option::Option": ["None", "Some"],
    "std::result::Result": ["Ok", "Err"],
    "std::cmp::Ordering": ["Less", "Equal", "Greater"],
    "std::ops::ControlFlow": ["Continue", "Break"],
    "std::collections::hash_map::Entry": ["Occupied", "Vacant"],
    "std::collections::btree_map::Entry": ["Vacant", "Occupied"],
}
ORDERING_VALUES = {"Less": -1, "Equal": 0, "Greater": 1}


class Diverge(Exception):
    """no state reaches the end of the analysed code (e.g. definite panic)"""


class State:
    __slots__ = ("fr", "stack", "heap", "kb", "cons", "pc", "guard", "ctl")

    def __init__(self):
        self.fr = {}      # frame id -> {local: value}
        self.stack = []   # frame ids
        self.heap = {}    # cell id -> value
        self.kb = {}      # frame bit -> 0/1
        self.cons = {}    # sid -> (lo, hi)
        self.pc = frozenset()
        self.guard = None
        self.ctl = {}            # (frame, switch block) -> deps of that payload-dependent branch (control dependence, scoped
                                 # to the region between the branch and its post-dominator)

    def copy(self):
        s = State()
        s.fr = {k: dict(v) for k, v in self.fr.items()}
        s.stack = list(self.stack)
        s.heap = dict(self.heap)
        s.kb = dict(self.kb)
        s.cons = dict(self.cons)
        s.pc = self.pc
        s.guard = self.guard
        s.ctl = dict(self.ctl)
        return s

    def ctl_deps(self, fid=None):
        d = frozenset()
        for (f, b), x in self.ctl.items():
            if fid is None or f == fid:
                d |= x[0]
        return d


def _assign_sids(v):
    """give fresh identities to non-constant scalars that have none (after joins / at definitions)"""
    if v is None:
        return v
    k = v.kind
    if k == "int":
        if v.sid is None and not v.is_const():
            return v._with(sid=fresh_sid())
        return v
    if k == "tuple":
        items = [_assign_sids(x) for x in v.items]
        if all(a is b for a, b in zip(items, v.items)):
            return v
        return TupleV(items)
    if k == "enum":
        ch = False
        nv = {}
        for n, (pl, g) in v.variants.items():
            npl = tuple(_assign_sids(x) for x in pl)
            if any(a is not b for a, b in zip(npl, pl)):
                ch = True
            nv[n] = (npl, g)
        return EnumV(v.adt, nv) if ch else v
    return v


class Interp:
    def __init__(self, facts, models=None):
        self.facts = facts
        self.models = models
        self.cfgs = {}
        self.loopinfo = {}
        self.obligations = []      # dict(site, kind, ok, detail, ctx)
        self.entered = set()       # names of the bodies interpreted (C01 R01.6: completeness of the obligation inventory)
        self.warnings = []         # unmodelled callees etc.
        self.calllog = []          # (callee, args, result) for watched callees
        self.const_cells = set()
        self.trace_caps = []
        self._impl_cache = {}
        self.trace_names = None    # callee short names whose call sites are recorded, in execution order, in self.trace
        self.trace = []
        self.watch = set()
        self.events = []
        self.ctx_label = None
        self._cell = itertools.count(1)
        self._frame = itertools.count(1)
        self.steps = 0
        self.max_steps = 3_000_000
        self.depth = 0
        self.now_counter = itertools.count(1)
        self.side = {}             # scratch for models (e.g. table events)
        self._promoted = {}
        self.vn = {}
        self.entry_snap = {}
        self._cur = None
        self.infeasible_edges = {}
        self._pdom_cache = {}

    # ------------------------------------------------------------------ infrastructure
    def cfg(self, body):
        c = self.cfgs.get(body.name)
        if c is None:
            c = CFG(body)
            self.cfgs[body.name] = c
            loops = c.loops()
            rpo = {}
            from ..cfg import _rpo
            for i, b in enumerate(_rpo(c.succ, 0)):
                rpo[b] = i
            inloops = {}
            for h, blks in loops.items():
                for b in blks:
                    inloops.setdefault(b, set()).add(h)
            self.loopinfo[body.name] = (loops, rpo, inloops)
        return c

    def postdominates(self, body, cfg, a, b):
        """post-dominance on the CFG without the edges registered as infeasible for this run (e.g. the Err edge of a
        `?` on a formatter that cannot fail)"""
        ign = self.infeasible_edges.get(body.name)
        if not ign:
            return cfg.postdominates(a, b)
        pd = self._pdom_cache.get(body.name)
        if pd is None:
            from ..cfg import _dominators
            n = cfg.n
            virt = n
            exits = cfg.exits()
            succ_f = [[s for s in cfg.succ[i] if (i, s) not in ign] for i in range(n)]
            rsucc = [[] for _ in range(n + 1)]
            for i in range(n):
                for s_ in succ_f[i]:
                    rsucc[s_].append(i)
            rsucc[virt] = list(exits)
            rpred = [list(succ_f[i]) for i in range(n)] + [[]]
            for e in exits:
                rpred[e] = rpred[e] + [virt]
            reach = {virt}
            stack = [virt]
            while stack:
                x = stack.pop()
                for s_ in rsucc[x]:
                    if s_ not in reach:
                        reach.add(s_)
                        stack.append(s_)
            pd = _dominators(n + 1, rsucc, rpred, virt, reach)
            self._pdom_cache[body.name] = pd
        return a in pd.get(b, ())

    def new_cell(self, state, v):
        cid = ("h", next(self._cell))
        state.heap[cid] = v
        return cid

    def warn(self, what, detail=""):
        self.warnings.append((what, detail, self.ctx_label))

    # ------------------------------------------------------------------ memory
    def cell_get(self, state, cell):
        if cell[0] == "f":
            return state.fr[cell[1]].get(cell[2])
        return state.heap.get(cell)

    def cell_set(self, state, cell, v):
        if cell[0] == "f":
            state.fr[cell[1]][cell[2]] = v
        else:
            state.heap[cell] = v

    def locate(self, state, fid, place):
        """-> (cell, path) ; path steps: ('field', name|idx) ('variant', name) ('index', int|None) """
        cell = ("f", fid, place["local"])
        path = []
        for p in place["proj"]:
            k = p["k"]
            if k == "deref":
                v = self.get_path(state, cell, tuple(path))
                if isinstance(v, RefV):
                    cell, path = v.cell, list(v.proj)
                elif isinstance(v, ChoiceV) and isinstance(v.one, RefV) and isinstance(v.zero, RefV):
                    # read through a guarded choice of two references: a temporary holding the guarded choice of the referents
                    tmp = ChoiceV(v.bit, self.get_path(state, v.one.cell, v.one.proj), self.get_path(state, v.zero.cell, v.zero.proj))
                    cell, path = self.new_cell(state, tmp), []
                else:
                    # deref of something that is not a reference (Box / unknown): stay symbolic
                    path.append(("deref",))
            elif k == "field":
                path.append(("field", p.get("name") if p.get("name") is not None and not _is_num(p.get("name")) else p["i"]))
            elif k == "downcast":
                path.append(("variant", p.get("variant")))
            elif k == "index":
                iv = self.resolve(state, state.fr[fid].get(p["local"]))
                idx = iv.lo if isinstance(iv, IntV) and iv.is_const() else None
                path.append(("index", idx, iv))
            elif k == "cindex":
                path.append(("cindex", p["offset"], p["from_end"]))
            elif k == "subslice":
                path.append(("subslice", p["from"], p["to"], p["from_end"]))
            else:
                path.append(("other", k))
        return cell, tuple(path)

    def get_path(self, state, cell, path):
        v = self.cell_get(state, cell)
        for st in path:
            v = self.step_get(state, v, st)
        return v

    def step_get(self, state, v, st):
        if v is None:
            return Top(why="read of uninitialised/moved value")
        k = st[0]
        if isinstance(v, ChoiceV):
            a, b = self.step_get(state, v.one, st), self.step_get(state, v.zero, st)
            if isinstance(a, IntV) and isinstance(b, IntV):
                m = ops.ftab_mux(v.bit, a, b)
                if m is not None:
                    return m
                return join(a, b)
            if isinstance(a, (RefV, VecV, TupleV, StructV)) or isinstance(b, (RefV, VecV, TupleV, StructV)):
                return ChoiceV(v.bit, a, b)
            return join(a, b)
        if isinstance(v, Top):
            return Top(v.deps, v.why or "projection of unknown")
        if k == "field":
            f = st[1]
            if isinstance(v, StructV):
                if f in v.fields:
                    return v.fields[f]
                # positional access on struct
                if isinstance(f, int) and f < len(v.fields):
                    return list(v.fields.values())[f]
                return Top(why="missing field %s" % (f,))
            if isinstance(v, TupleV):
                return v.items[f] if isinstance(f, int) and f < len(v.items) else Top(why="tuple index")
            if isinstance(v, ClosureV):
                return v.captures[f] if isinstance(f, int) and f < len(v.captures) else Top(why="closure capture")
            if isinstance(v, _Variant):
                return v.payload[f] if isinstance(f, int) and f < len(v.payload) else Top(why="variant field")
            if isinstance(v, EnumV) and len(v.variants) == 1:
                pl = list(v.variants.values())[0][0]
                return pl[f] if isinstance(f, int) and f < len(pl) else Top(why="variant field")
            if isinstance(v, IterV) or isinstance(v, OpaqueV) or isinstance(v, StrV) or isinstance(v, VecV):
                return Top(deps_of(v), "field of opaque")
            return Top(deps_of(v), "field %s of %s" % (f, v.kind))
        if k == "variant":
            if isinstance(v, EnumV):
                if st[1] in v.variants:
                    return _Variant(v.variants[st[1]][0])
                return Top(why="downcast to impossible variant %s" % st[1])
            return Top(deps_of(v), "downcast of %s" % v.kind)
        if k == "index":
            if isinstance(v, VecV):
                if v.elems is not None:
                    if st[1] is not None:
                        if 0 <= st[1] < len(v.elems):
                            return v.elems[st[1]]
                        return Top(why="index out of range")
                    iv = st[2] if len(st) > 2 else None
                    lt = _linear_table_lookup(v, iv)
                    if lt is not None:
                        return lt
                    lt = _ftab_table_lookup(v, iv)
                    if lt is not None:
                        return lt
                    el = v.elems
                    if isinstance(iv, IntV) and 0 <= iv.lo <= iv.hi < len(el):
                        el = el[iv.lo:iv.hi + 1]
                    r = None
                    for x in el:
                        r = x if r is None else join(r, x)
                    if isinstance(r, IntV) and isinstance(iv, IntV) and iv.deps - r.deps:
                        r = IntV(r.ty, r.bits, r.lo, r.hi, None, r.deps | iv.deps, None, None, r.vset)
                    return r if r is not None else Top(why="index into empty")
                return v.summary if v.summary is not None else Top(why="index into unknown vec")
            return Top(deps_of(v), "index of %s" % v.kind)
        if k == "cindex":
            if isinstance(v, VecV) and v.elems is not None:
                i = len(v.elems) - st[1] if st[2] else st[1]
                if 0 <= i < len(v.elems):
                    return v.elems[i]
            return Top(deps_of(v), "const index")
        if k == "subslice":
            # `[a, rest @ .., z]` patterns: elements from..to (to counted from the end when from_end)
            if isinstance(v, VecV) and v.elems is not None:
                n = len(v.elems)
                lo, hi = st[1], (n - st[2] if st[3] else st[2])
                if 0 <= lo <= hi <= n:
                    return VecV(v.elems[lo:hi], elem_ty=v.elem_ty)
            return Top(deps_of(v), "sub-slice pattern")
        if k == "deref":
            return v
        return Top(deps_of(v), "projection %s" % (st,))

    def set_path(self, state, cell, path, val):
        if not path:
            self.cell_set(state, cell, val)
            return
        root = self.cell_get(state, cell)
        self.cell_set(state, cell, self._set(state, root, path, val))

    def _set(self, state, v, path, val):
        if not path:
            return val
        st = path[0]
        rest = path[1:]
        k = st[0]
        if k == "field":
            f = st[1]
            if isinstance(v, StructV):
                return v.set(f, self._set(state, v.fields.get(f), rest, val))
            if isinstance(v, TupleV):
                items = list(v.items)
                if isinstance(f, int) and f < len(items):
                    items[f] = self._set(state, items[f], rest, val)
                return TupleV(items)
            if v is None or isinstance(v, Top):
                # building a tuple/struct field by field
                if isinstance(f, int):
                    items = [None] * (f + 1)
                    items[f] = self._set(state, None, rest, val)
                    return TupleV(items)
                return StructV("?", {f: self._set(state, None, rest, val)})
            if isinstance(v, ClosureV):
                caps = list(v.captures)
                caps[f] = self._set(state, caps[f], rest, val)
                return ClosureV(v.body, caps)
            if isinstance(v, _Variant):
                pl = list(v.payload)
                if isinstance(f, int) and f < len(pl):
                    pl[f] = self._set(state, pl[f], rest, val)
                return _Variant(pl)
            if isinstance(v, EnumV) and len(v.variants) == 1:
                n, (pl, g) = list(v.variants.items())[0]
                pl = list(pl)
                pl[f] = self._set(state, pl[f], rest, val)
                return EnumV(v.adt, {n: (tuple(pl), g)})
            self.warn("store", "field store into %s" % (v.kind,))
            return Top(why="field store into %s" % v.kind)
        if k == "variant":
            if isinstance(v, EnumV) and st[1] in v.variants:
                pl, g = v.variants[st[1]]
                nv = self._set(state, _Variant(pl), rest, val)
                if isinstance(nv, _Variant):
                    return EnumV(v.adt, {st[1]: (tuple(nv.payload), g)})
                return nv
            return Top(why="store through downcast")
        if k == "index":
            if isinstance(v, VecV) and v.elems is not None:
                if st[1] is not None and 0 <= st[1] < len(v.elems):
                    el = list(v.elems)
                    el[st[1]] = self._set(state, el[st[1]], rest, val)
                    return VecV(el, elem_ty=v.elem_ty)
                el = [join(x, self._set(state, x, rest, val)) for x in v.elems]
                return VecV(el, elem_ty=v.elem_ty)
            if isinstance(v, VecV):
                s = self._set(state, v.summary, rest, val)
                return VecV(None, v.length, join(v.summary, s) if v.summary is not None else s, v.elem_ty)
            return Top(why="index store")
        if k == "deref":
            return self._set(state, v, rest, val)
        if isinstance(v, _Variant):
            pl = list(v.payload)
            return _Variant(pl)
        return Top(why="store via %s" % (st,))

    # ------------------------------------------------------------------ refinement
    def resolve(self, state, v):
        """apply known frame bits and identity constraints to a value"""
        if isinstance(v, IntV):
            bits = v.bits
            ch = False
            if bits is not None and state.kb:
                nb = []
                for b in bits:
                    if not bit_is_const(b) and b != TBIT:
                        if b[0] == "b" and b[1] in state.kb:
                            nb.append(state.kb[b[1]])
                            ch = True
                            continue
                        if b[0] == "x" and any(n in state.kb for n in b[1]):
                            c = b[2]
                            rest = set()
                            for n in b[1]:
                                if n in state.kb:
                                    c ^= state.kb[n]
                                else:
                                    rest.add(n)
                            ch = True
                            if not rest:
                                nb.append(c)
                            elif len(rest) == 1 and c == 0:
                                nb.append(("b", next(iter(rest))))
                            else:
                                nb.append(("x", frozenset(rest), c))
                            continue
                    nb.append(b)
                bits = tuple(nb)
            lo, hi = v.lo, v.hi
            if v.sid is not None and v.sid in state.cons:
                clo, chi = state.cons[v.sid]
                if clo > lo or chi < hi:
                    lo, hi = max(lo, clo), min(hi, chi)
                    ch = True
            if v.bits is not None and state.cons:
                bk = ("bits", v.ty, v.bits)
                if bk in state.cons:
                    clo, chi = state.cons[bk]
                    if clo > lo or chi < hi:
                        lo, hi = max(lo, clo), min(hi, chi)
                        ch = True
            aff = v.aff
            if aff is not None and state.kb and any(a[0] == "b" and a[1] in state.kb for a in aff.t):
                from .domain import Aff
                c = aff.c
                t = {}
                for a, k in aff.t.items():
                    if a[0] == "b" and a[1] in state.kb:
                        c += k * state.kb[a[1]]
                    else:
                        t[a] = k
                aff = Aff(c, t)
                ch = True
            if ch:
                return IntV(v.ty, bits, lo, hi, aff, v.deps, v.sid, v.term, v.vset)
            return v
        if isinstance(v, BoolV) and v.val is None and v.bit is not None and state.kb and v.bit != TBIT and not bit_is_const(v.bit):
            b = v.bit
            if b[0] == "b" and b[1] in state.kb:
                return BoolV(bool(state.kb[b[1]]))
            if b[0] == "x" and all(n in state.kb for n in b[1]):
                c = b[2]
                for n in b[1]:
                    c ^= state.kb[n]
                return BoolV(bool(c))
        return v

    def resolve_deep(self, state, v):
        if isinstance(v, (IntV, BoolV)):
            return self.resolve(state, v)
        if isinstance(v, TupleV):
            items = [self.resolve_deep(state, x) for x in v.items]
            return v if all(a is b for a, b in zip(items, v.items)) else TupleV(items)
        if isinstance(v, VecV) and v.elems is not None:
            el = [self.resolve_deep(state, x) for x in v.elems]
            return v if all(a is b for a, b in zip(el, v.elems)) else VecV(el, elem_ty=v.elem_ty)
        return v

    def refine(self, state, b, truth):
        """narrow `state` assuming BoolV b == truth; returns False if that is impossible"""
        if b.val is not None:
            return b.val == truth
        g = b.tg if truth else b.fg
        if g:
            if not self.install_guard(state, g):
                return False
            for bv, tr in g.get("then", ()):
                if not self.refine(state, bv, tr):
                    return False
                self.note_atoms(state, bv, tr)
        if b.bit is not None and b.bit != TBIT and not bit_is_const(b.bit) and b.bit[0] == "b":
            n = b.bit[1]
            want = 1 if truth else 0
            if n in state.kb and state.kb[n] != want:
                return False
            state.kb[n] = want
        o = b.origin
        if o is None:
            return True
        if o[0] == "not":
            return self.refine(state, o[1], not truth)
        if o[0] == "and":
            if truth:
                return all(self.refine(state, x, True) for x in o[1])
            return True
        if o[0] == "or":
            if not truth:
                return all(self.refine(state, x, False) for x in o[1])
            return True
        if o[0] == "cmp":
            op, a, bb = o[1], self.resolve(state, o[2]), self.resolve(state, o[3])
            if not truth:
                op = {"Eq": "Ne", "Ne": "Eq", "Lt": "Ge", "Ge": "Lt", "Gt": "Le", "Le": "Gt"}[op]
            ok = self._refine_cmp(state, op, a, bb)
            if ok:
                flip = {"Eq": "Eq", "Ne": "Ne", "Lt": "Gt", "Gt": "Lt", "Le": "Ge", "Ge": "Le"}[op]
                ok = self._refine_cmp(state, flip, bb, a)
            return ok
        return True

    def _refine_cmp(self, state, op, a, b):
        """constrain a given  a <op> b  where b is (ideally) constant"""
        if not isinstance(a, IntV) or not isinstance(b, IntV):
            return True
        if a.is_const():
            return True
        lo, hi = a.lo, a.hi
        if op == "Eq":
            lo, hi = max(lo, b.lo), min(hi, b.hi)
        elif op == "Lt":
            hi = min(hi, b.hi - 1)
        elif op == "Le":
            hi = min(hi, b.hi)
        elif op == "Gt":
            lo = max(lo, b.lo + 1)
        elif op == "Ge":
            lo = max(lo, b.lo)
        elif op == "Ne" and b.is_const():
            if lo == b.lo:
                lo += 1
            if hi == b.lo:
                hi -= 1
        if lo > hi:
            return False
        if a.sid is not None and (lo > a.lo or hi < a.hi):
            state.cons[a.sid] = (lo, hi)
        if a.bits is not None and (lo > a.lo or hi < a.hi) and not any(x == TBIT for x in a.bits):
            # structural identity: the same bit-vector expression is the same value wherever it is recomputed
            state.cons[("bits", a.ty, a.bits)] = (lo, hi)
        # bit-level consequences: enumerate the free frame bits of `a` when few
        if a.bits is not None and b.is_const():
            free = []
            okbits = True
            for x in a.bits:
                if bit_is_const(x):
                    continue
                if x != TBIT and x[0] == "b":
                    if x[1] not in free:
                        free.append(x[1])
                else:
                    okbits = False
            if okbits and 0 < len(free) <= 10:
                w, signed = INT_TYPES[a.ty]
                survivors = []
                for m in range(1 << len(free)):
                    asg = {n: (m >> i) & 1 for i, n in enumerate(free)}
                    val = 0
                    for i, x in enumerate(a.bits):
                        bv = x if bit_is_const(x) else asg[x[1]]
                        val |= bv << i
                    if signed and val >> (w - 1):
                        val -= 1 << w
                    c = b.lo
                    sat = {"Eq": val == c, "Ne": val != c, "Lt": val < c, "Le": val <= c, "Gt": val > c, "Ge": val >= c}[op]
                    if sat and lo <= val <= hi:
                        survivors.append((asg, val))
                if not survivors:
                    return False
                for n in free:
                    vs = {asg[n] for asg, _ in survivors}
                    if len(vs) == 1:
                        state.kb[n] = vs.pop()
                if a.sid is not None:
                    vals = [v for _, v in survivors]
                    state.cons[a.sid] = (max(lo, min(vals)), min(hi, max(vals)))
        return True

    def install_guard(self, state, g, narrowed=False):
        if not g:
            return True
        for s, (lo, hi) in g.get("cons", {}).items():
            if s in state.cons:
                clo, chi = state.cons[s]
                lo, hi = max(lo, clo), min(hi, chi)
            if lo > hi:
                return False
            state.cons[s] = (lo, hi)
        for b, v in g.get("kb", {}).items():
            if b in state.kb and state.kb[b] != v:
                return False
            state.kb[b] = v
        if g.get("pc"):
            state.pc = state.pc | g["pc"]
        if narrowed and g.get("deps") and self._cur is not None:
            # being in this variant is itself a control dependence on whatever decided it
            d = frozenset(x[1] if (isinstance(x, tuple) and len(x) == 2 and x[0] == "ctl") else x for x in g["deps"])
            state.ctl[self._cur] = (state.ctl.get(self._cur, (frozenset(), None))[0] | d, state.ctl.get(self._cur, (None, None))[1])
        return True

    def guard_delta(self, before, after):
        """constraints present in `after` but not in `before` (to attach to an enum variant)"""
        g = {}
        cons = {s: r for s, r in after.cons.items() if before.cons.get(s) != r}
        if cons:
            g["cons"] = cons
        kb = {b: v for b, v in after.kb.items() if before.kb.get(b) != v}
        if kb:
            g["kb"] = kb
        pc = after.pc - before.pc
        if pc:
            g["pc"] = pc
        return g

    # ------------------------------------------------------------------ state join
    def join_states(self, a, b):
        """-> (joined state, changed?) ; `a` is the stored state, `b` the incoming one"""
        changed = False
        gj = None
        if a.guard is not None and b.guard is not None and a.guard[0] == b.guard[0] and a.guard[1] != b.guard[1]:
            gj = (a.guard[0], 1 if a.guard[1] else 0)
        s = State()
        s.stack = list(a.stack)
        cd = a.ctl_deps() | b.ctl_deps() if (a.ctl or b.ctl) else None
        _jkb = {k: v for k, v in a.kb.items() if b.kb.get(k) == v}
        _jpc = a.pc & b.pc
        _deltas = {}

        def delta(stx):
            k = id(stx)
            if k not in _deltas:
                g = {}
                dk = {x: v for x, v in stx.kb.items() if _jkb.get(x) != v}
                if dk:
                    g["kb"] = dk
                dc = {}
                for x, (lo, hi) in stx.cons.items():
                    o1, o2 = a.cons.get(x), b.cons.get(x)
                    if o1 is None or o2 is None or (min(o1[0], o2[0]), max(o1[1], o2[1])) != (lo, hi):
                        dc[x] = (lo, hi)
                if dc:
                    g["cons"] = dc
                dp = stx.pc - _jpc
                if dp:
                    g["pc"] = dp
                _deltas[k] = g
            return _deltas[k]

        def bool_guards(va, vb, j):
            """truth guards of a flag merged from two paths: what held on the path(s) that can deliver each truth value"""
            if not (isinstance(j, BoolV) and isinstance(va, BoolV) and isinstance(vb, BoolV)) or j.val is not None:
                return j
            from .domain import join_guard, merge_guard
            out = []
            for truth in (True, False):
                sides = []
                for v, stx in ((va, a), (vb, b)):
                    if v.val is not None and v.val != truth:
                        continue            # this side never delivers `truth`
                    g = merge_guard((v.tg if truth else v.fg) or {}, delta(stx))
                    if v.val is None and (v.origin is not None or v.tg or v.fg or v.term is not None):
                        g = merge_guard(g, {"then": ((v, truth),)})
                    sides.append(g)
                if len(sides) == 1:
                    out.append(sides[0] or None)
                elif len(sides) == 2:
                    out.append(join_guard(sides[0], sides[1]) or None)
                else:
                    out.append(None)
            tg, fg = out
            if _geq(tg, j.tg) and _geq(fg, j.fg):
                return j
            return BoolV(j.val, j.origin, j.deps, j.term, j.bit, tg, fg)

        def enum_guards(va, vb, j):
            """variant guards of an Option/Result merged from two paths: a variant that only one path can deliver keeps what
            held on that path (so that `let Some(x) = helper() else ..` in the caller gets the helper's checks back)"""
            if not (isinstance(j, EnumV) and isinstance(va, EnumV) and isinstance(vb, EnumV)) or len(j.variants) < 2:
                return j
            if not (delta(a) or delta(b)):
                return j
            from .domain import join_guard, merge_guard
            nv = {}
            chg = False
            for n, (pl, g0) in j.variants.items():
                sides = []
                for v, stx in ((va, a), (vb, b)):
                    if n in v.variants:
                        sides.append(merge_guard({k: x for k, x in v.variants[n][1].items() if k != "deps"}, delta(stx)))
                if not sides:
                    nv[n] = (pl, g0)
                    continue
                g = sides[0] if len(sides) == 1 else join_guard(sides[0], sides[1])
                g = dict(g)
                if g0.get("deps"):
                    g["deps"] = g0["deps"]
                if g0.get("bit") is not None and len(sides) == 1:
                    g["bit"] = g0["bit"]
                if not (_geq(g, g0) and g.get("deps") == g0.get("deps")):
                    chg = True
                nv[n] = (pl, g)
            return EnumV(j.adt, nv) if chg else j

        for fid in a.stack:
            la, lb = a.fr[fid], b.fr.get(fid, {})
            out = {}
            for l, va in la.items():
                if l not in lb:
                    changed = True
                    continue
                vb = lb[l]
                if va is vb:
                    out[l] = va
                    continue
                if gj is not None:
                    # compare the two sides under their own branch facts (values are only re-resolved when read)
                    va_r, vb_r = self.resolve_deep(a, va), self.resolve_deep(b, vb)
                    j = self.vjoin(va_r, vb_r, gj, cd)
                    if j is va_r:
                        j = va
                else:
                    j = self.vjoin(va, vb, gj, cd)
                if isinstance(j, BoolV) and j.val is None:
                    j = bool_guards(va, vb, j)
                elif isinstance(j, EnumV):
                    j2 = enum_guards(va, vb, j)
                    if j2 is not j:
                        j = j2 if not (j is va and all(_geq(j2.variants[n][1], va.variants[n][1]) for n in j2.variants)) else va
                if j is not va and not (_same_modulo_deps(j, va)):
                    changed = True
                    j = _assign_sids(j)
                elif j is not va:
                    j = va
                out[l] = j
            s.fr[fid] = out
        for c in a.heap:
            if c in b.heap:
                va, vb = a.heap[c], b.heap[c]
                if va is vb:
                    s.heap[c] = va
                else:
                    if gj is not None:
                        va_r, vb_r = self.resolve_deep(a, va), self.resolve_deep(b, vb)
                        j = self.vjoin(va_r, vb_r, gj, cd)
                        if j is va_r:
                            j = va
                    else:
                        j = self.vjoin(va, vb, gj, cd)
                    if j is not va and not (_same_modulo_deps(j, va)):
                        changed = True
                        j = _assign_sids(j)
                    elif j is not va:
                        j = va
                    s.heap[c] = j
            elif c in self.const_cells:
                s.heap[c] = a.heap[c]
            else:
                changed = True
        for c in b.heap:
            if c not in a.heap and c in self.const_cells:
                s.heap[c] = b.heap[c]
        kb = {k: v for k, v in a.kb.items() if b.kb.get(k) == v}
        if len(kb) != len(a.kb):
            changed = True
        s.kb = kb
        cons = {}
        for k, (lo, hi) in a.cons.items():
            if k in b.cons:
                r = (min(lo, b.cons[k][0]), max(hi, b.cons[k][1]))
                cons[k] = r
                if r != (lo, hi):
                    changed = True
            else:
                changed = True
        s.cons = cons
        pc = a.pc & b.pc
        if pc != a.pc:
            changed = True
        s.pc = pc
        s.guard = None if gj is not None else (a.guard if a.guard == b.guard else None)
        if s.guard != a.guard:
            changed = True
        ctl = dict(a.ctl)
        for k, x in b.ctl.items():
            if k in ctl:
                y = ctl[k]
                if not (x[0] <= y[0]):
                    ctl[k] = (y[0] | x[0], y[1])
                    changed = True
            else:
                ctl[k] = x
                changed = True
        s.ctl = ctl
        return s, changed

    def vjoin(self, va, vb, gj, cd=None):
        if gj is not None:
            return self.gjoin(va, vb, gj)
        if cd:
            return self.join_t(va, vb, cd)
        return join(va, vb)

    def join_t(self, va, vb, cd):
        """join that records control dependence: a value that differs between the merging paths depends on the
        conditions of the branches still open at the merge"""
        if va is vb:
            return va
        if isinstance(va, StructV) and isinstance(vb, StructV) and va.adt == vb.adt:
            f = {}
            same = True
            for n, x in va.fields.items():
                if n in vb.fields:
                    y = self.join_t(x, vb.fields[n], cd)
                    f[n] = y
                    if y is not x:
                        same = False
                else:
                    same = False
            return va if same and len(f) == len(va.fields) else StructV(va.adt, f)
        if isinstance(va, TupleV) and isinstance(vb, TupleV) and len(va.items) == len(vb.items):
            items = [self.join_t(x, y, cd) for x, y in zip(va.items, vb.items)]
            return va if all(a is b for a, b in zip(items, va.items)) else TupleV(items)
        if isinstance(va, VecV) and isinstance(vb, VecV) and va.elems is not None and vb.elems is not None and len(va.elems) == len(vb.elems):
            el = [self.join_t(x, y, cd) for x, y in zip(va.elems, vb.elems)]
            return va if all(a is b for a, b in zip(el, va.elems)) else VecV(el, elem_ty=va.elem_ty)
        j = join(va, vb)
        if j is va and not isinstance(va, (IntV, BoolV, FloatV, EnumV)):
            return j
        return taint(j, cd)

    def gjoin(self, va, vb, gj):
        """guarded join (if-conversion) for XOR-linear code: va holds when cond==gj[1], vb otherwise"""
        if va is vb:
            return va
        if isinstance(va, IntV) and isinstance(vb, IntV) and va.ty == vb.ty and va.bits is not None and vb.bits is not None:
            c, p = gj
            out = []
            lin = True
            for x, y in zip(va.bits, vb.bits):
                if x == y:
                    out.append(x)
                elif x != TBIT and y != TBIT and bit_xor(x, y) == 1:
                    out.append(bit_xor(bit_xor(x, c), p))
                elif bit_mux(c, p, x, y) is not None:
                    out.append(bit_mux(c, p, x, y))
                else:
                    out.append(TBIT)
                    lin = False
            return IntV(va.ty, tuple(out), min(va.lo, vb.lo), max(va.hi, vb.hi), None, va.deps | vb.deps)
        if isinstance(va, IntV) and isinstance(vb, IntV) and va.ty == vb.ty:
            # affine if-conversion:  v = vb + (va - vb) * [cond == p]   when va - vb is a constant
            aa, ab = va.affine(), vb.affine()
            c, p = gj
            if aa is not None and ab is not None and c != TBIT and not bit_is_const(c):
                d = aa.add(ab, -1)
                if d.is_const():
                    from .domain import Aff
                    atom = ("b", c[1]) if c[0] == "b" else ("x", c[1], c[2])
                    # [cond == p] = c if p == 1 else 1 - c
                    if p == 1:
                        ind = Aff(0, {atom: 1})
                    else:
                        ind = Aff(1, {atom: -1})
                    aff = ab.add(ind.scale(d.c))
                    return IntV(va.ty, None, min(va.lo, vb.lo), max(va.hi, vb.hi), aff, va.deps | vb.deps | va.deps)
        if isinstance(va, BoolV) and isinstance(vb, BoolV) and va.bit is not None and vb.bit is not None:
            c, p = gj
            x, y = va.bit, vb.bit
            if x == y:
                return va
            if x != TBIT and y != TBIT and bit_xor(x, y) == 1:
                return BoolV(None, None, va.deps | vb.deps, None, bit_xor(bit_xor(x, c), p))
            m = bit_mux(c, p, x, y)
            if m is not None:
                return BoolV(None if not bit_is_const(m) else bool(m), None, va.deps | vb.deps, None, m)
            return join(va, vb)
        if isinstance(va, RefV) and isinstance(vb, RefV) and (va.cell != vb.cell or va.proj != vb.proj) and not va.mut and not vb.mut:
            c, p = gj
            if c != TBIT and not bit_is_const(c) and isinstance(c, tuple) and c[0] in ("b", "x"):
                return ChoiceV(c, va if p == 1 else vb, vb if p == 1 else va)
        if isinstance(va, VecV) and isinstance(vb, VecV) and va.elems is not None and vb.elems is not None and len(va.elems) == len(vb.elems):
            return VecV([self.gjoin(x, y, gj) for x, y in zip(va.elems, vb.elems)], elem_ty=va.elem_ty)
        if isinstance(va, TupleV) and isinstance(vb, TupleV) and len(va.items) == len(vb.items):
            return TupleV([self.gjoin(x, y, gj) for x, y in zip(va.items, vb.items)])
        return join(va, vb)

    def widen_state(self, old, new):
        """interval widening on ints that grew (used after unroll fuel is exhausted)"""
        for fid in new.stack:
            lo_ = old.fr.get(fid, {})
            for l, v in list(new.fr[fid].items()):
                ov = lo_.get(l)
                if isinstance(v, IntV) and isinstance(ov, IntV) and (v.lo < ov.lo or v.hi > ov.hi):
                    tlo, thi = ty_range(v.ty)
                    new.fr[fid][l] = IntV(v.ty, None, tlo if v.lo < ov.lo else v.lo, thi if v.hi > ov.hi else v.hi, None, v.deps)
                elif isinstance(v, VecV) and isinstance(ov, VecV) and v.elems is None:
                    new.fr[fid][l] = VecV(None, IntV("usize"), v.summary, v.elem_ty)
        from .domain import LayoutV
        for c, v in list(new.heap.items()):
            ov = old.heap.get(c)
            if isinstance(v, LayoutV) and isinstance(ov, LayoutV) and len(v.cells) > len(ov.cells):
                new.heap[c] = LayoutV(ov.cells, True, v.issues)
        return new

    # ------------------------------------------------------------------ evaluation
    def const(self, c):
        ty = c["ty"]
        if "int" in c:
            if ty == "bool":
                return BoolV(bool(int(c["int"])))
            if ty in INT_TYPES:
                return IntV.const(ty, int(c["int"]))
            return Top(why="int const of type %s" % ty)
        if "float_bits" in c:
            import struct
            bits = int(c["float_bits"])
            f = struct.unpack("<d", struct.pack("<Q", bits))[0] if c.get("float_size") == 8 else struct.unpack("<f", struct.pack("<I", bits))[0]
            return FloatV(f, f, ty=ty, term=f)
        if "str" in c:
            return StrV("lit", text=c["str"])
        if "fn" in c:
            return FnV(c.get("instance") or c["fn"])
        if "promoted" in c:
            return ("promoted", c["def"], c["promoted"])
        if "value" in c:
            v = _structured_const(c["value"])
            if v is not None:
                return ("constref", v) if c.get("is_ref") else v
        if "array" in c and c.get("elem_ty") in INT_TYPES:
            ety = c["elem_ty"]
            v = VecV([IntV.const(ety, int(x)) for x in c["array"]], elem_ty=ety)
            return ("constref", v) if c.get("is_ref") else v
        if c.get("zst"):
            if "{closure" in ty:
                return ClosureV(ty, ())
            return TupleV(())
        return OpaqueV(ty, ("const", c.get("opaque")))

    def _materialise(self, state, v):
        """give the references stored inside a structured constant their (immutable) cells"""
        if not _has_cref(v):
            return v
        if isinstance(v, _CRef):
            cid = self.new_cell(state, self._materialise(state, v.v))
            self.const_cells.add(cid)
            return RefV(cid)
        if isinstance(v, TupleV):
            return TupleV([self._materialise(state, x) for x in v.items])
        if isinstance(v, VecV):
            return VecV([self._materialise(state, x) for x in v.elems])
        if isinstance(v, StructV):
            return StructV(v.adt, {k: self._materialise(state, x) for k, x in v.fields.items()})
        if isinstance(v, EnumV):
            return EnumV(v.adt, {n: (tuple(self._materialise(state, x) for x in pl), g) for n, (pl, g) in v.variants.items()})
        return v

    def operand(self, state, fid, op):
        if "const" in op:
            v = self.const(op["const"])
            if isinstance(v, tuple) and v[0] == "promoted":
                return self.eval_promoted(state, v[1], v[2])
            if isinstance(v, tuple) and v[0] == "constref":
                cid = self.new_cell(state, self._materialise(state, v[1]))
                self.const_cells.add(cid)          # immutable data: survives joins even if only one side created it
                return RefV(cid)
            return self._materialise(state, v)
        pl = op.get("copy") or op.get("move")
        if pl is None:
            return Top(why="operand %s" % list(op))
        cell, path = self.locate(state, fid, pl)
        v = self.get_path(state, cell, path)
        if isinstance(v, _Variant):
            v = TupleV(v.payload)
        if isinstance(v, TupleV) and len(v.items) <= 4:
            return self.resolve_deep(state, v)      # a small tuple copied as a whole keeps what the branches learnt about its items
        return self.resolve(state, v)

    def eval_promoted(self, state, defname, idx):
        name = "%s::{promoted#%d}" % (defname, idx)
        b = self.facts.bodies.get(name)
        if b is None:
            return Top(why="promoted %s" % name)
        cached = self._promoted.get(name)
        if cached is None:
            scratch = State()
            fid = None
            s2, v = self.run_body(scratch, b, [], keep_frame=True)
            cached = (s2, v)
            self._promoted[name] = cached
        s2, v = cached
        return self.import_value(state, s2, v, {})

    def import_value(self, state, src, v, memo):
        """copy a value computed in another state into `state`, re-homing referenced cells on the heap"""
        if isinstance(v, RefV):
            if v.cell not in memo:
                tgt = self.cell_get(src, v.cell)
                cid = ("h", next(self._cell))
                memo[v.cell] = cid
                self.const_cells.add(cid)          # promoted constants are immutable
                state.heap[cid] = self.import_value(state, src, tgt, memo)
            return RefV(memo[v.cell], v.proj, v.mut)
        if isinstance(v, TupleV):
            return TupleV([self.import_value(state, src, x, memo) for x in v.items])
        if isinstance(v, VecV) and v.elems is not None:
            return VecV([self.import_value(state, src, x, memo) for x in v.elems], elem_ty=v.elem_ty)
        if isinstance(v, StructV):
            return StructV(v.adt, {k: self.import_value(state, src, x, memo) for k, x in v.fields.items()})
        if isinstance(v, EnumV):
            return EnumV(v.adt, {n: (tuple(self.import_value(state, src, x, memo) for x in pl), g) for n, (pl, g) in v.variants.items()})
        return v

    def rvalue(self, state, fid, body, rv, dest_ty):
        k = rv["k"]
        if k == "use":
            return self.operand(state, fid, rv["x"])
        if k == "bin":
            a = self.operand(state, fid, rv["l"])
            b = self.operand(state, fid, rv["r"])
            r = self.binop(rv["op"], a, b, rv["lty"], dest_ty)
            return self.number(state, ("bin", rv["op"]), (a, b), r)
        if k == "un":
            a = self.operand(state, fid, rv["x"])
            op = rv["op"]
            if op == "PtrMetadata":
                tgt = a
                if isinstance(a, RefV):
                    tgt = self.get_path(state, a.cell, a.proj)
                if isinstance(tgt, VecV):
                    return tgt.length
                if isinstance(tgt, StrV) and tgt.skind == "lit":
                    return IntV.const("usize", len(tgt.text.encode()))
                return IntV("usize", deps=deps_of(tgt))
            if isinstance(a, BoolV):
                return ops.bool_not(a) if op == "Not" else Top(a.deps, "unop on bool")
            if isinstance(a, IntV):
                return self.number(state, ("un", op), (a,), ops.int_unop(op, a, a.ty))
            if isinstance(a, FloatV) and op == "Neg":
                return FloatV(-a.hi, -a.lo, a.deps, ("neg", a.term), a.ty)
            return Top(deps_of(a), "unop %s on %s" % (op, a.kind))
        if k == "cast":
            a = self.operand(state, fid, rv["x"])
            r = self.cast(state, rv["kind"], a, rv["to"], rv["from"])
            if isinstance(r, IntV) and isinstance(a, IntV) and r.sid is not None and r.sid == a.sid:
                return r
            return self.number(state, ("cast", rv["to"]["s"]), (a,), r)
        if k == "ref":
            cell, path = self.locate(state, fid, rv["place"])
            path = tuple(p for p in path)
            if path and path[-1] == ("deref",):
                # `&*x` where x is a reference the domain represents by its referent's value (a &str held as StrV, ...):
                # the reborrow is that same reference - not a pointer into this frame, which would dangle after return
                v = self.get_path(state, cell, path[:-1])
                if v is not None and not isinstance(v, RefV):
                    return v
            return RefV(cell, path, rv["mut"])
        if k == "rawptr":
            cell, path = self.locate(state, fid, rv["place"])
            return RefV(cell, path, True)
        if k == "copy_for_deref":
            cell, path = self.locate(state, fid, rv["place"])
            return self.resolve(state, self.get_path(state, cell, path))
        if k == "discr":
            cell, path = self.locate(state, fid, rv["place"])
            v = self.get_path(state, cell, path)
            return self.discriminant(v, cell, path)
        if k == "agg":
            vals = [self.operand(state, fid, o) for o in rv["ops"]]
            a = rv["agg"]
            if a == "tuple":
                return TupleV(vals)
            if a == "array":
                return VecV(vals, elem_ty=rv.get("elem"))
            if a == "adt":
                adt = rv["adt"]
                info = self.facts.adts.get(adt)
                is_enum = (info and info["kind"] == "enum") or adt in STD_ENUMS
                if is_enum:
                    # facts learnt since the function was entered hold whenever THIS construction is the one observed
                    g = {}
                    snap = self.entry_snap.get(fid)
                    if snap is not None:
                        dk = {b: v for b, v in state.kb.items() if snap[0].get(b) != v}
                        if dk:
                            g["kb"] = dk
                        dc = {k: v for k, v in state.cons.items() if snap[1].get(k) != v}
                        if dc:
                            g["cons"] = dc
                        dp = state.pc - snap[2]
                        if dp:
                            g["pc"] = dp
                    return EnumV(adt, {rv["variant"]: (tuple(vals), g)})
                if adt.endswith("RangeInclusive") or adt.endswith("ops::Range"):
                    return StructV(adt, dict(zip(rv["fields"], vals)))
                return StructV(adt, dict(zip(rv["fields"], vals)))
            if a == "closure":
                return ClosureV(rv["closure"], vals)
            return Top(why="aggregate %s" % a)
        if k == "repeat":
            x = self.operand(state, fid, rv["x"])
            n = rv.get("n")
            if n is not None and n <= 4096:
                return VecV([x] * n)
            return VecV(None, IntV.const("usize", n) if n is not None else None, x)
        return Top(why="rvalue %s" % k)

    def number(self, state, opkey, operands, r):
        """global value numbering: the same operation on the same identities yields the same identity,
        so a refinement learnt on one computation applies to its recomputation"""
        tgt = r.items[0] if isinstance(r, TupleV) and r.items and isinstance(r.items[0], IntV) else r
        if not isinstance(tgt, IntV) or tgt.is_const():
            return r
        ks = []
        for o in operands:
            if isinstance(o, IntV):
                if o.is_const():
                    ks.append(("c", o.ty, o.lo))
                elif o.sid is not None:
                    ks.append(("s", o.sid))
                else:
                    return r
            else:
                return r
        key = (opkey, tuple(ks))
        sid = self.vn.get(key)
        if sid is None:
            sid = fresh_sid()
            self.vn[key] = sid
        nt = self.resolve(state, tgt._with(sid=sid))
        if isinstance(r, TupleV):
            return TupleV((nt,) + r.items[1:])
        return nt

    def discriminant(self, v, cell, path):
        if isinstance(v, EnumV):
            order = self.variant_order(v.adt)
            if order:
                idxs = sorted(order.index(n) for n in v.variants if n in order)
                if idxs:
                    d = set()
                    for pl, g in v.variants.values():
                        d |= set(g.get("deps", ()))
                    return IntV("isize", None, idxs[0], idxs[-1], None, deps_of(v) if len(idxs) > 1 else frozenset(),
                                fresh_sid(), ("discr", cell, path, tuple(idxs)))
            return IntV("isize", None, 0, 16, None, deps_of(v), None, ("discr", cell, path, None))
        return IntV("isize", None, 0, 64, None, deps_of(v) if v is not None else frozenset(), None, ("discr", cell, path, None))

    def variant_order(self, adt):
        if adt in STD_ENUMS:
            return STD_ENUMS[adt]
        info = self.facts.adts.get(adt)
        if info and info["kind"] == "enum":
            return [v["name"] for v in info["variants"]]
        return None

    def binop(self, op, a, b, lty, dest_ty):
        base = op[:-len("WithOverflow")] if op.endswith("WithOverflow") else op
        if isinstance(a, IntV) and isinstance(b, IntV):
            if base in ("Shl", "Shr"):
                ty = a.ty
            else:
                ty = a.ty
            r = ops.int_binop(op, a, b, ty)
            if isinstance(r, tuple):
                return TupleV(r)
            return r
        if isinstance(a, BoolV) and isinstance(b, BoolV):
            if base in ("BitAnd", "BitOr", "BitXor", "Eq", "Ne"):
                va, vb = a.val, b.val
                # exact bit expression of the result when both flags have one (frame bits / XOR sets / truth tables)
                rb = None
                if a.bit is not None and b.bit is not None and a.bit != TBIT and b.bit != TBIT:
                    from .domain import bit_and, bit_or
                    if base in ("BitXor", "Ne"):
                        rb = bit_xor(a.bit, b.bit)
                    elif base == "Eq":
                        x = bit_xor(a.bit, b.bit)
                        rb = bit_xor(x, 1) if x != TBIT else TBIT
                    elif base == "BitAnd":
                        rb = bit_and(a.bit, b.bit)
                    else:
                        rb = bit_or(a.bit, b.bit)
                    if rb == TBIT:
                        rb = None
                if base == "BitAnd":
                    val = False if (va is False or vb is False) else (True if (va and vb) else None)
                    if val is None and rb is not None and bit_is_const(rb):
                        val = bool(rb)
                    return BoolV(val, ("and", (a, b)), a.deps | b.deps, None, rb if val is None else None)
                if base == "BitOr":
                    val = True if (va or vb) else (False if (va is False and vb is False) else None)
                    if val is None and rb is not None and bit_is_const(rb):
                        val = bool(rb)
                    return BoolV(val, ("or", (a, b)), a.deps | b.deps, None, rb if val is None else None)
                val = None if va is None or vb is None else ((va != vb) if base in ("BitXor", "Ne") else (va == vb))
                if val is None and rb is not None and bit_is_const(rb):
                    val = bool(rb)
                return BoolV(val, None, a.deps | b.deps, None, rb if val is None else None)
        if isinstance(a, FloatV) and isinstance(b, FloatV):
            return ops.float_binop(base, a, b)
        if isinstance(a, IntV) and isinstance(b, BoolV) or isinstance(a, BoolV) and isinstance(b, IntV):
            return Top(deps_of(a) | deps_of(b), "mixed bool/int op")
        d = deps_of(a) | deps_of(b)
        if base in ("Eq", "Ne", "Lt", "Le", "Gt", "Ge"):
            return BoolV(None, None, d)
        if op.endswith("WithOverflow"):
            return TupleV([Top(d, "op on unknown"), BoolV(None, None, d)])
        return Top(d, "binop %s on %s/%s" % (op, getattr(a, "kind", "?"), getattr(b, "kind", "?")))

    def cast(self, state, kind, a, to, frm):
        ts = to["s"]
        if kind.startswith("IntToInt"):
            if isinstance(a, BoolV):
                if ts in INT_TYPES:
                    return ops.bool_to_int(a, ts)
            if isinstance(a, IntV) and ts in INT_TYPES:
                return ops.cast_int(a, ts)
            return Top(deps_of(a), "int cast of %s" % a.kind)
        if kind.startswith("IntToFloat"):
            if isinstance(a, IntV):
                return ops.int_to_float(a, ts)
            return FloatV(deps=deps_of(a), ty=ts)
        if kind.startswith("FloatToInt"):
            if isinstance(a, FloatV) and ts in INT_TYPES:
                return ops.float_to_int(a, ts)
            return IntV(ts, deps=deps_of(a)) if ts in INT_TYPES else Top(deps_of(a), "float->int")
        if kind.startswith("FloatToFloat"):
            if isinstance(a, FloatV):
                return FloatV(a.lo, a.hi, a.deps, a.term, ts, a.sid)
            return FloatV(deps=deps_of(a), ty=ts)
        if kind.startswith("PointerCoercion") or kind.startswith("Transmute") or kind.startswith("PtrToPtr"):
            # unsize &[T;N] -> &[T], closure -> fn pointer, etc: value is unchanged in our model
            return a
        return Top(deps_of(a), "cast %s" % kind)

    # ------------------------------------------------------------------ body execution
    def run_body(self, state, body, args, closure_env=None, keep_frame=False):
        """Interpret `body` with abstract `args` on `state` (which is consumed).  Returns (state', return value).
        Raises Diverge if no path returns."""
        self.depth += 1
        if self.depth > 60:
            self.depth -= 1
            raise Broken("E2: call depth exceeded in %s" % body.name)
        self.entered.add(body.name)
        cfg = self.cfg(body)
        loops, rpo, inloops = self.loopinfo[body.name]
        fid = next(self._frame)
        state.fr[fid] = {}
        state.stack.append(fid)
        entry_kb, entry_cons, entry_pc = dict(state.kb), dict(state.cons), state.pc
        self.entry_snap[fid] = (entry_kb, entry_cons, entry_pc)
        for i, a in enumerate(args):
            state.fr[fid][i + 1] = a
        work = []
        stored = {}
        counter = itertools.count()
        key0 = (0, ())
        stored[key0] = state
        heapq.heappush(work, (0, rpo.get(0, 0), (), next(counter), key0))
        inq = {key0}
        ret_state = None
        ret_changed = False
        visits = {}
        while work:
            _, _, _, _, key = heapq.heappop(work)
            inq.discard(key)
            st = stored[key].copy()
            bb, ctx = key
            visits[key] = visits.get(key, 0) + 1
            if visits[key] > 60:
                raise Broken("E2: no fixpoint at %s bb%d" % (body.name, bb))
            outs = self.exec_block(st, fid, body, bb)
            for (tgt, ost) in outs:
                if tgt == "return":
                    rv0 = ost.fr[fid].get(0)
                    if isinstance(rv0, EnumV) and rv0.variants:
                        # remember under which facts THIS path produced its variant(s) (restored when the caller matches on them)
                        dk = {b: v for b, v in ost.kb.items() if entry_kb.get(b) != v}
                        dc = {k: v for k, v in ost.cons.items() if entry_cons.get(k) != v}
                        dp = ost.pc - entry_pc
                        nv = {}
                        chg = False
                        for n0, (pl0, g0) in rv0.variants.items():
                            g = dict(g0)
                            if dk:
                                kk = dict(dk)
                                kk.update(g.get("kb", {}))
                                g["kb"] = kk
                            if dc:
                                cc = dict(dc)
                                cc.update(g.get("cons", {}))
                                g["cons"] = cc
                            if dp:
                                g["pc"] = frozenset(g.get("pc", frozenset())) | dp
                            if g != g0:
                                chg = True
                            nv[n0] = (pl0, g)
                        if chg:
                            ost.fr[fid][0] = EnumV(rv0.adt, nv)
                    if ret_state is None:
                        ret_state = ost
                    else:
                        ret_state, _ = self.join_states(ret_state, ost)
                    continue
                nctx = self.next_ctx(ctx, bb, tgt, loops, inloops)
                nkey = (tgt, nctx)
                if nkey in stored:
                    old = stored[nkey]
                    js, ch = self.join_states(old, ost)
                    if not ch:
                        continue
                    if any(c[1] == "w" for c in nctx) and tgt in loops:
                        js = self.widen_state(old, js)
                    stored[nkey] = js
                else:
                    stored[nkey] = ost
                if nkey not in inq:
                    inq.add(nkey)
                    # blocks of an earlier unrolled iteration first: the header of iteration n+1 then sees the merged state of
                    # all paths of iteration n at once (partial merges are sound but cost precision in sequence-valued domains)
                    heapq.heappush(work, (_ctx_total(nctx), rpo.get(tgt, 0), _ctx_order(nctx), next(counter), nkey))
        self.depth -= 1
        if ret_state is None:
            raise Diverge(body.name)
        rv = ret_state.fr[fid].get(0)
        if rv is None:
            rv = TupleV(())
        cd = ret_state.ctl_deps(fid)
        if cd:
            rv = taint(rv, cd)
        for k in [k for k in ret_state.ctl if k[0] == fid]:
            del ret_state.ctl[k]
        if not keep_frame:
            del ret_state.fr[fid]
            ret_state.stack.pop()
        return ret_state, rv

    def next_ctx(self, ctx, frm, to, loops, inloops):
        lf = inloops.get(frm, set())
        lt = inloops.get(to, set())
        c = [x for x in ctx if x[0] in lt]
        d = dict(c)
        if to in loops:
            if to in lf and to in d:
                # back edge (or re-entry): next iteration
                n = d[to]
                if n == "w":
                    pass
                elif n + 1 >= UNROLL_FUEL:
                    d[to] = "w"
                else:
                    d[to] = n + 1
            elif to not in d:
                d[to] = 0
        for h in lt:
            if h not in d:
                d[h] = 0
        return tuple(sorted(d.items(), key=lambda x: str(x[0])))

    def exec_block(self, state, fid, body, bb):
        blk = body.blocks[bb]
        self._cur = (fid, bb)
        # control dependence ends where the branch is post-dominated
        if state.ctl:
            cfg = self.cfgs.get(body.name)
            for k in [k for k in state.ctl if k[0] == fid and k[1] != bb]:
                if cfg is not None and self.postdominates(body, cfg, bb, k[1]):
                    del state.ctl[k]
        for s in blk["stmts"]:
            self.steps += 1
            if s["k"] == "assign":
                pl = s["place"]
                dty = None
                if not pl["proj"]:
                    dty = body.locals[pl["local"]]["ty"]["s"]
                v = self.rvalue(state, fid, body, s["rv"], dty)
                if isinstance(v, IntV) and v.sid is None and not v.is_const():
                    v = v._with(sid=fresh_sid())
                cell, path = self.locate(state, fid, pl)
                self.on_store(state, cell, path, v, s)
                self.set_path(state, cell, path, v)
            elif s["k"] == "setdiscr":
                pass
            else:
                self.warn("stmt", s.get("s", s["k"]))
        if self.steps > self.max_steps:
            raise Broken("E2: step budget exceeded in %s" % body.name)
        t = blk["term"]
        k = t["k"]
        if k == "goto":
            return [(t["target"], state)]
        if k == "return":
            return [("return", state)]
        if k in ("unreachable", "resume", "terminate"):
            return []
        if k == "drop":
            return [(t["target"], state)]
        if k == "assert":
            c = self.operand(state, fid, t["cond"])
            exp = t["expected"]
            ok = isinstance(c, BoolV) and c.val is not None and c.val == exp
            bad = isinstance(c, BoolV) and c.val is not None and c.val != exp
            self.obligation(body, bb, t, ok, state, fid)
            if bad:
                return []
            if isinstance(c, BoolV) and not self.refine(state, c, exp):
                return []
            return [(t["target"], state)]
        if k == "switch":
            return self.exec_switch(state, fid, body, bb, t)
        if k == "call":
            return self.exec_call(state, fid, body, bb, t)
        self.warn("terminator", k)
        return []

    def exec_switch(self, state, fid, body, bb, t):
        d = self.operand(state, fid, t["discr"])
        outs = []
        targets = [(int(v), b) for v, b in t["targets"]]
        if isinstance(d, BoolV):
            if d.val is None and "gate_preds" in self.side and body.name.endswith("get_message"):
                # an undecided decision taken by the line gate itself (early-return style) is a gate predicate
                x = d
                while x.origin and x.origin[0] == "not" and isinstance(x.origin[1], BoolV):
                    x = x.origin[1]
                self.side["gate_preds"].append(x)
            for v, b in targets:
                truth = bool(v)
                if d.val is not None and d.val != truth:
                    continue
                st = state.copy() if d.val is None else state
                if not self.refine(st, d, truth):
                    continue
                self.note_branch(st, d, truth)
                self._arm(st, b)
                outs.append((b, st))
            # otherwise: the remaining truth value(s)
            rest = {True, False} - {bool(v) for v, _ in targets}
            for truth in rest:
                if d.val is not None and d.val != truth:
                    continue
                st = state.copy() if (d.val is None) else state
                if not self.refine(st, d, truth):
                    continue
                self.note_branch(st, d, truth)
                self._arm(st, t["otherwise"])
                outs.append((t["otherwise"], st))
            return self._merge_same_target(outs)
        if isinstance(d, IntV):
            covered = []
            if d.is_const():
                for v, b in targets:
                    if v == d.lo:
                        return [(b, state)]
                return [(t["otherwise"], state)]
            if d.deps and self._cur is not None:
                state.ctl[self._cur] = (state.ctl.get(self._cur, (frozenset(), None))[0] | d.deps, None)
            dvals = d.values()
            for v, b in targets:
                if v < d.lo or v > d.hi:
                    continue
                if dvals is not None and v not in dvals:
                    continue
                st = state.copy()
                bv = ops.compare("Eq", d, IntV.const(d.ty, v))
                if bv.val is False:
                    continue
                if not self.refine(st, bv, True):
                    continue
                if not self.refine_discr(st, d, v):
                    continue
                self.note_branch(st, bv, True)
                covered.append(v)
                self._arm(st, b)
                outs.append((b, st))
            # otherwise edge: feasible unless every possible value is an explicit target
            st = state
            feas = True
            tv = {v for v, _ in targets}
            if d.hi - d.lo < 4096 and all(x in tv for x in range(d.lo, d.hi + 1)):
                feas = False
            if dvals is not None and all(x in tv for x in dvals):
                feas = False
            if feas and d.term and d.term[0] == "discr" and d.term[3] is not None and all(i in tv for i in d.term[3]):
                feas = False
            if feas:
                st = state.copy()
                for v in sorted(tv):
                    bv = ops.compare("Ne", self.resolve(st, d), IntV.const(d.ty, v))
                    if not self.refine(st, bv, True):
                        feas = False
                        break
                if feas and not self.refine_discr(st, d, None, exclude=tv):
                    feas = False
                if feas:
                    st.guard = None
                    # a one-bit discriminant: `otherwise` after excluding 0 means the bit is 1
                    if d.bits is not None and tv == {0}:
                        nz = [x for x in d.bits if x != 0]
                        if len(nz) == 1 and d.bits[0] == nz[0] and not bit_is_const(nz[0]) and nz[0] != TBIT:
                            st.guard = _norm_guard(nz[0], True)
                    self._arm(st, t["otherwise"])
                    outs.append((t["otherwise"], st))
            return self._merge_same_target(outs)
        # unknown discriminant: all edges feasible
        self.warn("switch", "switch on %s in %s" % (getattr(d, "kind", d), body.name))
        seen = set()
        for v, b in targets + [(None, t["otherwise"])]:
            if b not in seen:
                seen.add(b)
                st = state.copy()
                st.guard = None
                self._arm(st, b)
                outs.append((b, st))
        return outs

    def _arm(self, st, target):
        k = self._cur
        if k in st.ctl:
            st.ctl[k] = (st.ctl[k][0], target)

    def _merge_same_target(self, outs):
        res = {}
        order = []
        for b, st in outs:
            if b in res:
                res[b], _ = self.join_states(res[b], st)
            else:
                res[b] = st
                order.append(b)
        return [(b, res[b]) for b in order]

    def note_atoms(self, state, b, truth):
        """only the path-condition atoms of `b == truth` (no control dependence, no if-conversion guard): used when a fact
        is re-established from a truth guard rather than by branching here"""
        g = state.guard
        self.note_branch(state, b, truth, atoms_only=True)
        state.guard = g

    def note_branch(self, state, b, truth, atoms_only=False):
        """record guard (for if-conversion at the next join) and path-condition atom"""
        state.guard = None
        if b.val is None and b.deps and self._cur is not None and not atoms_only:
            k = self._cur
            state.ctl[k] = (state.ctl.get(k, (frozenset(), None))[0] | b.deps, None)
        if b.bit is not None and b.val is None and b.bit != TBIT and not bit_is_const(b.bit):
            state.guard = _norm_guard(b.bit, bool(truth))
        o = b.origin
        neg = False
        inner = b
        while o is not None and o[0] == "not":
            neg = not neg
            inner = o[1]
            o = o[1].origin
        if o is not None and o[0] == "cmp" and o[1] in ("Ne", "Eq"):
            a, c = o[2], o[3]
            if isinstance(a, IntV) and isinstance(c, IntV) and c.is_const() and a.bits is not None:
                nz = [x for x in a.bits if x != 0]
                if len(nz) == 1 and not bit_is_const(nz[0]) and nz[0] != TBIT:
                    i = a.bits.index(nz[0])
                    # a is 0 or 2^i ; (a != 0) <=> bit
                    bit_true = None
                    if c.lo == 0:
                        bit_true = (o[1] == "Ne")
                    elif c.lo == (1 << i):
                        bit_true = (o[1] == "Eq")
                    if bit_true is not None and state.guard is None:
                        cond_true = truth != neg
                        # bit value on this edge
                        val = cond_true == bit_true
                        state.guard = _norm_guard(nz[0], val)
        if b.val is not None:
            return
        # a false disjunction / a true conjunction: every component holds with that truth value
        if o is not None and o[0] in ("or", "and") and b.term is None:
            cond_true = truth != neg
            if (o[0] == "or" and not cond_true) or (o[0] == "and" and cond_true):
                g = state.guard
                for x in o[1]:
                    if isinstance(x, BoolV) and x.val is None:
                        self.note_branch(state, x, cond_true, atoms_only)
                state.guard = g
            return
        term = b.term
        if term is None and inner is not b and isinstance(inner, BoolV) and inner.term is not None:
            # `!p` where p carries a symbolic term (range test, ...): the atom is p with the flipped truth value
            state.pc = state.pc | {(inner.term, truth != neg)}
            return
        if term is None and o is not None and o[0] in ("cmp", "fcmp"):
            term = (o[1], _vterm(o[2]), _vterm(o[3]))
            if "atom_vals" in self.side:
                from .domain import show_term as _st
                self.side["atom_vals"][_st(term)] = (o[2], o[3])      # the compared values themselves (rules may need their bits)
        if term is not None:
            state.pc = state.pc | {(term, truth != neg if b.term is None else truth)}

    def refine_discr(self, state, d, value, exclude=None):
        """switch on a discriminant: narrow the enum at its place and install the variant's guard"""
        if not (d.term and d.term[0] == "discr"):
            return True
        _, cell, path, idxs = d.term
        v = self.get_path(state, cell, path)
        if not isinstance(v, EnumV):
            return True
        order = self.variant_order(v.adt)
        if not order:
            return True
        if value is not None:
            if value >= len(order) or order[value] not in v.variants:
                return False
            n = order[value]
            nv = EnumV(v.adt, {n: v.variants[n]})
            self.set_path(state, cell, path, nv)
            return self.install_guard(state, v.variants[n][1], narrowed=len(v.variants) > 1)
        keep = {n: pv for n, pv in v.variants.items() if n in order and order.index(n) not in (exclude or ())}
        if not keep:
            return False
        self.set_path(state, cell, path, EnumV(v.adt, keep))
        if len(keep) == 1:
            return self.install_guard(state, list(keep.values())[0][1], narrowed=len(v.variants) > 1)
        return True

    # ------------------------------------------------------------------ obligations / events
    def obligation(self, body, bb, t, ok, state, fid):
        sp = t.get("span") or {}
        kind = t["kind"]
        ops_ = []
        for o in t.get("ops", []):
            v = self.operand(state, fid, o)
            ops_.append(repr(v))
        site = "%s : %s(%s)" % (body.name, kind, ", ".join(_opshape(body, o) for o in t.get("ops", [])))
        self.obligations.append({"site": site, "kind": kind, "ok": ok, "ops": ops_, "loc": span_loc(sp), "ctx": self.ctx_label,
                                 "body": body.name, "line_in_fn": (sp.get("line", 0) - (body.j["span"] or {}).get("line", 0))})

    def call_obligation(self, body, t, what, ok, detail=""):
        sp = t.get("span") or {}
        self.obligations.append({"site": "%s : %s" % (body.name, what), "kind": what, "ok": ok, "ops": [detail], "loc": span_loc(sp),
                                 "ctx": self.ctx_label, "body": body.name,
                                 "line_in_fn": (sp.get("line", 0) - (body.j["span"] or {}).get("line", 0))})

    def on_store(self, state, cell, path, v, stmt):
        pass

    # ------------------------------------------------------------------ calls
    def exec_call(self, state, fid, body, bb, t):
        self.steps += 1
        c = t["callee"]
        args = [self.operand(state, fid, a) for a in t["args"]]
        name = c.get("instance") or c.get("path")
        if self.trace_names and c.get("name") in self.trace_names:
            self.trace.append((body.name, bb))
            # which enum variants the closures handed to this call have captured (a comparator that dispatches on a captured
            # `Column` is specialised to that variant by the rule that reads the trace)
            caps = {}
            for a in args:
                f = a
                if isinstance(f, RefV):
                    f = self.get_path(state, f.cell, f.proj)
                if isinstance(f, ClosureV):
                    cb_ = self.facts.bodies.get(f.body)
                    names = [x["name"].lstrip("*&") for x in (cb_.j.get("captures") or [])] if cb_ is not None else []
                    for nm_, cv in zip(names, f.captures):
                        for _ in range(3):
                            if isinstance(cv, RefV):
                                cv = self.get_path(state, cv.cell, cv.proj)
                        if isinstance(cv, EnumV) and len(cv.variants) == 1:
                            caps[nm_] = list(cv.variants)[0]
            self.trace_caps.append(caps)
        try:
            st2, rv = self.call(state, c, name, args, body, t)
        except Diverge:
            return []
        if t["target"] is None:
            return []
        if isinstance(rv, IntV) and not rv.is_const() and rv.term is None and rv.affine() is None and name in self.facts.bodies:
            # a crate function's result without an exact form: remember which function produced it
            rv = rv._with(term=("ret", name.split("::")[-1]))
        if isinstance(rv, IntV) and rv.sid is None and not rv.is_const():
            rv = rv._with(sid=fresh_sid())
        rv = _assign_sids(rv)
        # the destination place is evaluated in the callee-returned state
        cell, path = self.locate(st2, fid, t["dest"])
        self.on_store(st2, cell, path, rv, t)
        self.set_path(st2, cell, path, rv)
        return [(t["target"], st2)]

    def call(self, state, callee, name, args, body, term):
        if callee.get("path") in ("std::ops::Fn::call", "std::ops::FnMut::call_mut", "std::ops::FnOnce::call_once") and len(args) == 2:
            # closure call protocol: arguments arrive tupled, the closure body takes them untupled
            tup = args[1]
            f = args[0]
            if isinstance(tup, TupleV):
                fv = f
                if isinstance(fv, RefV):
                    fv = self.get_path(state, fv.cell, fv.proj)
                if isinstance(fv, (ClosureV, FnV)):
                    return self.call_value(state, fv, list(tup.items))
                if name in self.facts.bodies:
                    return self.run_body(state, self.facts.bodies[name], [f] + list(tup.items))
        m = self.models.lookup(callee, name) if self.models else None
        if m is None and name not in self.facts.bodies and callee.get("trait") and not callee.get("instance"):
            # a call on `Self` inside a provided trait method of the crate (`self.flag(..)` in `Bits::valid_field`): the
            # receiver's impl is not known to the polymorphic MIR; when the crate has exactly one impl of that method, it is it
            suffix = " as %s>::%s" % (callee["trait"], callee.get("name"))
            impls = self._impl_cache.get(suffix)
            if impls is None:
                impls = [n for n in self.facts.bodies if n.endswith(suffix) and n.startswith("<")]
                self._impl_cache[suffix] = impls
            if len(impls) == 1:
                name = impls[0]
        if m is not None:
            st2, rv = m(self, state, callee, args, body, term)
        elif name in self.facts.bodies and callee.get("local", True):
            st2, rv = self.run_body(state, self.facts.bodies[name], args)
        elif callee.get("is_closure") and name in self.facts.bodies:
            st2, rv = self.run_body(state, self.facts.bodies[name], args)
        elif self._ctor_of(name) is not None:
            # a tuple-variant / tuple-struct constructor used as a function (`.map(Register::TrackAndTurn)`)
            adt, variant, is_enum = self._ctor_of(name)
            if is_enum:
                # like an aggregate: what was learnt since the enclosing function was entered holds whenever this variant is
                # the one observed (`gated(..).map(Register::TrackAndTurn)` keeps the recogniser's checks)
                g = {}
                snap = self.entry_snap.get(state.stack[-1]) if state.stack else None
                if snap is not None:
                    dk = {b: v for b, v in state.kb.items() if snap[0].get(b) != v}
                    if dk:
                        g["kb"] = dk
                    dc = {k: v for k, v in state.cons.items() if snap[1].get(k) != v}
                    if dc:
                        g["cons"] = dc
                    dp = state.pc - snap[2]
                    if dp:
                        g["pc"] = dp
                st2, rv = state, EnumV(adt, {variant: (tuple(args), g)})
            else:
                info = self.facts.adts[adt]
                fns = [f["name"] for f in info["variants"][0]["fields"]]
                st2, rv = state, StructV(adt, {n_: a_ for n_, a_ in zip(fns, args)})
        else:
            st2, rv = self.unmodelled(state, callee, name, args)
        if name in self.watch:
            self.calllog.append((name, args, rv, self.ctx_label))
        return st2, rv

    def _ctor_of(self, name):
        """(adt, variant, is_enum) when `name` is the path of a tuple-like constructor of a crate type"""
        if not name or "::" not in name:
            return None
        if name in self._impl_cache:
            return self._impl_cache[name]
        out = None
        head, last = name.rsplit("::", 1)
        info = self.facts.adts.get(head)
        if info is not None and info["kind"] == "enum" and any(v["name"] == last for v in info["variants"]):
            out = (head, last, True)
        else:
            info = self.facts.adts.get(name)
            if info is not None and info["kind"] == "struct":
                out = (name, None, False)
        self._impl_cache[name] = out
        return out

    def unmodelled(self, state, callee, name, args):
        self.warn("unmodelled", name or callee.get("ty"))
        # an unreviewed API applied to the input line itself: the result may depend on more than its hex digits
        for a in args:
            v = a
            for _ in range(4):
                if isinstance(v, RefV):
                    v = self.get_path(state, v.cell, v.proj)
            if isinstance(v, StrV) and v.skind == "line":
                self.warn("line-use", "%s applied to the input line" % (name or callee.get("ty")))
            elif isinstance(v, IterV) and v.src is not None and any(
                    (isinstance(e, OpaqueV) and e.ty in ("char*", "byte*")) for e in v.src):
                self.warn("line-use", "%s applied to the characters of the input line" % (name or callee.get("ty")))
        d = frozenset()
        for a in args:
            d |= deps_of(a)
            if isinstance(a, RefV) and a.mut:
                self.set_path(state, a.cell, a.proj, Top(d, "havoc by unmodelled %s" % name))
        return state, Top(d, "result of unmodelled %s" % name)

    def call_value(self, state, f, args):
        """call a closure / fn item value with already-evaluated args"""
        if isinstance(f, RefV):
            f = self.get_path(state, f.cell, f.proj)
        if isinstance(f, ClosureV):
            b = self.facts.bodies.get(f.body)
            if b is None:
                return self.unmodelled(state, {}, f.body, args)
            envty = b.locals[1]["ty"]
            if envty["k"] == "ref":
                cell = self.new_cell(state, f)
                env = RefV(cell, (), envty.get("mut", False))
            else:
                env = f
            return self.run_body(state, b, [env] + list(args))
        if isinstance(f, FnV):
            callee = {"path": f.path, "instance": f.path, "local": f.path in self.facts.bodies, "name": f.path.split("::")[-1]}
            return self.call(state, callee, f.path, list(args), None, {"span": None, "args": []})
        return self.unmodelled(state, {}, "call of %s" % getattr(f, "kind", f), args)


def _same_modulo_deps(j, va):
    """j equals va (a re-tainted copy with no new information) - avoids spurious 'changed' at fixpoints"""
    if type(j) is not type(va):
        return False
    if isinstance(j, IntV):
        return j.lo == va.lo and j.hi == va.hi and j.bits == va.bits and j.aff == va.aff and j.sid == va.sid and j.deps <= va.deps and j.vset == va.vset
    if isinstance(j, BoolV):
        return j.val == va.val and j.bit == va.bit and j.origin is va.origin and j.deps <= va.deps and _geq(j.tg, va.tg) and _geq(j.fg, va.fg)
    if isinstance(j, FloatV):
        return j.lo == va.lo and j.hi == va.hi and j.term == va.term and j.deps <= va.deps
    return False


def _geq(g1, g2):
    if not g1 and not g2:
        return True
    if not g1 or not g2:
        return False
    if g1.get("kb", {}) != g2.get("kb", {}) or g1.get("cons", {}) != g2.get("cons", {}) or g1.get("pc", frozenset()) != g2.get("pc", frozenset()):
        return False
    t1, t2 = g1.get("then", ()), g2.get("then", ())
    return len(t1) == len(t2) and all(x[0] is y[0] and x[1] == y[1] for x, y in zip(t1, t2))


def taint(v, deps):
    """add control dependences to a value (implicit flow of the branches taken inside the callee)"""
    deps = frozenset(d if (isinstance(d, tuple) and d and d[0] == "ctl") else ("ctl", d) for d in deps)
    if isinstance(v, IntV):
        return v if deps <= v.deps else v._with(deps=v.deps | deps)
    if isinstance(v, BoolV):
        return v if deps <= v.deps else BoolV(v.val, v.origin, v.deps | deps, v.term, v.bit, v.tg, v.fg)
    if isinstance(v, FloatV):
        return v if deps <= v.deps else FloatV(v.lo, v.hi, v.deps | deps, v.term, v.ty, v.sid)
    if isinstance(v, EnumV):
        nv = {}
        for n, (pl, g) in v.variants.items():
            g2 = dict(g)
            g2["deps"] = frozenset(g.get("deps", ())) | deps
            nv[n] = (pl, g2)
        return EnumV(v.adt, nv)
    if isinstance(v, TupleV):
        return TupleV([taint(x, deps) for x in v.items])
    return v


def _norm_guard(bit, val):
    """(bit, value) with the complement folded into the value, so that `x == 1` and `!x == 0` are the same guard"""
    if isinstance(bit, tuple) and bit and bit[0] == "x" and bit[2] == 1:
        nb = ("b", next(iter(bit[1]))) if len(bit[1]) == 1 else ("x", bit[1], 0)
        return (nb, not val)
    return (bit, val)


class _CRef:
    """placeholder for a reference stored inside a structured constant"""
    __slots__ = ("v",)

    def __init__(self, v):
        self.v = v


def _has_cref(v):
    if isinstance(v, _CRef):
        return True
    if isinstance(v, TupleV):
        return any(_has_cref(x) for x in v.items)
    if isinstance(v, VecV):
        return v.elems is not None and any(_has_cref(x) for x in v.elems)
    if isinstance(v, StructV):
        return any(_has_cref(x) for x in v.fields.values())
    if isinstance(v, EnumV):
        return any(_has_cref(x) for pl, _ in v.variants.values() for x in pl)
    return False


def _structured_const(j):
    """value of a structured constant dumped by the driver (arrays / tuples of ints, bools, chars, &str)"""
    if "int" in j:
        ty = j.get("ty")
        if ty == "bool":
            return BoolV(bool(int(j["int"])))
        if ty in INT_TYPES:
            return IntV.const(ty, int(j["int"]))
        return None
    if "str" in j:
        return StrV("lit", text=j["str"])
    if "tuple" in j:
        items = [_structured_const(x) for x in j["tuple"]]
        return None if any(x is None for x in items) else TupleV(items)
    if "arr" in j:
        items = [_structured_const(x) for x in j["arr"]]
        return None if any(x is None for x in items) else VecV(items)
    if "ref_arr" in j:
        # a `&[T]` stored inside the constant (a table of tables): the referent gets its own immutable cell when the constant
        # is materialised (Interp._materialise)
        items = [_structured_const(x) for x in j["ref_arr"]]
        return None if any(x is None for x in items) else _CRef(VecV(items))
    if "enum" in j:
        fs = [_structured_const(f) for f in j.get("fields", [])]
        if any(x is None for x in fs):
            return None
        return EnumV(j["enum"], {j["variant"]: (tuple(fs), {})})
    if "struct" in j and (j["struct"].startswith("std::ops::Range") or not j["struct"].split("::")[0] in ("std", "core", "alloc", "chrono")):
        fs = {f["name"]: _structured_const(f["v"]) for f in j.get("fields", [])}
        return None if any(x is None for x in fs.values()) else StructV(j["struct"], fs)
    return None


def _ftab_table_lookup(v, iv):
    """T[idx] for a constant integer table and an index that is an explicit function of a few frame bits: the result is that
    function composed with the table (exact for any table, linear or not - Gray-code steps, digit tables, ...)"""
    if not isinstance(iv, IntV) or iv.is_const():
        return None
    el = v.elems
    if not el or not all(isinstance(e, IntV) and e.is_const() for e in el):
        return None
    ft = ops.ftab_of(iv)
    if ft is None:
        return None
    vals = []
    for i in ft[1]:
        vals.append(el[i].lo if (i is not None and 0 <= i < len(el)) else None)
    if all(x is None for x in vals):
        return None
    return IntV(el[0].ty, None, None, None, None, iv.deps, None, None, None, (ft[0], tuple(vals)))


_LIN_CACHE = {}


def _linear_table_lookup(v, iv):
    """T[idx] for a constant integer table that is GF(2)-linear (T[a^b] = T[a]^T[b], e.g. a CRC byte table) and an index
    whose bits are known symbolically: every result bit is the XOR of the index bits selected by the basis entries."""
    if not isinstance(iv, IntV) or iv.bits is None or iv.is_const():
        return None
    el = v.elems
    n = len(el)
    if n < 2 or n & (n - 1) or n > 65536:
        return None
    key = id(v)
    ent = _LIN_CACHE.get(key)
    if ent is None or ent[0] is not v:
        ok = all(isinstance(e, IntV) and e.is_const() and e.lo >= 0 for e in el)
        basis = None
        if ok:
            T = [e.lo for e in el]
            k = n.bit_length() - 1
            basis = [T[1 << j] for j in range(k)]
            if T[0] != 0:
                ok = False
            else:
                for i in range(n):
                    x = 0
                    for j in range(k):
                        if (i >> j) & 1:
                            x ^= basis[j]
                    if x != T[i]:
                        ok = False
                        break
        ent = (v, ok, basis)
        _LIN_CACHE[key] = ent
    if not ent[1]:
        return None
    basis = ent[2]
    k = len(basis)
    # the index must be inside the table whatever the symbolic bits are
    if any(b != 0 for b in iv.bits[k:]):
        return None
    ty = el[0].ty
    w = INT_TYPES[ty][0]
    out = []
    for b in range(w):
        acc = 0
        for j in range(k):
            if (basis[j] >> b) & 1:
                acc = bit_xor(acc, iv.bits[j])
        out.append(acc)
    hi = 0
    for x in basis:
        hi |= x
    return IntV(ty, tuple(out), 0, hi, None, iv.deps)


class _Variant:
    """transient: the payload of a downcast enum"""
    kind = "variant"

    def __init__(self, payload):
        self.payload = tuple(payload)


def _opshape(body, o):
    if "const" in o:
        c = o["const"]
        return str(c.get("int", c.get("ty")))
    pl = o.get("copy") or o.get("move")
    if pl is None:
        return "?"
    nm = body.locals[pl["local"]].get("name")
    s = nm if nm else "_"
    for p in pl["proj"]:
        if p["k"] == "field":
            s += "." + str(p.get("name") if p.get("name") is not None else p["i"])
        elif p["k"] == "deref":
            s = "*" + s
    return s


def _is_num(s):
    return isinstance(s, str) and s.isdigit()


def _ctx_total(ctx):
    return sum((10 ** 6 if n == "w" else n) for h, n in ctx)


def _ctx_order(ctx):
    return tuple((str(h), 10 ** 9 if n == "w" else n) for h, n in ctx)


def _vterm(v):
    if isinstance(v, IntV):
        if v.is_const():
            return v.lo
        if v.term is not None:
            return v.term
        a = v.affine()
        fd = tuple(sorted(d for d in v.deps if isinstance(d, int)))
        if a is not None:
            return ("aff", a.show(), fd)
        return ("int?", tuple(sorted(v.deps, key=str)), fd)
    if isinstance(v, FloatV):
        if v.is_const():
            return v.lo
        return v.term if v.term is not None else ("float", tuple(sorted(v.deps, key=str)))
    return getattr(v, "term", None) or str(v)
