"""Reviewed models of std / chrono / log callees for the abstract interpreter (one contract each).
A callee that is neither crate-local nor listed here is reported as `unmodelled` and yields Top."""
import math

from . import ops
from .domain import (INT_TYPES, TBIT, bit_is_const, BoolV, ClosureV, EnumV, FloatV, FnV, IntV, IterV, LayoutV, OpaqueV, RefV, StrV, StructV, Top, TupleV,
                     VecV, deps_of, fresh_sid, join, ty_range)
from .interp import Diverge, State

OPT = "std::option::Option"
RES = "std::result::Result"
CF = "std::ops::ControlFlow"


def deref(I, st, v):
    while isinstance(v, RefV):
        v = I.resolve(st, I.get_path(st, v.cell, v.proj))
    return v


def opt_cases(I, st, o):
    """normalise an Option-like value -> EnumV (unknown -> both variants with Top payload)"""
    o = deref(I, st, o)
    if isinstance(o, EnumV):
        return o
    return EnumV(OPT, {"None": ((), {}), "Some": ((Top(deps_of(o) if o is not None else (), "payload of unknown option"),), {})})


def _sn(o):
    return "Some" if o.adt == OPT else "Ok"


def _nn(o):
    return "None" if o.adt == OPT else "Err"


def branch_states(I, st, n):
    return [st] + [st.copy() for _ in range(n - 1)]


def join_results(I, results):
    """results: list of (state, value) -> (state, value) joined"""
    results = [r for r in results if r is not None]
    if not results:
        raise Diverge("model")
    st, v = results[0]
    for s2, v2 in results[1:]:
        st, _ = I.join_states(st, s2)
        v = join(v, v2)
    return st, v


def guard_from(I, before, after, base=None):
    g = dict(base or {})
    d = I.guard_delta(before, after)
    if d.get("cons"):
        c = dict(g.get("cons", {}))
        c.update(d["cons"])
        g["cons"] = c
    if d.get("kb"):
        k = dict(g.get("kb", {}))
        k.update(d["kb"])
        g["kb"] = k
    if d.get("pc"):
        g["pc"] = frozenset(g.get("pc", frozenset())) | d["pc"]
    return g


# --------------------------------------------------------------------------- Option / Result

def m_option_map(I, st, c, args, body, t):
    o = opt_cases(I, st, args[0])
    out = []
    sn, nn = _sn(o), _nn(o)
    if o.may(nn):
        s = st.copy()
        if I.install_guard(s, o.variants[nn][1], narrowed=len(o.variants) > 1):
            out.append((s, EnumV(o.adt, {nn: (o.variants[nn][0], {})})))
    if o.may(sn):
        s = st.copy()
        g = o.variants[sn][1]
        if I.install_guard(s, g, narrowed=len(o.variants) > 1):
            pl = I.resolve(s, o.payload(sn))
            try:
                s2, r = I.call_value(s, args[1], [pl])
                out.append((s2, EnumV(o.adt, {sn: ((r,), g)})))
            except Diverge:
                pass
    return join_results(I, out)


def m_option_and_then(I, st, c, args, body, t):
    o = opt_cases(I, st, args[0])
    out = []
    sn, nn = _sn(o), _nn(o)
    if o.may(nn):
        s = st.copy()
        if I.install_guard(s, o.variants[nn][1], narrowed=len(o.variants) > 1):
            out.append((s, EnumV(o.adt, {nn: (o.variants[nn][0], {})})))
    if o.may(sn):
        s = st.copy()
        g = o.variants[sn][1]
        if I.install_guard(s, g, narrowed=len(o.variants) > 1):
            pl = I.resolve(s, o.payload(sn))
            try:
                s2, r = I.call_value(s, args[1], [pl])
                r = deref(I, s2, r)
                if not isinstance(r, EnumV):
                    r = opt_cases(I, s2, r) if o.adt == OPT else EnumV(RES, {"Ok": ((Top(deps_of(r), "and_then"),), {}), "Err": ((Top(deps_of(r), "and_then"),), {})})
                # the result's variants hold under the outer guard too
                nv = {}
                for n, (p, gg) in r.variants.items():
                    g2 = dict(gg)
                    for k in ("cons", "kb"):
                        if g.get(k):
                            d = dict(g[k])
                            d.update(g2.get(k, {}))
                            g2[k] = d
                    nv[n] = (p, g2)
                out.append((s2, EnumV(r.adt, nv)))
            except Diverge:
                pass
    return join_results(I, out)


def m_option_filter(I, st, c, args, body, t):
    o = opt_cases(I, st, args[0])
    out = []
    if o.may("None"):
        s = st.copy()
        if I.install_guard(s, o.variants["None"][1], narrowed=len(o.variants) > 1):
            out.append((s, EnumV.none(o.adt)))
    if o.may("Some"):
        s = st.copy()
        g = o.variants["Some"][1]
        if I.install_guard(s, g, narrowed=len(o.variants) > 1):
            pl = I.resolve(s, o.payload("Some"))
            cell = I.new_cell(s, pl)
            try:
                s2, r = I.call_value(s, args[1], [RefV(cell)])
                if not isinstance(r, BoolV):
                    r = BoolV(None, None, deps_of(r))
                if body is not None and body.name.endswith("get_message") and "gate_preds" in I.side:
                    I.side["gate_preds"].append(r)
                if r.val is not False:
                    sT = s2.copy()
                    if I.refine(sT, r, True):
                        I.note_atoms(sT, r, True)
                        gT = guard_from(I, st, sT, g)
                        if r.val is None:
                            gT = dict(gT)
                            gT["deps"] = frozenset(gT.get("deps", ())) | r.deps
                        out.append((sT, EnumV(o.adt, {"Some": ((I.resolve(sT, pl),), gT)})))
                if r.val is not True:
                    sF = s2.copy()
                    if I.refine(sF, r, False):
                        out.append((sF, EnumV(o.adt, {"None": ((), {"deps": r.deps} if r.val is None else {})})))
            except Diverge:
                pass
    return join_results(I, out)


def m_option_or(I, st, c, args, body, t):
    a = opt_cases(I, st, args[0])
    b = opt_cases(I, st, args[1])
    v = {}
    if a.may("Some"):
        v["Some"] = a.variants["Some"]
    if a.may("None"):
        for n, pv in b.variants.items():
            if n in v:
                v[n] = (tuple(join(x, y) for x, y in zip(v[n][0], pv[0])), {})
            else:
                v[n] = (pv[0], {})
    return st, EnumV(a.adt, v)


def m_option_unwrap_or(I, st, c, args, body, t):
    a = opt_cases(I, st, args[0])
    r = None
    sn, nn = _sn(a), _nn(a)
    if a.may(sn):
        r = a.payload(sn)
    if a.may(nn):
        r = args[1] if r is None else join(r, args[1])
    return st, r


def m_is_some(I, st, c, args, body, t):
    a = opt_cases(I, st, args[0])
    if a.only("Some") or a.only("Ok"):
        return st, BoolV(True)
    if a.only("None") or a.only("Err"):
        return st, BoolV(False)
    return st, BoolV(None, ("enumis", args[0], "Some"), deps_of(a) | _guard_deps(a))


def m_is_none(I, st, c, args, body, t):
    s, b = m_is_some(I, st, c, args, body, t)
    return s, ops.bool_not(b)


def _guard_deps(e):
    d = frozenset()
    for pl, g in e.variants.values():
        d |= frozenset(g.get("deps", ()))
    return d


def m_is_some_and(I, st, c, args, body, t):
    o = opt_cases(I, st, args[0])
    out = []
    sn, nn = _sn(o), _nn(o)
    if o.may(nn):
        s = st.copy()
        if I.install_guard(s, o.variants[nn][1], narrowed=len(o.variants) > 1):
            out.append((s, BoolV(False)))
    if o.may(sn):
        s = st.copy()
        if I.install_guard(s, o.variants[sn][1], narrowed=len(o.variants) > 1):
            try:
                s2, r = I.call_value(s, args[1], [I.resolve(s, o.payload(sn))])
                out.append((s2, r if isinstance(r, BoolV) else BoolV(None, None, deps_of(r))))
            except Diverge:
                pass
    st2, v = join_results(I, out)
    return st2, v


def m_expect(I, st, c, args, body, t):
    o = opt_cases(I, st, args[0])
    good = "Some" if o.adt == OPT else "Ok"
    bad = [n for n in o.variants if n != good]
    I.call_obligation(body, t, "expect/unwrap on %s" % o.adt.split("::")[-1], not bad, repr(o))
    if good not in o.variants:
        raise Diverge("expect")
    I.install_guard(st, o.variants[good][1])
    return st, I.resolve(st, o.payload(good))


def m_as_ref(I, st, c, args, body, t):
    r = args[0]
    o = opt_cases(I, st, r)
    v = {}
    for n, (pl, g) in o.variants.items():
        if n in ("Some", "Ok") and isinstance(r, RefV):
            v[n] = ((RefV(r.cell, r.proj + (("variant", n), ("field", 0))),), g)
        else:
            v[n] = (pl, g)
    return st, EnumV(o.adt, v)


def m_try_branch(I, st, c, args, body, t):
    o = opt_cases(I, st, args[0])
    v = {}
    for n, (pl, g) in o.variants.items():
        if n in ("Some", "Ok"):
            v["Continue"] = (pl, g)
        else:
            v["Break"] = ((EnumV(o.adt, {n: (pl, {})}),), g)
    return st, EnumV(CF, v)


def m_from_residual(I, st, c, args, body, t):
    r = deref(I, st, args[0])
    if isinstance(r, EnumV):
        return st, r
    imp = (c.get("impl_self") or c.get("instance") or "")
    if "Option" in imp:
        return st, EnumV.none()
    return st, EnumV(RES, {"Err": ((Top(why="residual"),), {})})


def values_eq(I, st, a, b):
    """structural equality of two abstract values -> BoolV"""
    a = deref(I, st, a)
    b = deref(I, st, b)
    if isinstance(a, IntV) and isinstance(b, IntV):
        return ops.compare("Eq", a, b)
    if isinstance(a, BoolV) and isinstance(b, BoolV):
        if a.val is not None and b.val is not None:
            return BoolV(a.val == b.val)
        return BoolV(None, None, a.deps | b.deps)
    if isinstance(a, TupleV) and isinstance(b, TupleV) and len(a.items) == len(b.items):
        parts = [values_eq(I, st, x, y) for x, y in zip(a.items, b.items)]
        if any(p.val is False for p in parts):
            return BoolV(False)
        if all(p.val is True for p in parts):
            return BoolV(True)
        d = frozenset()
        for p in parts:
            d |= p.deps
        return BoolV(None, ("and", tuple(parts)), d)
    if isinstance(a, EnumV) and isinstance(b, EnumV):
        res = set()
        d = deps_of(a) | deps_of(b) | _guard_deps(a) | _guard_deps(b)
        single = None
        for n, (pa, ga) in a.variants.items():
            for m, (pb, gb) in b.variants.items():
                if n != m:
                    res.add(False)
                else:
                    parts = [values_eq(I, st, x, y) for x, y in zip(pa, pb)]
                    if any(p.val is False for p in parts):
                        res.add(False)
                    elif all(p.val is True for p in parts):
                        res.add(True)
                    else:
                        res.add(None)
                        single = parts
        if res == {True}:
            return BoolV(True)
        if res == {False}:
            return BoolV(False)
        if len(a.variants) == 1 and len(b.variants) == 1 and single:
            return BoolV(None, ("and", tuple(single)), d)
        return BoolV(None, None, d)
    if isinstance(a, StrV) and isinstance(b, StrV) and a.skind == b.skind == "lit":
        return BoolV(a.text == b.text)
    return BoolV(None, None, deps_of(a) | deps_of(b))


def m_partial_eq(I, st, c, args, body, t):
    return st, values_eq(I, st, args[0], args[1])


def m_partial_ne(I, st, c, args, body, t):
    return st, ops.bool_not(values_eq(I, st, args[0], args[1]))


def m_clone_from(I, st, c, args, body, t):
    dst = args[0]
    src = deref(I, st, args[1])
    if isinstance(dst, RefV):
        I.on_store(st, dst.cell, dst.proj, src, t)
        I.set_path(st, dst.cell, dst.proj, src)
    return st, TupleV(())


def m_clone(I, st, c, args, body, t):
    return st, deref(I, st, args[0])


# --------------------------------------------------------------------------- integer helpers

_OPS = {"shr": "Shr", "shl": "Shl", "bitand": "BitAnd", "bitor": "BitOr", "bitxor": "BitXor", "add": "Add", "sub": "Sub", "mul": "Mul",
        "div": "Div", "rem": "Rem"}


def m_int_op(I, st, c, args, body, t):
    name = c.get("name")
    a = deref(I, st, args[0])
    if name in ("not", "neg"):
        if isinstance(a, BoolV):
            return st, ops.bool_not(a)
        if isinstance(a, IntV):
            return st, ops.int_unop("Not" if name == "not" else "Neg", a, a.ty)
        return st, Top(deps_of(a), "not on %s" % a.kind)
    b = deref(I, st, args[1])
    op = _OPS.get(name)
    if isinstance(a, IntV) and isinstance(b, IntV) and op:
        if op in ("Shl", "Shr"):
            w = INT_TYPES[a.ty][0]
            I.call_obligation(body, t, "shift amount < %d" % w, 0 <= b.lo and b.hi < w, repr(b))
        if op in ("Add", "Sub", "Mul"):
            r, ovf = ops.int_binop(op + "WithOverflow", a, b, a.ty)
            I.call_obligation(body, t, "overflow:%s (operator trait)" % op, ovf.val is False, "%r %r" % (a, b))
            return st, r
        if op in ("Div", "Rem"):
            I.call_obligation(body, t, "division by zero (operator trait)", not (b.lo <= 0 <= b.hi), repr(b))
        return st, ops.int_binop(op, a, b, a.ty)
    if isinstance(a, FloatV) and isinstance(b, FloatV) and op:
        return st, ops.float_binop(op, a, b)
    return st, Top(deps_of(a) | deps_of(b), "operator %s on %s" % (name, getattr(a, "kind", "?")))


def m_try_into(I, st, c, args, body, t):
    a = deref(I, st, args[0])
    ga = c.get("generic_args") or []
    to = ga[1] if len(ga) > 1 else None
    if isinstance(a, IntV) and to in INT_TYPES:
        lo, hi = ty_range(to)
        v = {}
        if a.lo >= lo and a.hi <= hi:
            v["Ok"] = ((ops.cast_int(a, to),), {})
        else:
            if a.hi >= lo and a.lo <= hi:
                v["Ok"] = ((ops.cast_int(a.with_range(lo, hi), to),), {})
            v["Err"] = ((OpaqueV("TryFromIntError"),), {})
        return st, EnumV(RES, v)
    return st, EnumV(RES, {"Ok": ((Top(deps_of(a), "try_into"),), {}), "Err": ((OpaqueV("TryFromIntError"),), {})})


def m_int_from(I, st, c, args, body, t):
    """lossless integer conversions `u32::from(u8)` etc."""
    a = deref(I, st, args[0])
    ga = c.get("generic_args") or []
    to = ga[0] if ga else None
    if c.get("name") == "into" and len(ga) > 1:
        to = ga[1]
    if isinstance(a, IntV) and to in INT_TYPES:
        return st, ops.cast_int(a, to)
    if isinstance(a, IntV) and to in ("f32", "f64"):
        return st, ops.int_to_float(a, to)
    if isinstance(a, BoolV) and to in INT_TYPES:
        return st, ops.bool_to_int(a, to)
    return st, Top(deps_of(a), "From::from")


def m_abs_diff(I, st, c, args, body, t):
    a, b = deref(I, st, args[0]), deref(I, st, args[1])
    if isinstance(a, IntV) and isinstance(b, IntV):
        lo = 0
        if a.lo > b.hi:
            lo = a.lo - b.hi
        elif b.lo > a.hi:
            lo = b.lo - a.hi
        hi = max(a.hi - b.lo, b.hi - a.lo)
        return st, IntV(a.ty if a.ty.startswith("u") else "u" + a.ty[1:], None, lo, hi, None, a.deps | b.deps, None,
                        ("abs_diff", _t(a), _t(b)))
    return st, Top(deps_of(a) | deps_of(b), "abs_diff")


def _t(v):
    from .interp import _vterm
    return _vterm(v)


def m_int_abs(I, st, c, args, body, t):
    a = deref(I, st, args[0])
    if isinstance(a, IntV):
        tlo, thi = ty_range(a.ty)
        I.call_obligation(body, t, "abs overflow", a.lo > tlo, repr(a))
        lo = 0 if a.lo <= 0 <= a.hi else min(abs(a.lo), abs(a.hi))
        hi = max(abs(a.lo), abs(a.hi))
        return st, IntV(a.ty, None, lo, min(hi, thi), None, a.deps, None, ("abs", _t(a)))
    return st, Top(deps_of(a), "abs")


def m_min_max(I, st, c, args, body, t):
    a, b = deref(I, st, args[0]), deref(I, st, args[1])
    nm = c.get("name")
    if isinstance(a, IntV) and isinstance(b, IntV):
        if nm == "max":
            return st, IntV(a.ty, None, max(a.lo, b.lo), max(a.hi, b.hi), None, a.deps | b.deps)
        return st, IntV(a.ty, None, min(a.lo, b.lo), min(a.hi, b.hi), None, a.deps | b.deps)
    if isinstance(a, FloatV) and isinstance(b, FloatV):
        if nm == "max":
            return st, FloatV(max(a.lo, b.lo), max(a.hi, b.hi), a.deps | b.deps, (nm, a.term, b.term))
        return st, FloatV(min(a.lo, b.lo), min(a.hi, b.hi), a.deps | b.deps, (nm, a.term, b.term))
    return st, Top(deps_of(a) | deps_of(b), nm)


def m_checked(I, st, c, args, body, t):
    nm = c.get("name")  # checked_sub / checked_add / checked_mul
    a, b = deref(I, st, args[0]), deref(I, st, args[1])
    op = {"checked_sub": "Sub", "checked_add": "Add", "checked_mul": "Mul"}.get(nm)
    if isinstance(a, IntV) and isinstance(b, IntV) and op:
        r, ovf = ops.int_binop(op + "WithOverflow", a, b, a.ty)
        v = {}
        if ovf.val is not True:
            g = {}
            v["Some"] = ((r._with(sid=fresh_sid()) if not r.is_const() else r,), g)
        if ovf.val is not False:
            v["None"] = ((), {"deps": a.deps | b.deps})
            if "Some" in v:
                pl, g = v["Some"]
                v["Some"] = (pl, {"deps": a.deps | b.deps})
        return st, EnumV(OPT, v)
    return st, EnumV(OPT, {"None": ((), {}), "Some": ((Top(deps_of(a) | deps_of(b), nm),), {})})


def m_saturating(I, st, c, args, body, t):
    nm = c.get("name")
    a, b = deref(I, st, args[0]), deref(I, st, args[1])
    op = {"saturating_sub": "Sub", "saturating_add": "Add", "saturating_mul": "Mul", "wrapping_sub": "Sub", "wrapping_add": "Add",
          "wrapping_mul": "Mul"}.get(nm)
    if isinstance(a, IntV) and isinstance(b, IntV) and op:
        r, ovf = ops.int_binop(op + "WithOverflow", a, b, a.ty)
        if ovf.val is False:
            return st, r
        tlo, thi = ty_range(a.ty)
        if nm.startswith("saturating"):
            return st, IntV(a.ty, None, max(tlo, r.lo), min(thi, r.hi), None, a.deps | b.deps)
        return st, IntV(a.ty, None, tlo, thi, None, a.deps | b.deps)
    return st, Top(deps_of(a) | deps_of(b), nm)


# --------------------------------------------------------------------------- ranges & iterators

def m_range_incl_new(I, st, c, args, body, t):
    return st, StructV("std::ops::RangeInclusive", {"start": args[0], "end": args[1], "exhausted": BoolV(False)})


def m_range_contains(I, st, c, args, body, t):
    r = deref(I, st, args[0])
    x = deref(I, st, args[1])
    if not isinstance(r, StructV):
        return st, BoolV(None, None, deps_of(x))
    lo, hi = r.get("start"), r.get("end")
    incl = "Inclusive" in r.adt
    if isinstance(x, IntV) and isinstance(lo, IntV) and isinstance(hi, IntV):
        b1 = ops.compare("Ge", x, lo)
        b2 = ops.compare("Le" if incl else "Lt", x, hi)
    elif isinstance(x, FloatV) and isinstance(lo, FloatV) and isinstance(hi, FloatV):
        b1 = ops.float_binop("Ge", x, lo)
        b2 = ops.float_binop("Le" if incl else "Lt", x, hi)
    else:
        return st, BoolV(None, None, deps_of(x))
    if b1.val is False or b2.val is False:
        return st, BoolV(False)
    if b1.val and b2.val:
        return st, BoolV(True)
    term = ("in_range", _t(x), _t(lo), _t(hi), incl)
    return st, BoolV(None, ("and", (b1, b2)), b1.deps | b2.deps, term)


def to_iter(I, st, v):
    """normalise an iterable abstract value to IterV"""
    if isinstance(v, IterV):
        return v
    if isinstance(v, StructV) and (v.adt.endswith("ops::Range") or v.adt.endswith("RangeInclusive")):
        s, e = v.get("start"), v.get("end")
        if isinstance(s, IntV) and isinstance(e, IntV) and s.is_const() and e.is_const():
            hi = e.lo + (1 if "Inclusive" in v.adt else 0)
            if hi - s.lo <= 100000:
                return IterV([IntV.const(s.ty, i) for i in range(s.lo, max(s.lo, hi))])
        if isinstance(s, IntV) and isinstance(e, IntV):
            return IterV(None, unknown=True, deps=s.deps | e.deps,
                         end=IntV(s.ty, None, s.lo, e.hi - (0 if "Inclusive" in v.adt else 1), None, s.deps | e.deps))
        return IterV(None, unknown=True, deps=deps_of(v))
    if isinstance(v, RefV):
        tgt = I.get_path(st, v.cell, v.proj)
        if isinstance(tgt, VecV) and tgt.elems is not None:
            return IterV([RefV(v.cell, v.proj + (("index", i, None),)) for i in range(len(tgt.elems))], by_ref_elems=True)
        if isinstance(tgt, VecV):
            c = I.new_cell(st, tgt.summary if tgt.summary is not None else Top(why="elem of unknown vec"))
            return IterV(None, unknown=True, deps=deps_of(tgt), end=RefV(c))
        if isinstance(tgt, IterV):
            return tgt
        return IterV(None, unknown=True, deps=deps_of(tgt))
    if isinstance(v, VecV) and v.elems is not None:
        return IterV(list(v.elems))
    return IterV(None, unknown=True, deps=deps_of(v))


def m_into_iter(I, st, c, args, body, t):
    return st, to_iter(I, st, args[0])


def m_slice_iter(I, st, c, args, body, t):
    return st, to_iter(I, st, args[0])


def m_add_stage(kind):
    def f(I, st, c, args, body, t):
        it = to_iter(I, st, args[0])
        return st, IterV(it.src, it.pos, it.stages + ((kind, args[1] if len(args) > 1 else None),), it.end, it.by_ref_elems, it.unknown, it.deps)
    return f


def drive(I, st, it, from_pos=None, one=False):
    """run the pipeline over the remaining source elements.
    -> (state, [(cond, value)], new_pos) ; cond in 'always'|'maybe'"""
    out = []
    pos = it.pos if from_pos is None else from_pos
    src = it.src
    while pos < len(src):
        e = src[pos]
        idx = pos
        pos += 1
        cond = "always"
        if (isinstance(e, OpaqueV) and e.ty == "byte*") or (isinstance(e, IntV) and e.term and e.term[0] == "hexbyte"):
            st, emitted = _drive_bytes(I, st, it, e)
            out.extend(emitted)
            continue
        multi = isinstance(e, OpaqueV) and e.ty == "char*"   # zero or more junk chars
        if multi:
            e = IntV("char", None, 0, 0x10FFFF, None, frozenset(), None, ("nonhexchar",))
        skipped = False
        for kind, f in it.stages:
            if kind == "map":
                st, e = I.call_value(st, f, [e])
            elif kind == "enumerate":
                e = TupleV([IntV.const("usize", idx), e])
            elif kind == "filter":
                cell = I.new_cell(st, e)
                st, r = I.call_value(st, f, [RefV(cell)])
                if isinstance(r, BoolV) and r.val is False:
                    skipped = True
                    break
                if not (isinstance(r, BoolV) and r.val is True):
                    # kept iff the predicate holds: remember its exact bit (if it has one) for guarded consumers
                    if cond == "always" and isinstance(r, BoolV) and r.bit is not None and not bit_is_const(r.bit) and r.bit != TBIT:
                        cond = ("bit", r.bit)
                    else:
                        cond = "maybe"
            elif kind == "filter_map":
                st, r = I.call_value(st, f, [e])
                r = opt_cases(I, st, r)
                if r.only("None"):
                    skipped = True
                    break
                if not r.only("Some"):
                    gb = (r.variants["Some"][1] or {}).get("bit")
                    cond = ("bit", gb) if (cond == "always" and gb is not None) else "maybe"
                e = r.payload("Some")
            elif kind == "map_while":
                st, r = I.call_value(st, f, [e])
                r = opt_cases(I, st, r)
                if r.only("None"):
                    return st, out, len(src)
                if not r.only("Some"):
                    cond = "maybe"
                e = r.payload("Some")
            elif kind in ("copied", "cloned"):
                e = deref(I, st, e)
            else:
                e = Top(deps_of(e), "iterator stage %s" % kind)
        if skipped:
            continue
        if multi:
            cond = "many"
        out.append((cond, e))
        if one and cond == "always":
            break
        if one and multi and len(out) == 1:
            break       # an explicit loop takes the junk between two digits as one non-hex character of its own iteration
    return st, out, pos


def m_iter_next(I, st, c, args, body, t):
    r = args[0]
    it = deref(I, st, r)
    # ranges are driven in place (they live in a local, not an IterV)
    if isinstance(it, StructV) and (it.adt.endswith("ops::Range") or it.adt.endswith("RangeInclusive")):
        s, e = it.get("start"), it.get("end")
        incl = "Inclusive" in it.adt
        if isinstance(s, IntV) and isinstance(e, IntV) and s.is_const() and e.is_const():
            exh = it.get("exhausted")
            done = (s.lo > e.lo or (isinstance(exh, BoolV) and exh.val)) if incl else s.lo >= e.lo
            if done:
                return st, EnumV.none()
            if incl and s.lo == e.lo:
                nit = it.set("exhausted", BoolV(True))
            else:
                nit = it.set("start", IntV.const(s.ty, s.lo + 1))
            if isinstance(r, RefV):
                I.set_path(st, r.cell, r.proj, nit)
            return st, EnumV.some(s)
        if isinstance(s, IntV) and isinstance(e, IntV):
            hi = e.hi if incl else e.hi - 1
            v = {"None": ((), {})}
            if s.lo <= hi:
                v["Some"] = ((IntV(s.ty, None, s.lo, hi, None, s.deps | e.deps, fresh_sid()),), {})
                if isinstance(r, RefV):
                    I.set_path(st, r.cell, r.proj, it.set("start", IntV(s.ty, None, s.lo, hi + 1, None, s.deps | e.deps)))
            return st, EnumV(OPT, v)
        return st, EnumV(OPT, {"None": ((), {}), "Some": ((Top(deps_of(it), "range item"),), {})})
    if not isinstance(it, IterV):
        it = to_iter(I, st, it)
    if it.unknown or it.src is None:
        item = it.end if it.end is not None else Top(it.deps, "item of unknown iterator")
        for kind, f in it.stages:
            if kind == "enumerate":
                item = TupleV([IntV("usize", None, 0, 1 << 32), item])
            elif kind == "map":
                try:
                    st, item = I.call_value(st, f, [item])
                except Diverge:
                    pass
            elif kind in ("filter",):
                pass
            else:
                item = Top(deps_of(item), "unknown iterator stage %s" % kind)
        return st, EnumV(OPT, {"None": ((), {}), "Some": ((item,), {})})
    st, out, pos = drive(I, st, it, one=True)
    nit = IterV(it.src, pos, it.stages, it.end, it.by_ref_elems, it.unknown, it.deps)
    if isinstance(r, RefV):
        I.set_path(st, r.cell, r.proj, nit)
    if not out:
        return st, EnumV.none()
    if all(cnd == "always" for cnd, _ in out[-1:]) and len(out) == 1:
        return st, EnumV.some(out[0][1])
    if len(out) == 1 and out[0][0] == "many":
        # (that the loop body does nothing for such a character - so that zero, one or many of them are the same - is
        # C02 R02.1's loop rule)
        I.side["junk_items"] = I.side.get("junk_items", 0) + 1
        return st, EnumV.some(out[0][1])
    # maybe-elements before a definite one: any of them could be the next item
    v = None
    for _, e in out:
        v = e if v is None else join(v, e)
    vs = {"Some": ((v,), {})}
    if out[-1][0] != "always":
        vs["None"] = ((), {})
    return st, EnumV(OPT, vs)


def m_collect(I, st, c, args, body, t):
    it = to_iter(I, st, args[0])
    dest_ty = body.locals[t["dest"]["local"]]["ty"] if body is not None and t.get("dest") else {"s": ""}
    tys = dest_ty.get("s", "")
    if it.unknown or it.src is None:
        d = it.deps
        if "String" in tys and "Vec" not in tys:
            return st, StrV("opaque", deps=d)
        return st, VecV(None, IntV("usize"), it.end if it.end is not None else Top(d, "elem of unknown iterator"))
    st, out, pos = drive(I, st, it)
    if tys.endswith("String") and "Vec" not in tys:
        return st, StrV("chars", chars=[(cnd, e) for cnd, e in out])
    if all(cnd == "always" for cnd, _ in out):
        return st, VecV([e for _, e in out])
    n_always = sum(1 for cnd, _ in out if cnd == "always")
    many = any(cnd == "many" for cnd, _ in out)
    s = None
    for _, e in out:
        s = e if s is None else join(s, e)
    return st, VecV(None, IntV("usize", None, n_always, (1 << 40) if many else len(out)), s)


def m_fold(I, st, c, args, body, t):
    it = to_iter(I, st, args[0])
    acc = args[1]
    f = args[2]
    if it.unknown or it.src is None:
        # one abstract application joined with the initial value, iterated to a small fixpoint
        item = it.end if it.end is not None else Top(it.deps, "item of unknown iterator")
        for _ in range(3):
            try:
                s2, r = I.call_value(st.copy(), f, [acc, item])
            except Diverge:
                break
            st, _ = I.join_states(st, s2)
            na = join(acc, r)
            if na is acc:
                break
            acc = na
        return st, acc if not isinstance(acc, IntV) else IntV(acc.ty, None, None, None, None, deps_of(acc) | it.deps)
    st, out, pos = drive(I, st, it)
    for cnd, e in out:
        if cnd == "always":
            st, acc = I.call_value(st, f, [acc, e])
        else:
            s2, r = I.call_value(st.copy(), f, [acc, e])
            st, _ = I.join_states(st, s2)
            if isinstance(cnd, tuple) and cnd[0] == "bit":
                acc = I.gjoin(r, acc, (cnd[1], 1))       # the step happened iff the filter's predicate bit is 1
            else:
                acc = join(acc, r)
    return st, acc


def m_all_any(I, st, c, args, body, t):
    it = to_iter(I, st, args[0])
    is_all = c.get("name") == "all"
    if it.unknown or it.src is None:
        return st, BoolV(None, None, it.deps)
    st, out, pos = drive(I, st, it)
    res = True if is_all else False
    deps = frozenset()
    parts = []
    exact = True
    for cnd, e in out:
        st, r = I.call_value(st, args[1], [e])
        if not isinstance(r, BoolV):
            r = BoolV(None, None, deps_of(r))
        deps |= r.deps
        parts.append(r)
        if cnd != "always":
            exact = False
        if is_all:
            if r.val is False and cnd == "always":
                return st, BoolV(False)
            if r.val is not True:
                res = None
        else:
            if r.val is True and cnd == "always":
                return st, BoolV(True)
            if r.val is not False:
                res = None
    # over a known sequence `all` is the conjunction (and `any` the disjunction) of the element tests: branching on the
    # result establishes every component (`!slots.contains(&0)`-style guards written with all/any)
    undec = [p_ for p_ in parts if p_.val is None]
    origin = ("and" if is_all else "or", tuple(undec)) if (res is None and exact and undec) else None
    return st, BoolV(res, origin, deps)


def m_iter_max(I, st, c, args, body, t):
    it = to_iter(I, st, args[0])
    if it.unknown or it.src is None:
        return st, EnumV(OPT, {"None": ((), {}), "Some": ((Top(it.deps, "max"),), {})})
    st, out, pos = drive(I, st, it)
    if not out:
        return st, EnumV.none()
    vals = [deref(I, st, e) for _, e in out]
    if all(isinstance(v, IntV) for v in vals):
        is_min = c.get("name") == "min"
        if is_min:
            r = IntV(vals[0].ty, None, min(v.lo for v in vals), min(v.hi for v in vals), None, frozenset().union(*[v.deps for v in vals]))
        else:
            r = IntV(vals[0].ty, None, max(v.lo for v in vals), max(v.hi for v in vals), None, frozenset().union(*[v.deps for v in vals]))
        # `max()` over &T yields &T
        if it.by_ref_elems or isinstance(out[0][1], RefV):
            cell = I.new_cell(st, r._with(sid=fresh_sid()))
            return st, EnumV.some(RefV(cell))
        return st, EnumV.some(r)
    return st, EnumV.some(Top(frozenset(), "max of non-ints"))


def m_chars(I, st, c, args, body, t):
    s = deref(I, st, args[0])
    if isinstance(s, StrV) and s.skind == "lit":
        return st, IterV([IntV.const("char", ord(ch)) for ch in s.text])
    if isinstance(s, StrV) and s.skind == "line":
        src = [OpaqueV("char*")]
        for d in s.digits:
            src.append(IntV("char", None, 0x30, 0x66, None, deps_of(d), None, ("hexchar", d)))
            src.append(OpaqueV("char*"))
        return st, IterV(src)
    return st, IterV(None, unknown=True, deps=deps_of(s))


HEX_BYTES = {}
for _i, _ch in enumerate("0123456789abcdef"):
    HEX_BYTES[ord(_ch)] = _i
for _i, _ch in enumerate("ABCDEF"):
    HEX_BYTES[ord(_ch)] = 10 + _i


def m_bytes(I, st, c, args, body, t):
    """str::bytes / as_bytes().iter() on the abstract line: zero-or-more non-hex bytes around each hex-digit byte"""
    s = deref(I, st, args[0])
    if isinstance(s, StrV) and s.skind == "lit":
        return st, IterV([IntV.const("u8", b) for b in s.text.encode()])
    if isinstance(s, StrV) and s.skind == "line":
        src = [OpaqueV("byte*")]
        for d in s.digits:
            src.append(IntV("u8", None, 0x30, 0x66, None, deps_of(d), None, ("hexbyte", d)))
            src.append(OpaqueV("byte*"))
        return st, IterV(src)
    return st, IterV(None, unknown=True, deps=deps_of(s))


def _drive_bytes(I, st, it, e):
    """evaluate the pipeline stages on every concrete byte an abstract line byte can be.
    -> list of (cond, value) to emit"""
    sub = IterV([], 0, it.stages)
    if isinstance(e, OpaqueV):      # junk: every non-hex byte value must be dropped
        for b in range(256):
            if b in HEX_BYTES:
                continue
            one = IterV([IntV.const("u8", b)], 0, it.stages)
            st, out, _ = drive(I, st, one)
            if out:
                return st, [("many", Top(frozenset(), "a non-hex byte (0x%02x) is kept by the digit filter" % b))]
        return st, []
    d = e.term[1]
    ty = None
    for b, nib in sorted(HEX_BYTES.items()):
        one = IterV([IntV.const("u8", b)], 0, it.stages)
        st, out, _ = drive(I, st, one)
        if len(out) != 1 or out[0][0] != "always" or not (isinstance(out[0][1], IntV) and out[0][1].is_const() and out[0][1].lo == nib):
            return st, [("maybe", Top(deps_of(d), "hex digit byte 0x%02x is not mapped to its value" % b))]
        ty = out[0][1].ty
    v = d if d.ty == ty else ops.cast_int(d, ty)
    return st, [("always", v)]


def m_to_digit(I, st, c, args, body, t):
    ch = deref(I, st, args[0])
    radix = deref(I, st, args[1])
    if isinstance(ch, IntV) and ch.term and ch.term[0] == "hexchar":
        if isinstance(radix, IntV) and radix.is_const() and radix.lo == 16:
            return st, EnumV.some(ch.term[1])
        return st, EnumV(OPT, {"None": ((), {}), "Some": ((IntV("u32", None, 0, 15, None, ch.deps),), {})})
    if isinstance(ch, IntV) and ch.term and ch.term[0] == "nonhexchar":
        if isinstance(radix, IntV) and radix.is_const() and radix.lo <= 16:
            return st, EnumV.none()
        return st, EnumV(OPT, {"None": ((), {}), "Some": ((IntV("u32", None, 0, 35),), {})})
    if isinstance(ch, IntV) and ch.is_const() and isinstance(radix, IntV) and radix.is_const():
        try:
            v = int(chr(ch.lo), radix.lo)
            return st, EnumV.some(IntV.const("u32", v))
        except ValueError:
            return st, EnumV.none()
    return st, EnumV(OPT, {"None": ((), {}), "Some": ((IntV("u32", None, 0, 35, None, deps_of(ch)),), {})})


def m_from_u32(I, st, c, args, body, t):
    u = deref(I, st, args[0])
    if isinstance(u, IntV):
        ch = ops.cast_int(u, "char") if u.hi <= 0x10FFFF else IntV("char", None, 0, 0x10FFFF, None, u.deps)
        ch = IntV("char", u.bits[:32] if u.bits is not None else None, u.lo, min(u.hi, 0x10FFFF), u.affine(), u.deps, u.sid, u.term)
        if u.hi < 0xD800:
            return st, EnumV.some(ch)
        return st, EnumV(OPT, {"None": ((), {"deps": u.deps}), "Some": ((ch,), {"deps": u.deps})})
    return st, EnumV(OPT, {"None": ((), {}), "Some": ((IntV("char", deps=deps_of(u)),), {})})


# --------------------------------------------------------------------------- vec / slice / string

def m_vec_len(I, st, c, args, body, t):
    v = deref(I, st, args[0])
    if isinstance(v, VecV):
        return st, v.length
    if isinstance(v, StrV) and v.skind == "lit":
        return st, IntV.const("usize", len(v.text.encode()))
    if isinstance(v, StrV) and v.skind == "line":
        I.warn("line-use", "len() of the input line (not a digit projection)")
    return st, IntV("usize", deps=deps_of(v))


def m_identity_ref(I, st, c, args, body, t):
    """Deref::deref / as_mut / as_ref / borrow on transparent wrappers (Vec, String, Arc, guards): same place"""
    a = args[0]
    if isinstance(a, RefV):
        inner = I.get_path(st, a.cell, a.proj)
        if isinstance(inner, RefV):
            return st, inner
    return st, a


def m_index(I, st, c, args, body, t):
    base = args[0]
    idx = deref(I, st, args[1])
    v = deref(I, st, base)
    mut = c.get("name") == "index_mut"
    if isinstance(idx, IntV):
        if isinstance(v, VecV):
            ln = v.length
            ok = idx.lo >= 0 and isinstance(ln, IntV) and idx.hi < ln.lo
            I.call_obligation(body, t, "index in bounds", ok, "index %r len %r" % (idx, ln))
            if isinstance(ln, IntV) and idx.lo >= ln.hi:
                raise Diverge("index")
        if isinstance(base, RefV):
            tgt = base
            inner = I.get_path(st, base.cell, base.proj)
            if isinstance(inner, RefV):
                tgt = inner
            return st, RefV(tgt.cell, tgt.proj + (("index", idx.lo if idx.is_const() else None, idx),), mut)
        return st, Top(deps_of(v), "index of non-ref")
    if isinstance(idx, StructV):
        # range index -> sub-slice snapshot
        s = idx.get("start")
        e = idx.get("end")
        if isinstance(v, VecV) and v.elems is not None:
            n = len(v.elems)
            lo = s.lo if isinstance(s, IntV) and s.is_const() else (0 if s is None else None)
            hi = None
            if e is None:
                hi = n
            elif isinstance(e, IntV) and e.is_const():
                hi = e.lo + (1 if "Inclusive" in idx.adt else 0)
            ok = lo is not None and hi is not None and 0 <= lo <= hi <= n
            I.call_obligation(body, t, "slice range in bounds", ok, "range %r..%r len %d" % (s, e, n))
            if ok:
                cell = I.new_cell(st, VecV(v.elems[lo:hi], elem_ty=v.elem_ty))
                return st, RefV(cell, (), mut)
            if lo is not None and hi is not None:
                raise Diverge("slice index")
        else:
            I.call_obligation(body, t, "slice range in bounds", False, "range on %r" % (v,))
        cell = I.new_cell(st, VecV(None, IntV("usize"), v.summary if isinstance(v, VecV) else Top(why="subslice")))
        return st, RefV(cell, (), mut)
    I.call_obligation(body, t, "index in bounds", False, "index %r" % (idx,))
    return st, Top(deps_of(v), "index")


def m_to_vec(I, st, c, args, body, t):
    v = deref(I, st, args[0])
    return st, v if isinstance(v, VecV) else VecV(None, IntV("usize"), Top(deps_of(v), "to_vec"))


def m_vec_append(I, st, c, args, body, t):
    a, b = args[0], args[1]
    va, vb = deref(I, st, a), deref(I, st, b)
    if isinstance(va, VecV) and isinstance(vb, VecV) and va.elems is not None and vb.elems is not None and isinstance(a, RefV):
        I.set_path(st, a.cell, a.proj, VecV(va.elems + vb.elems, elem_ty=va.elem_ty))
        if isinstance(b, RefV):
            I.set_path(st, b.cell, b.proj, VecV([], elem_ty=vb.elem_ty))
    elif isinstance(a, RefV):
        I.set_path(st, a.cell, a.proj, VecV(None, IntV("usize"), join(_summary(va), _summary(vb))))
    return st, TupleV(())


def _summary(v):
    if isinstance(v, VecV):
        if v.elems is not None:
            r = None
            for x in v.elems:
                r = x if r is None else join(r, x)
            return r if r is not None else Top(why="empty")
        return v.summary if v.summary is not None else Top(why="unknown elem")
    return Top(why="not a vec")


def m_vec_push(I, st, c, args, body, t):
    a = args[0]
    va = deref(I, st, a)
    if isinstance(va, VecV) and va.elems is not None and isinstance(a, RefV):
        I.set_path(st, a.cell, a.proj, VecV(va.elems + (args[1],), elem_ty=va.elem_ty))
    elif isinstance(a, RefV):
        I.set_path(st, a.cell, a.proj, VecV(None, IntV("usize"), join(_summary(va), args[1])))
    return st, TupleV(())


def m_from_elem(I, st, c, args, body, t):
    n = deref(I, st, args[1])
    if isinstance(n, IntV) and n.is_const() and n.lo <= 4096:
        return st, VecV([args[0]] * n.lo)
    return st, VecV(None, n if isinstance(n, IntV) else IntV("usize"), args[0])


def m_vec_new(I, st, c, args, body, t):
    return st, VecV([])


def m_string_new(I, st, c, args, body, t):
    return st, StrV("lit", text="")


def m_str_opaque(I, st, c, args, body, t):
    d = frozenset()
    for a in args:
        d |= deps_of(deref(I, st, a))
    return st, StrV("opaque", deps=d)


def m_contains(I, st, c, args, body, t):
    v = deref(I, st, args[0])
    x = deref(I, st, args[1])
    if isinstance(v, VecV) and v.elems is not None:
        res = False
        d = frozenset()
        und = []
        for e in v.elems:
            b = values_eq(I, st, e, x)
            d |= b.deps
            if b.val is True:
                return st, BoolV(True)
            if b.val is None:
                res = None
                und.append(b)
        # contains(x)  ==  (e0 == x) || (e1 == x) || ...   (the decided-false comparisons drop out)
        return st, BoolV(res, ("or", tuple(und)) if und else None, d)
    return st, BoolV(None, None, deps_of(v) | deps_of(x))


# --------------------------------------------------------------------------- floats

def _f1(name, fn, mono=True):
    def m(I, st, c, args, body, t):
        a = deref(I, st, args[0])
        if isinstance(a, FloatV):
            try:
                if mono and a.lo != -math.inf and a.hi != math.inf:
                    lo, hi = fn(a.lo), fn(a.hi)
                    lo, hi = min(lo, hi), max(lo, hi)
                else:
                    lo, hi = -math.inf, math.inf
            except (ValueError, OverflowError):
                lo, hi = -math.inf, math.inf
            return st, FloatV(lo, hi, a.deps, (name, a.term), a.ty)
        return st, FloatV(deps=deps_of(a), term=(name, None))
    return m


def m_fabs(I, st, c, args, body, t):
    a = deref(I, st, args[0])
    if isinstance(a, FloatV):
        lo = 0.0 if a.lo <= 0 <= a.hi else min(abs(a.lo), abs(a.hi))
        return st, FloatV(lo, max(abs(a.lo), abs(a.hi)), a.deps, ("abs", a.term), a.ty)
    return st, FloatV(0.0, math.inf, deps_of(a), ("abs", None))


def m_sqrt(I, st, c, args, body, t):
    a = deref(I, st, args[0])
    if isinstance(a, FloatV):
        lo = math.sqrt(a.lo) if a.lo >= 0 and a.lo != math.inf else 0.0
        hi = math.sqrt(a.hi) if 0 <= a.hi != math.inf else math.inf
        return st, FloatV(lo, hi, a.deps, ("sqrt", a.term), a.ty)
    return st, FloatV(0.0, math.inf, deps_of(a), ("sqrt", None))


def m_powi(I, st, c, args, body, t):
    a = deref(I, st, args[0])
    n = deref(I, st, args[1])
    if isinstance(a, FloatV) and isinstance(n, IntV) and n.is_const() and n.lo == 2:
        m = max(abs(a.lo), abs(a.hi))
        lo = 0.0 if a.lo <= 0 <= a.hi else min(abs(a.lo), abs(a.hi)) ** 2
        hi = m * m if m != math.inf else math.inf
        return st, FloatV(lo, hi, a.deps, ("powi", a.term, 2), a.ty)
    return st, FloatV(deps=deps_of(a), term=("powi", getattr(a, "term", None), _t(n) if isinstance(n, IntV) else None))


def m_trig(name, lo, hi):
    def m(I, st, c, args, body, t):
        a = deref(I, st, args[0])
        return st, FloatV(lo, hi, deps_of(a), (name, getattr(a, "term", None)))
    return m


def m_atan2(I, st, c, args, body, t):
    a, b = deref(I, st, args[0]), deref(I, st, args[1])
    return st, FloatV(-math.pi, math.pi, deps_of(a) | deps_of(b), ("atan2", getattr(a, "term", None), getattr(b, "term", None)))


def m_to_degrees(I, st, c, args, body, t):
    a = deref(I, st, args[0])
    if isinstance(a, FloatV):
        return st, FloatV(math.degrees(a.lo) if a.lo != -math.inf else -math.inf, math.degrees(a.hi) if a.hi != math.inf else math.inf,
                          a.deps, ("to_degrees", a.term), a.ty)
    return st, FloatV(deps=deps_of(a))


def m_total_cmp(I, st, c, args, body, t):
    return st, EnumV("std::cmp::Ordering", {"Less": ((), {}), "Equal": ((), {}), "Greater": ((), {})})


# --------------------------------------------------------------------------- time

def m_now(I, st, c, args, body, t):
    k = next(I.now_counter)
    return st, OpaqueV("chrono::DateTime<chrono::Utc>", ("now", k), frozenset([("now", k)]))


def m_sds(I, st, c, args, body, t):
    a, b = deref(I, st, args[0]), deref(I, st, args[1])
    return st, OpaqueV("chrono::TimeDelta", ("sds", getattr(a, "term", None), getattr(b, "term", None)), deps_of(a) | deps_of(b))


def m_num_seconds(I, st, c, args, body, t):
    a = deref(I, st, args[0])
    return st, IntV("i64", None, -(1 << 53), 1 << 53, None, deps_of(a), fresh_sid(), ("num_seconds", getattr(a, "term", None)))


def m_timedelta_seconds(I, st, c, args, body, t):
    a = deref(I, st, args[0])
    lim = (1 << 63) // 1000
    ok = isinstance(a, IntV) and -lim <= a.lo and a.hi <= lim
    I.call_obligation(body, t, "TimeDelta::seconds in range", ok, repr(a))
    return st, OpaqueV("chrono::TimeDelta", ("seconds", _t(a) if isinstance(a, IntV) else None), deps_of(a))


def m_datetime_add(I, st, c, args, body, t):
    a, b = deref(I, st, args[0]), deref(I, st, args[1])
    if c.get("name") == "sub" and isinstance(a, OpaqueV) and isinstance(b, OpaqueV) and "DateTime" in a.ty and "DateTime" in b.ty:
        # DateTime - DateTime = signed_duration_since: always representable, never panics
        return st, OpaqueV("chrono::TimeDelta", ("sds", getattr(a, "term", None), getattr(b, "term", None)), deps_of(a) | deps_of(b))
    # DateTime + TimeDelta panics on overflow of the representable range
    small = isinstance(b, OpaqueV) and b.term and b.term[0] == "seconds" and isinstance(b.term[1], int) and abs(b.term[1]) < (1 << 40)
    I.call_obligation(body, t, "DateTime + TimeDelta in range", bool(small), repr(b))
    return st, OpaqueV("chrono::DateTime<chrono::Utc>", ("add", getattr(a, "term", None), getattr(b, "term", None)), deps_of(a) | deps_of(b))


# --------------------------------------------------------------------------- sync / table

def m_lock_ok(I, st, c, args, body, t):
    """RwLock::write/read, Mutex::lock: Ok(guard) — poisoning needs a panic in another thread (single thread: R18.6)"""
    a = args[0]
    tgt = a
    if isinstance(a, RefV):
        inner = I.get_path(st, a.cell, a.proj)
        if isinstance(inner, RefV):
            tgt = inner
    return st, EnumV(RES, {"Ok": ((tgt,), {})})


def m_wrap_new(I, st, c, args, body, t):
    return st, args[0] if args else TupleV(())


HM_ENTRY = "std::collections::hash_map::Entry"


def m_hm_entry(I, st, c, args, body, t):
    """HashMap::entry(key): the table's content is not tracked - the key is either present (the symbolic pre-state row of the
    context) or absent.  I.side['table_mode'] = 'present' / 'absent' restricts the answer to one hypothesis (K2 runs the
    updater once per hypothesis when it matches on the Entry itself)."""
    I.side["entry_key"] = args[1]
    mode = I.side.get("table_mode")
    v = {}
    if mode in (None, "present"):
        v["Occupied"] = ((StructV("OccupiedEntry", {"key": args[1], "map": args[0]}),), {})
    if mode in (None, "absent"):
        v["Vacant"] = ((StructV("VacantEntry", {"key": args[1], "map": args[0]}),), {})
    return st, EnumV(HM_ENTRY, v)


def m_hm_and_modify(I, st, c, args, body, t):
    row_cell = I.side.get("row_cell")
    if row_cell is None:
        return I.unmodelled(st, c, "and_modify (no row context)", args)
    if I.side.get("table_mode") == "absent":
        return st, args[0]
    s2, _ = I.call_value(st, args[1], [RefV(row_cell, (), True)])
    I.side["update_row"] = I.cell_get(s2, row_cell)
    I.side["update_state"] = s2
    return s2, args[0]


def m_hm_or_insert(I, st, c, args, body, t):
    row_cell = I.side.get("row_cell")
    if I.side.get("table_mode") != "present":
        v = args[1]
        if c.get("name") in ("or_insert_with", "or_insert_with_key") and not isinstance(v, (StructV,)):
            try:
                st, v = I.call_value(st, args[1], [] if c.get("name") == "or_insert_with" else [I.side.get("entry_key")])
            except Exception:
                pass
        I.side["create_row"] = v
    return st, RefV(row_cell, (), True) if row_cell is not None else Top(why="or_insert")


def m_hm_occupied(I, st, c, args, body, t):
    """OccupiedEntry::get / get_mut / into_mut / insert / key: the entry is the context's row"""
    row_cell = I.side.get("row_cell")
    nm = c.get("name")
    I.side["entry_style"] = "match"
    if row_cell is None:
        return I.unmodelled(st, c, "%s (no row context)" % nm, args)
    if nm == "insert":
        old = I.cell_get(st, row_cell)
        try:
            I.on_store(st, row_cell, (), args[1], t)
        except Exception:
            pass
        I.cell_set(st, row_cell, args[1])
        return st, old
    if nm == "key":
        return st, I.side.get("entry_key")
    return st, RefV(row_cell, (), nm != "get")


def m_hm_vacant_insert(I, st, c, args, body, t):
    """VacantEntry::insert(v) / insert_entry: a new row"""
    I.side["entry_style"] = "match"
    I.side["create_row"] = args[1]
    return st, RefV(I.new_cell(st, args[1]), (), True)


def m_hm_insert(I, st, c, args, body, t):
    """HashMap::insert(k, v): creates the row (absent hypothesis) or replaces it (present hypothesis)"""
    row_cell = I.side.get("row_cell")
    mode = I.side.get("table_mode")
    I.side["entry_style"] = "match"
    if mode != "present":
        I.side["create_row"] = args[2]
    if mode == "absent" or row_cell is None:
        return st, EnumV.none()
    old = I.cell_get(st, row_cell)
    if mode == "present":
        try:
            I.on_store(st, row_cell, (), args[2], t)
        except Exception:
            pass
        I.cell_set(st, row_cell, args[2])
        return st, EnumV.some(old)
    return st, EnumV(OPT, {"None": ((), {}), "Some": ((old,), {})})


def m_hm_retain(I, st, c, args, body, t):
    row_cell = I.side.get("row_cell")
    if row_cell is None:
        return I.unmodelled(st, c, "retain (no row context)", args)
    key = I.new_cell(st, IntV("u32", None, 1, (1 << 24) - 1))
    s2, r = I.call_value(st, args[1], [RefV(key), RefV(row_cell, (), True)])
    I.side["retain_result"] = r
    I.side["retain_pc"] = s2.pc
    return s2, TupleV(())


def m_unit(I, st, c, args, body, t):
    return st, TupleV(())


def m_opaque(ty):
    def m(I, st, c, args, body, t):
        d = frozenset()
        for a in args:
            d |= deps_of(deref(I, st, a) if isinstance(a, RefV) else a)
        return st, OpaqueV(ty, None, d)
    return m


def m_bool_unknown(I, st, c, args, body, t):
    return st, BoolV(None, None, frozenset([("env", "log-level")]))


def m_observer(I, st, c, args, body, t):
    lat = FloatV(-90.0, 90.0, frozenset([("observer", "lat")]), ("observer", "lat"))
    lon = FloatV(-180.0, 180.0, frozenset([("observer", "lon")]), ("observer", "lon"))
    return st, EnumV(OPT, {"None": ((), {}), "Some": ((TupleV([lat, lon]),), {})})


def m_mem_swap(I, st, c, args, body, t):
    a, b = args
    if isinstance(a, RefV) and isinstance(b, RefV):
        va, vb = I.get_path(st, a.cell, a.proj), I.get_path(st, b.cell, b.proj)
        I.set_path(st, a.cell, a.proj, vb)
        I.set_path(st, b.cell, b.proj, va)
    return st, TupleV(())


class Models:
    def __init__(self):
        E = {}
        P = []  # (predicate on name, model)
        o = "std::option::Option::<T>::"
        r = "std::result::Result::<T, E>::"
        E[o + "map"] = m_option_map
        E[r + "map"] = m_option_map
        E[o + "and_then"] = m_option_and_then
        E[o + "filter"] = m_option_filter
        E[o + "or"] = m_option_or
        E[o + "unwrap_or"] = m_option_unwrap_or
        E[r + "unwrap_or"] = m_option_unwrap_or
        E[o + "is_some"] = m_is_some
        E[o + "is_none"] = m_is_none
        E[r + "is_ok"] = m_is_some
        E[r + "is_err"] = m_is_none
        E[o + "is_some_and"] = m_is_some_and
        E[o + "expect"] = m_expect
        E[o + "unwrap"] = m_expect
        E[r + "expect"] = m_expect
        E[r + "unwrap"] = m_expect
        E[o + "as_ref"] = m_as_ref
        E["<std::option::Option<T> as std::ops::Try>::branch"] = m_try_branch
        E["<std::result::Result<T, E> as std::ops::Try>::branch"] = m_try_branch
        E["<std::option::Option<T> as std::cmp::PartialEq>::eq"] = m_partial_eq
        E["<std::option::Option<T> as std::cmp::PartialEq>::ne"] = m_partial_ne
        E["<std::option::Option<T> as std::clone::Clone>::clone_from"] = m_clone_from
        E["<std::option::Option<T> as std::clone::Clone>::clone"] = m_clone
        E["<std::string::String as std::clone::Clone>::clone"] = m_clone
        E["core::tuple::<impl std::cmp::PartialEq for (U, T)>::eq"] = m_partial_eq
        E["core::tuple::<impl std::cmp::PartialEq for (U, T)>::ne"] = m_partial_ne
        E["<T as std::convert::TryInto<U>>::try_into"] = m_try_into
        E["core::num::<impl u32>::abs_diff"] = m_abs_diff
        E["core::num::<impl i64>::abs"] = m_int_abs
        E["core::num::<impl i32>::abs"] = m_int_abs
        E["std::ops::RangeInclusive::<Idx>::new"] = m_range_incl_new
        E["std::ops::RangeInclusive::<Idx>::contains"] = m_range_contains
        E["std::ops::Range::<Idx>::contains"] = m_range_contains
        E["<I as std::iter::IntoIterator>::into_iter"] = m_into_iter
        E["std::array::<impl std::iter::IntoIterator for &'a [T; N]>::into_iter"] = m_into_iter
        E["core::slice::<impl [T]>::iter"] = m_slice_iter
        E["std::iter::Iterator::map"] = m_add_stage("map")
        E["std::iter::Iterator::filter"] = m_add_stage("filter")
        E["std::iter::Iterator::filter_map"] = m_add_stage("filter_map")
        E["std::iter::Iterator::map_while"] = m_add_stage("map_while")
        E["std::iter::Iterator::enumerate"] = m_add_stage("enumerate")
        E["std::iter::Iterator::copied"] = m_add_stage("copied")
        E["std::iter::Iterator::cloned"] = m_add_stage("cloned")
        E["std::iter::Iterator::collect"] = m_collect
        E["std::iter::Iterator::max"] = m_iter_max
        E["std::iter::Iterator::min"] = m_iter_max
        E["<std::slice::Iter<'a, T> as std::iter::Iterator>::fold"] = m_fold
        E["std::iter::Iterator::fold"] = m_fold
        E["<std::slice::Iter<'a, T> as std::iter::Iterator>::all"] = m_all_any
        E["<std::slice::Iter<'a, T> as std::iter::Iterator>::any"] = m_all_any
        E["std::iter::Iterator::all"] = m_all_any
        E["std::iter::Iterator::any"] = m_all_any
        E["core::str::<impl str>::chars"] = m_chars
        E["core::str::<impl str>::bytes"] = m_bytes
        E["std::char::methods::<impl char>::to_digit"] = m_to_digit
        E["std::char::methods::<impl char>::from_u32"] = m_from_u32
        E["std::vec::Vec::<T, A>::len"] = m_vec_len
        E["core::slice::<impl [T]>::len"] = m_vec_len
        E["core::str::<impl str>::len"] = m_vec_len
        E["std::slice::<impl [T]>::to_vec"] = m_to_vec
        E["std::vec::Vec::<T, A>::append"] = m_vec_append
        E["std::vec::Vec::<T, A>::push"] = m_vec_push
        E["std::vec::from_elem"] = m_from_elem
        E["std::vec::Vec::<T>::new"] = m_vec_new
        E["std::string::String::new"] = m_string_new
        E["core::slice::<impl [T]>::contains"] = m_contains
        E["core::f64::<impl f64>::abs"] = m_fabs
        E["std::f64::<impl f64>::abs"] = m_fabs
        E["std::f64::<impl f64>::floor"] = _f1("floor", math.floor)
        E["std::f64::<impl f64>::ceil"] = _f1("ceil", math.ceil)
        E["std::f64::<impl f64>::round"] = _f1("round", round)
        E["std::f64::<impl f64>::trunc"] = _f1("trunc", math.trunc)
        E["std::f64::<impl f64>::sqrt"] = m_sqrt
        E["std::f64::<impl f64>::powi"] = m_powi
        E["std::f64::<impl f64>::sin"] = m_trig("sin", -1.0, 1.0)
        E["std::f64::<impl f64>::cos"] = m_trig("cos", -1.0, 1.0)
        E["std::f64::<impl f64>::atan2"] = m_atan2
        E["core::f64::<impl f64>::to_degrees"] = m_to_degrees
        E["core::f64::<impl f64>::total_cmp"] = m_total_cmp
        E["chrono::Utc::now"] = m_now
        E["chrono::DateTime::<Tz>::signed_duration_since"] = m_sds
        E["chrono::TimeDelta::num_seconds"] = m_num_seconds
        E["chrono::TimeDelta::seconds"] = m_timedelta_seconds
        E["std::sync::RwLock::<T>::write"] = m_lock_ok
        E["std::sync::RwLock::<T>::read"] = m_lock_ok
        E["std::sync::Mutex::<T>::lock"] = m_lock_ok
        E["std::sync::Mutex::<T>::new"] = m_wrap_new
        E["std::sync::RwLock::<T>::new"] = m_wrap_new
        E["std::sync::Arc::<T>::new"] = m_wrap_new
        E["std::collections::HashMap::<K, V, S, A>::entry"] = m_hm_entry
        E["std::collections::hash_map::Entry::<'a, K, V, A>::and_modify"] = m_hm_and_modify
        E["std::collections::hash_map::Entry::<'a, K, V, A>::or_insert"] = m_hm_or_insert
        E["std::collections::hash_map::Entry::<'a, K, V, A>::or_insert_with"] = m_hm_or_insert
        for nm in ("get", "get_mut", "into_mut", "insert", "key"):
            E["std::collections::hash_map::OccupiedEntry::<'a, K, V, A>::" + nm] = m_hm_occupied
        E["std::collections::hash_map::VacantEntry::<'a, K, V, A>::insert"] = m_hm_vacant_insert
        E["std::collections::HashMap::<K, V, S, A>::insert"] = m_hm_insert
        E["std::collections::HashMap::<K, V, S, A>::retain"] = m_hm_retain
        E["std::collections::HashMap::<K, V, S, A>::shrink_to_fit"] = m_unit
        E["std::cmp::PartialOrd::le"] = m_bool_unknown
        E["log::max_level"] = m_opaque("log::LevelFilter")
        E["log::__private_api::loc"] = m_opaque("log::Location")
        E["log::__private_api::log"] = m_unit
        E["log::__private_api::enabled"] = m_bool_unknown
        E["std::fmt::Arguments::<'a>::new"] = m_opaque("fmt::Arguments")
        E["std::fmt::Arguments::<'a>::from_str"] = m_opaque("fmt::Arguments")
        E["std::fmt::format"] = m_str_opaque
        E["std::hint::must_use"] = m_wrap_new
        E["std::slice::<impl [T]>::join"] = m_str_opaque
        E["std::slice::<impl [T]>::concat"] = m_str_opaque
        E["<std::string::String as std::ops::Add<&str>>::add"] = m_str_opaque
        E["std::string::ToString::to_string"] = m_str_opaque
        E["std::mem::swap"] = m_mem_swap
        E["decoder::observer::get_observer_coords"] = m_observer
        self.exact = E

    def lookup(self, callee, name):
        if name in self.exact:
            return self.exact[name]
        p = callee.get("path") or ""
        if p in self.exact and name not in ():
            # generic path known, instance is a foreign impl: use the generic model only for std traits listed by path
            if p.startswith("std::iter::Iterator::") or p.startswith("std::cmp::PartialOrd::"):
                return self.exact[p]
        if name is None:
            return None
        if p == "std::iter::IntoIterator::into_iter":
            return m_into_iter
        if p == "std::iter::Iterator::next" or name.endswith("as std::iter::Iterator>::next") or name.endswith("::next") and "iter" in name:
            return m_iter_next
        if p in ("std::ops::Deref::deref", "std::ops::DerefMut::deref_mut", "std::convert::AsMut::as_mut", "std::convert::AsRef::as_ref",
                 "std::borrow::Borrow::borrow", "std::borrow::BorrowMut::borrow_mut"):
            return m_identity_ref
        if p in ("std::ops::Index::index", "std::ops::IndexMut::index_mut"):
            return m_index
        if p.startswith("std::ops::") and callee.get("name") in ("shr", "shl", "bitand", "bitor", "bitxor", "add", "sub", "mul", "div",
                                                                   "rem", "not", "neg"):
            if "String" in name:
                return m_str_opaque
            if "DateTime" in name or "chrono" in name:
                return m_datetime_add
            return m_int_op
        if name.startswith("core::fmt::rt::Argument::"):
            return m_opaque("fmt::Argument")
        if callee.get("name") in ("checked_sub", "checked_add", "checked_mul") and "core::num" in name:
            return m_checked
        if callee.get("name") in ("saturating_sub", "saturating_add", "saturating_mul", "wrapping_sub", "wrapping_add", "wrapping_mul") and "core::num" in name:
            return m_saturating
        if callee.get("name") in ("max", "min") and ("core::cmp::Ord" in p or "std::cmp::Ord" in p or "core::f64" in name or "std::f64" in name):
            return m_min_max
        if p == "std::ops::FromResidual::from_residual":
            return m_from_residual
        if p in ("std::convert::From::from", "std::convert::Into::into") and ("std::convert::num" in name or "core::convert::num" in name):
            return m_int_from
        if p == "std::cmp::PartialEq::eq":
            return m_partial_eq
        if p == "std::cmp::PartialEq::ne":
            return m_partial_ne
        if p == "std::clone::Clone::clone":
            return m_clone
        if name.startswith("lazy_static::"):
            return m_opaque("lazy")
        return None


# --------------------------------------------------------------------------- additions (presentation / options paths)

def m_unwrap_or_else(I, st, c, args, body, t):
    o = opt_cases(I, st, args[0])
    good = "Some" if o.adt == OPT else "Ok"
    out = []
    if o.may(good):
        s = st.copy()
        if I.install_guard(s, o.variants[good][1]):
            out.append((s, I.resolve(s, o.payload(good))))
    bad = [n for n in o.variants if n != good]
    if bad:
        s = st.copy()
        try:
            a = [] if o.adt == OPT else [o.payload(bad[0])]
            s2, r = I.call_value(s, args[1], a)
            out.append((s2, r))
        except Diverge:
            pass
    return join_results(I, out)


def m_opt_both(ty):
    def m(I, st, c, args, body, t):
        d = frozenset()
        for a in args:
            d |= deps_of(deref(I, st, a) if isinstance(a, RefV) else a)
        return st, EnumV(OPT, {"None": ((), {}), "Some": ((OpaqueV(ty, ("checked", ty), d),), {})})
    return m


def m_res_both(I, st, c, args, body, t):
    return st, EnumV(RES, {"Ok": ((TupleV(()),), {}), "Err": ((OpaqueV("error"),), {})})


def m_bt_entry(I, st, c, args, body, t):
    return st, StructV("BEntry", {"key": args[1]})


def m_bt_or_insert(I, st, c, args, body, t):
    v = args[1]
    if isinstance(v, IntV):
        lo, hi = ty_range(v.ty)
        v = IntV(v.ty, None, min(v.lo, 0), hi, None, frozenset([("pre", "count")]), fresh_sid())
    cell = I.new_cell(st, v)
    return st, RefV(cell, (), True)


def m_bt_and_modify(I, st, c, args, body, t):
    v = IntV("i32", None, 0, ty_range("i32")[1], None, frozenset([("pre", "count")]), fresh_sid())
    cell = I.new_cell(st, v)
    s2, _ = I.call_value(st, args[1], [RefV(cell, (), True)])
    return s2, args[0]


def _extend(models):
    E = models.exact
    E["std::option::Option::<T>::unwrap_or_else"] = m_unwrap_or_else
    E["std::result::Result::<T, E>::unwrap_or_else"] = m_unwrap_or_else
    E["chrono::TimeDelta::try_seconds"] = m_opt_both("chrono::TimeDelta")
    E["chrono::DateTime::<Tz>::checked_add_signed"] = m_opt_both("chrono::DateTime<chrono::Utc>")
    E["chrono::DateTime::<Tz>::checked_sub_signed"] = m_opt_both("chrono::DateTime<chrono::Utc>")
    E["std::collections::BTreeMap::<K, V>::new"] = m_opaque("BTreeMap")
    E["std::collections::BTreeMap::<K, V, A>::entry"] = m_bt_entry
    E["std::collections::btree_map::Entry::<'a, K, V, A>::or_insert"] = m_bt_or_insert
    E["std::collections::btree_map::Entry::<'a, K, V, A>::or_default"] = m_bt_or_insert
    E["std::collections::btree_map::Entry::<'a, K, V, A>::and_modify"] = m_bt_and_modify
    E["std::fmt::Formatter::<'a>::write_fmt"] = m_res_both
    E["core::fmt::Formatter::<'a>::write_fmt"] = m_res_both
    E["std::fmt::Write::write_fmt"] = m_res_both
    E["std::fmt::Formatter::<'a>::write_str"] = m_res_both


_orig_init = Models.__init__


def _init2(self):
    _orig_init(self)
    _extend(self)


Models.__init__ = _init2


# --------------------------------------------------------------------------- formatting as a layout (C14)

def m_fmt_argument(I, st, c, args, body, t):
    """fmt::rt::Argument::new_*(&x) / from_usize(&n): keep the abstract value that will be printed"""
    v = deref(I, st, args[0])
    return st, OpaqueV("fmt::Argument", ("fmtarg", c.get("name"), v), deps_of(v))


def _site_of(I, t):
    sp = t.get("span") or {}
    cs = sp.get("callsite") or sp
    key = (cs.get("file"), cs.get("line"), cs.get("col"))
    idx = getattr(I, "_fmt_index", None)
    if idx is None:
        idx = {}
        for s in I.facts.fmt_sites:
            c2 = s["span"].get("callsite") or s["span"]
            idx[(c2.get("file"), c2.get("line"), c2.get("col"))] = s
        I._fmt_index = idx
    return idx.get(key)


def m_fmt_arguments_from_str(I, st, c, args, body, t):
    v = deref(I, st, args[0])
    site = _site_of(I, t)
    if site is None and isinstance(v, StrV) and v.skind == "lit":
        site = {"span": t.get("span") or {}, "pieces": [{"lit": v.text}], "args": []}
    return st, OpaqueV("fmt::Arguments", ("fmtargs", site, ()), frozenset())


def m_fmt_arguments_new(I, st, c, args, body, t):
    site = _site_of(I, t)
    vals = []
    if len(args) > 1:
        arr = deref(I, st, args[1])
        if isinstance(arr, VecV) and arr.elems is not None:
            vals = list(arr.elems)
    d = frozenset()
    for v in vals:
        d |= deps_of(v)
    return st, OpaqueV("fmt::Arguments", ("fmtargs", site, tuple(vals)), d)


def _sources(v):
    """what a printed value shows: row fields (from the pre-state labels), blank, or other"""
    if isinstance(v, StrV) and v.skind == "lit":
        return {("blank",)} if v.text.strip(" ") == "" else {("text", v.text)}
    out = set()
    for d in deps_of(v):
        if isinstance(d, tuple) and d:
            if d[0] == "ctl":
                d = d[1]
                if not (isinstance(d, tuple) and d):
                    continue
            if d[0] == "pre":
                out.add(("field", d[1].split(".")[0].split("[")[0]))
            elif d[0] == "now":
                out.add(("clock",))
    if not out:
        if isinstance(v, IntV) and v.is_const():
            return {("const", v.lo)}
        return {("other", getattr(v, "kind", "?"))}
    return out


def m_write_fmt(I, st, c, args, body, t):
    """Formatter::write_fmt / fmt::Write::write_fmt on a layout sink: append one source-set per character"""
    sink = args[0]
    cur = deref(I, st, sink)
    a = deref(I, st, args[1]) if isinstance(args[1], RefV) else args[1]
    ok_res = EnumV(RES, {"Ok": ((TupleV(()),), {})})
    if not isinstance(cur, LayoutV):
        if I.side.get("layout_mode"):
            cur = LayoutV()
        else:
            return st, EnumV(RES, {"Ok": ((TupleV(()),), {}), "Err": ((OpaqueV("error"),), {})})
    if not (isinstance(a, OpaqueV) and a.term and a.term[0] == "fmtargs" and a.term[1] is not None):
        cur = LayoutV(cur.cells, True, cur.issues + ("a write whose template is not known",))
    else:
        site, vals = a.term[1], a.term[2]
        line = (site["span"].get("callsite") or site["span"]).get("line")
        for p in site["pieces"]:
            if "lit" in p:
                for ch in p["lit"]:
                    cur = cur.append(1, [("lit", ch)])
                continue
            ai = p.get("arg")
            av = vals[ai] if ai is not None and ai < len(vals) else None
            pv = av.term[2] if isinstance(av, OpaqueV) and av.term and av.term[0] == "fmtarg" else None
            w = p.get("width")
            if isinstance(w, dict):
                wi = w.get("arg")
                wv = vals[wi] if wi is not None and wi < len(vals) else None
                wv = wv.term[2] if isinstance(wv, OpaqueV) and wv.term and wv.term[0] == "fmtarg" else None
                if isinstance(wv, IntV) and wv.is_const():
                    w = wv.lo
                else:
                    cur = LayoutV(cur.cells, True, cur.issues + ("line %s: width is not a constant (%r)" % (line, wv),))
                    w = 1
            if w is None:
                w = 1        # unpadded char / single digit: minimum display width
            srcs = _sources(pv) if pv is not None else {("other", "?")}
            # the cell is also "about" the row fields that decided this branch (filled vs blank arm of a column)
            for d in st.ctl_deps():
                if isinstance(d, tuple) and d and d[0] == "pre":
                    srcs = set(srcs) | {("field", d[1].split(".")[0].split("[")[0])}
            if len(srcs) > 1:
                srcs = {x for x in srcs if x[0] not in ("other", "const")} or srcs
            # alignment rules
            numeric = isinstance(pv, (IntV, FloatV)) and not (isinstance(pv, IntV) and pv.ty == "char")
            text = isinstance(pv, StrV)
            if numeric and p.get("align") == "<":
                cur = cur.with_issue("line %s: a number is left-aligned" % line)
            # a one-character cell has no slack: the number in it must be provably one character wide (a width is only a minimum)
            if numeric and isinstance(pv, IntV) and (p.get("width") is None or w <= 1):
                top = {"UpperHex": 15, "LowerHex": 15, "Octal": 7, "Binary": 1}.get(p.get("trait"), 9)
                if not (pv.lo >= 0 and pv.hi <= top):
                    cur = cur.with_issue("line %s: a one-character cell shows a number in [%s, %s] (%s) - wider than one character above %d"
                                         % (line, pv.lo, pv.hi, p.get("trait"), top))
            if text and p.get("prec") is not None and not (pv.skind == "lit" and pv.text == ""):
                cur = cur.with_issue("line %s: text is cut off by a precision (.%s) - a longer value is shown incompletely" % (line, p.get("prec")))
            numtext = isinstance(pv, StrV) and pv.skind == "numtext"
            if numtext and p.get("align") in (None, "<") and isinstance(w, int) and w > 1:
                cur = cur.with_issue("line %s: a number (formatted into a string first) is left-aligned in its column" % line)
            if text and not numtext and p.get("align") == ">" and not (isinstance(pv, StrV) and pv.skind == "lit" and pv.text == ""):
                cur = cur.with_issue("line %s: text is right-aligned" % line)
            cur = cur.append(w, srcs)
    if isinstance(sink, RefV):
        I.set_path(st, sink.cell, sink.proj, cur)
    return st, ok_res


def _extend2(models):
    E = models.exact
    for nm in ("std::fmt::Formatter::<'a>::write_fmt", "core::fmt::Formatter::<'a>::write_fmt", "std::fmt::Write::write_fmt"):
        E[nm] = m_write_fmt
    E["std::fmt::Arguments::<'a>::new"] = m_fmt_arguments_new
    E["std::fmt::Arguments::<'a>::from_str"] = m_fmt_arguments_from_str
    E["std::fmt::Arguments::<'a>::new_const"] = m_fmt_arguments_from_str


_orig_init2 = Models.__init__


def _init3(self):
    _orig_init2(self)
    _extend2(self)


Models.__init__ = _init3
_orig_lookup = Models.lookup


def _lookup2(self, callee, name):
    if name and name.startswith("core::fmt::rt::Argument::"):
        return m_fmt_argument
    return _orig_lookup(self, callee, name)


Models.lookup = _lookup2
