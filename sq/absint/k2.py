"""K2 contexts: one accepted frame applied to a row (update path) and used to create a row (creation path).

The harness reproduces the accepted part of the per-line loop exactly as the E1 rules have verified it:
    df   = get_downlink_format(&message)          (Some)
    icao = get_icao(&message, df)                 (Some, non-zero)
    dl   = DF::from_message(&message)             (Ok)
    planes.update_aircraft(&dl, &message, df, icao, &args)
with the message a symbolic nibble vector whose selector bits are fixed by the context, the table modelled by
its Entry API (and_modify -> the pre-state row, or_insert -> the created row), and the row's pre-state symbolic.
"""
from .ctx import frame, field_bits, new_interp, ref_to
from .domain import (BoolV, EnumV, FloatV, IntV, OpaqueV, RefV, StrV, StructV, Top, TupleV, VecV, deps_of, fresh_sid, ty_range,
                     INT_TYPES)
from .interp import Diverge, State

OPT = "std::option::Option"


def pre_value(name, ty, inv, ctx):
    """symbolic pre-state of a row field from its type (ty json) and optional invariant"""
    s = ty["s"]
    k = ty["k"]
    lab = ("pre", name)
    if k == "prim":
        if s in INT_TYPES and s != "bool":
            lo, hi = inv.get(name, ty_range(s))
            return IntV(s, None, lo, hi, None, frozenset([lab]), fresh_sid(), lab)
        if s == "bool":
            return BoolV(None, None, frozenset([lab]), lab)
        if s in ("f64", "f32"):
            lo, hi = inv.get(name, (float("-inf"), float("inf")))
            return FloatV(lo, hi, frozenset([lab]), lab, s)
    if k == "adt" and ty["path"] == OPT:
        inner = pre_value(name, ty["args"][0], inv, ctx)
        return EnumV(OPT, {"None": ((), {}), "Some": ((inner,), {})})
    if k == "adt" and ty["path"].endswith("String"):
        return StrV("opaque", deps=frozenset([lab]))
    if k == "adt" and "DateTime" in ty["path"]:
        return OpaqueV(s, lab, frozenset([lab]))
    if k == "tuple":
        return TupleV([pre_value("%s.%d" % (name, i), t, inv, ctx) for i, t in enumerate(ty["of"])])
    if k == "array":
        return VecV([pre_value("%s[%d]" % (name, i), ty["of"], inv, ctx) for i in range(ty["len"])])
    if k == "ref" and ty["to"]["k"] == "str":
        return StrV("opaque", deps=frozenset([lab]))
    if k == "adt":
        return None  # caller handles crate structs
    return Top(frozenset([lab]), "pre %s" % name)


def pre_row(facts, ctx, inv):
    adt = [n for n in facts.adts if n.endswith("::Plane")]
    if len(adt) != 1:
        from ..facts import Broken
        raise Broken("K2 anchor: Plane ADT")
    fields = {}
    for f in facts.adts[adt[0]]["variants"][0]["fields"]:
        name, ty = f["name"], f["ty"]
        if name == "capability":
            ca = ctx.get("CA")
            cav = IntV.const("u32", ca) if ca is not None else IntV("u32", None, 0, 7, None, frozenset([("pre", "capability.0")]), fresh_sid(), ("pre", "capability.0"))
            caps = ctx.get("caps") or {}
            capn = [n for n in facts.adts if n.endswith("::Capability")][0]
            cf = {}
            for g in facts.adts[capn]["variants"][0]["fields"]:
                if g["ty"]["s"] == "bool":
                    v = caps.get(g["name"])
                    cf[g["name"]] = BoolV(v, None, frozenset([("pre", "capability.1." + g["name"])]), ("pre", "capability.1." + g["name"]))
                else:
                    cf[g["name"]] = IntV(g["ty"]["s"], None, 0, (1 << 24) - 1, None, frozenset([("pre", "capability.1." + g["name"])]), fresh_sid())
            fields[name] = TupleV([cav, StructV(capn, cf)])
            continue
        v = pre_value(name, ty, inv, ctx)
        if v is None:
            v = Top(frozenset([("pre", name)]), "pre struct %s" % name)
        fields[name] = v
    return StructV(adt[0], fields)


def args_value(facts, ctx):
    adt = [n for n in facts.adts if n.endswith("::Args")][0]
    fields = {}
    for f in facts.adts[adt]["variants"][0]["fields"]:
        name, ty = f["name"], f["ty"]
        lab = ("args", name)
        if name == "relaxed":
            fields[name] = BoolV(ctx.get("R"), None, frozenset([lab]), lab)
        elif name == "use_update_method":
            fields[name] = BoolV(ctx.get("U"), None, frozenset([lab]), lab)
        elif ty["s"] == "bool":
            fields[name] = BoolV(None, None, frozenset([lab]), lab)
        elif ty["s"] in INT_TYPES:
            fields[name] = IntV(ty["s"], None, None, None, None, frozenset([lab]), fresh_sid(), lab)
        else:
            fields[name] = Top(frozenset([lab]), "args.%s" % name)
    return StructV(adt, fields)


class K2Result:
    pass


def run_k2(facts, ctx, inv=None, watch=()):
    """ctx: L (14|28), fixed {bit: 0/1}, U, R, CA, caps{bds40,bds50,bds60,...}.  Returns K2Result."""
    inv = inv or {}
    I = new_interp(facts)
    I.ctx_label = ctx.get("label")
    I.watch = set(watch)
    st = State()
    res = K2Result()
    res.I = I
    res.ctx = ctx
    res.diverged = None
    res.stores = []
    res.gate = None
    res.pre = None
    res.post_update2 = None
    res.gate_preds = []
    I.side["gate_preds"] = res.gate_preds
    res.atom_vals = {}
    I.side["atom_vals"] = res.atom_vals
    msg = frame(ctx["L"], dict(ctx.get("fixed") or {}))
    if ctx.get("via_line", True):
        # the frame reaches the decoder as a text line: `digits` hex digits (a 12-digit receiver time stamp may precede
        # the frame) with arbitrary non-hex decoration in between; the accept gates are part of the context
        ndig = ctx.get("digits", ctx["L"])
        prefix = []
        for i in range(max(0, ndig - ctx["L"])):
            prefix.append(IntV("u32", [("b", 1000 + 4 * i + 4 - k) for k in range(4)], None, None))
        digs = prefix + list(msg.elems)
        if ndig < ctx["L"]:
            digs = list(msg.elems)[:ndig]
        line = StrV("line", digits=digs)
        lref = ref_to(I, st, line)
        try:
            st, mo = I.run_body(st, facts.one("get_message"), [lref])
        except Diverge as e:
            res.diverged = "definite panic in get_message"
            res.gate = "panic"
            return res
        res.gate = mo
        res.gate_warnings = list(I.warnings)
        if not (isinstance(mo, EnumV) and mo.may("Some")):
            res.diverged = "rejected by get_message"
            return res
        I.install_guard(st, mo.variants["Some"][1])
        msg = mo.payload("Some")
        res.message = msg
    mref = ref_to(I, st, msg)
    row0 = pre_row(facts, ctx, inv)
    res.pre = row0
    row_cell = I.new_cell(st, row0)
    I.side["row_cell"] = row_cell

    def on_store(state, cell, path, v, node):
        if cell == row_cell and path and path[0][0] == "field":
            res.stores.append((path, v, state.pc, state.ctl_deps()))
    I.on_store = on_store
    try:
        b = facts.one("get_downlink_format")
        st, dfo = I.run_body(st, b, [mref])
        if not (isinstance(dfo, EnumV) and dfo.only("Some") and isinstance(dfo.payload("Some"), IntV) and dfo.payload("Some").is_const()):
            res.diverged = "imprecise: downlink format of the accepted frame not determined (%r)" % (dfo,)
            return res
        df = dfo.payload("Some")
        res.df = df.lo
        st, io = I.run_body(st, facts.one("get_icao"), [mref, df])
        res.icao_opt = io
        if not (isinstance(io, EnumV) and io.may("Some")):
            res.diverged = "imprecise: address never available: %r" % (io,)
            return res
        I.install_guard(st, io.variants["Some"][1])
        icao = I.resolve(st, io.payload("Some"))
        res.icao = icao
        fm = "<decoder::downlink::dfs::DF as decoder::downlink::dfs::Downlink>::from_message"
        fmb = facts.bodies.get(fm) or facts.one("from_message")
        st, dlo = I.run_body(st, fmb, [mref])
        res.dl_opt = dlo
        if not (isinstance(dlo, EnumV) and dlo.may("Ok")):
            res.diverged = "DF::from_message never Ok"
            return res
        dl = dlo.payload("Ok")
        res.dl = dl
        dlref = ref_to(I, st, dl)
        args = args_value(facts, ctx)
        aref = ref_to(I, st, args)
        planes_adt = [n for n in facts.adts if n.endswith("::Planes")][0]
        planes = StructV(planes_adt, {"aircrafts": OpaqueV("table", ("table",))})
        pref = ref_to(I, st, planes, True)
        ub = facts.one("update_aircraft")
        st_before = st.copy()
        n_stores0 = len(res.stores)
        st, _ = I.run_body(st, ub, [pref, dlref, mref, df, icao, aref])
        res.post_update = I.side.get("update_row")
        res.post_create = I.side.get("create_row")
        if I.side.get("entry_style") == "match" or res.post_update is None:
            # the updater branches on the table itself (match on Entry, get_mut / insert, contains_key): interpret it once
            # per hypothesis - address already in the table / not yet - so that the updated row is not merged with the
            # untouched one of the other arm
            del res.stores[n_stores0:]
            I.side["table_mode"] = "present"
            I.side.pop("update_row", None)
            sp = st_before.copy()
            sp, _ = I.run_body(sp, ub, [pref, dlref, mref, df, icao, aref])
            res.post_update = I.side.get("update_row") or I.cell_get(sp, row_cell)
            I.side["update_state"] = sp
            n_stores1 = len(res.stores)
            I.side["table_mode"] = "absent"
            I.side.pop("create_row", None)
            sa = st_before.copy()
            sa, _ = I.run_body(sa, ub, [pref, dlref, mref, df, icao, aref])
            del res.stores[n_stores1:]
            res.post_create = I.side.get("create_row")
            I.side["table_mode"] = "present"
            st = sp
        res.final_state = st
        res.post_update2 = None
        if ctx.get("twice") and res.post_update is not None:
            # idempotence: the same frame applied again to the row it has just updated
            n_obl = len(I.obligations)
            st2 = I.side.get("update_state") or st
            I.cell_set(st, row_cell, res.post_update)
            res.stores_first = list(res.stores)
            I.side.pop("update_row", None)
            st, _ = I.run_body(st, ub, [pref, dlref, mref, df, icao, aref])
            res.post_update2 = I.side.get("update_row") or (I.cell_get(st, row_cell) if I.side.get("table_mode") == "present" else None)
            res.stores = res.stores_first
    except Diverge as e:
        res.diverged = "definite panic / no return in %s" % e
    return res


def changed_fields(pre, post):
    """field names whose abstract value object differs from the pre-state (identity comparison)"""
    out = []
    if post is None:
        return out
    for n, v in post.fields.items():
        if not same_value(pre.fields.get(n), v):
            out.append(n)
            # the capability pair holds two different things: the CA value (.0) and the BDS 1,7 register adverts (.1)
            pv = pre.fields.get(n)
            if n == "capability" and getattr(v, "kind", None) == "tuple" and getattr(pv, "kind", None) == "tuple" and len(v.items) == 2 == len(pv.items):
                for i in (0, 1):
                    if not same_value(pv.items[i], v.items[i]):
                        out.append("capability.%d" % i)
    return out


def same_value(a, b):
    if a is b:
        return True
    if a is None or b is None:
        return False
    if a.kind != b.kind:
        return False
    if a.kind == "tuple":
        return len(a.items) == len(b.items) and all(same_value(x, y) for x, y in zip(a.items, b.items))
    if a.kind == "struct":
        return a.fields.keys() == b.fields.keys() and all(same_value(a.fields[k], b.fields[k]) for k in a.fields)
    if a.kind == "vec":
        return a.elems is not None and b.elems is not None and len(a.elems) == len(b.elems) and all(same_value(x, y) for x, y in zip(a.elems, b.elems))
    if a.kind == "enum":
        if a.variants.keys() != b.variants.keys():
            return False
        return all(all(same_value(x, y) for x, y in zip(a.variants[n][0], b.variants[n][0])) for n in a.variants)
    if a.kind == "int":
        return a.sid is not None and a.sid == b.sid and a.term == b.term and a.lo == b.lo and a.hi == b.hi or (a.is_const() and b.is_const() and a.lo == b.lo and a.ty == b.ty)
    if a.kind == "bool":
        return a.term is not None and a.term == b.term and a.val == b.val or (a.val is not None and a.val == b.val and a.term == b.term)
    if a.kind == "float":
        return a.term is not None and a.term == b.term
    if a.kind == "opaque":
        return a.term is not None and a.term == b.term
    if a.kind == "str":
        return a.skind == b.skind and a.text == b.text and a.deps == b.deps and a.skind in ("lit", "opaque") and (a.skind == "lit" or bool(a.deps))
    return False
