"""E2 std contracts, third tranche: constant strings.

When every input of a formatting / string-building call is a known constant, the result is that constant text (StrV "lit").
This is constant propagation through `format!`, `str::repeat`, `[S]::join`, `String + &str`, `push_str`, `write!` into a
`String` - used to read the table header and separator lines off the header builder however it is written (C14).
Anything not fully constant falls back to the previous (opaque / charset) contract, so nothing else changes.
"""
from . import models as M
from . import models2 as M2
from .domain import BoolV, EnumV, FloatV, IntV, IterV, OpaqueV, RefV, StrV, Top, TupleV, VecV, deps_of
from .models import RES, deref

UNIT = TupleV(())


def _lit(v):
    if isinstance(v, StrV) and v.skind == "lit":
        return v.text
    return None


def _arg_value(av):
    return av.term[2] if isinstance(av, OpaqueV) and av.term and av.term[0] == "fmtarg" else None


def _fmt_one(pv, p, width):
    """text of one placeholder for a constant value, or None"""
    tr = p.get("trait") or "Display"
    s = None
    numeric = False
    if isinstance(pv, StrV) and pv.skind == "lit" and tr == "Display":
        s = pv.text
        if p.get("prec") is not None:
            if not isinstance(p["prec"], int):
                return None
            s = s[:p["prec"]]
    elif isinstance(pv, IntV) and pv.is_const():
        if pv.ty == "char":
            if tr != "Display":
                return None
            s = chr(pv.lo)
        else:
            numeric = True
            n = pv.lo
            if tr == "Display":
                s = str(n)
            elif tr == "UpperHex" and n >= 0:
                s = ("0x" if p.get("alt") else "") + "%X" % n
            elif tr == "LowerHex" and n >= 0:
                s = ("0x" if p.get("alt") else "") + "%x" % n
            elif tr == "Binary" and n >= 0:
                s = ("0b" if p.get("alt") else "") + bin(n)[2:]
            elif tr == "Octal" and n >= 0:
                s = ("0o" if p.get("alt") else "") + oct(n)[2:]
            else:
                return None
    elif isinstance(pv, BoolV) and pv.val is not None and tr == "Display":
        s = "true" if pv.val else "false"
    if s is None:
        return None
    if width is None or len(s) >= width:
        return s
    pad = width - len(s)
    if p.get("zero") and numeric:
        sign = ""
        if s and s[0] in "+-":
            sign, s = s[0], s[1:]
        return sign + "0" * pad + s
    fill = p.get("fill") or " "
    al = p.get("align") or (">" if numeric else "<")
    if al == "<":
        return s + fill * pad
    if al == ">":
        return fill * pad + s
    return fill * (pad // 2) + s + fill * (pad - pad // 2)


def render(a):
    """constant text of a fmt::Arguments value, or None"""
    if not (isinstance(a, OpaqueV) and a.term and a.term[0] == "fmtargs" and a.term[1] is not None):
        return None
    site, vals = a.term[1], a.term[2]
    out = ""
    for p in site["pieces"]:
        if "lit" in p:
            out += p["lit"]
            continue
        ai = p.get("arg")
        pv = _arg_value(vals[ai]) if ai is not None and ai < len(vals) else None
        if pv is None:
            return None
        w = p.get("width")
        if isinstance(w, dict):
            wi = w.get("arg")
            wv = _arg_value(vals[wi]) if wi is not None and wi < len(vals) else None
            if not (isinstance(wv, IntV) and wv.is_const()):
                return None
            w = wv.lo
        if isinstance(p.get("prec"), dict):
            return None
        s = _fmt_one(pv, p, w)
        if s is None:
            return None
        out += s
    return out


def m_format(I, st, c, args, body, t):
    a = deref(I, st, args[0]) if isinstance(args[0], RefV) else args[0]
    s = render(a)
    if s is not None:
        return st, StrV("lit", text=s)
    # a number rendered on its own (`format!("{:.1}", t)`): still a number as far as column alignment is concerned
    if isinstance(a, OpaqueV) and a.term and a.term[0] == "fmtargs" and a.term[1] is not None:
        site, vals = a.term[1], a.term[2]
        ph = [p for p in site["pieces"] if "lit" not in p]
        lits = "".join(p["lit"] for p in site["pieces"] if "lit" in p)
        if len(ph) == 1 and lits.strip() == "":
            ai = ph[0].get("arg")
            pv = _arg_value(vals[ai]) if ai is not None and ai < len(vals) else None
            if (isinstance(pv, IntV) and pv.ty != "char") or isinstance(pv, FloatV):
                return st, StrV("numtext", deps=deps_of(pv))
    return M.m_str_opaque(I, st, c, args, body, t)


_prev_write_fmt = M.m_write_fmt


def m_write_fmt(I, st, c, args, body, t):
    """write!(&mut String, ..) with constant text appends it; everything else as before (layout sinks, opaque)"""
    sink = args[0]
    if isinstance(sink, RefV):
        cur = deref(I, st, sink)
        inner = sink
        if isinstance(cur, RefV):           # &mut &mut String
            inner, cur = cur, deref(I, st, cur)
        if isinstance(cur, StrV):
            # `write!` into a String: <String as fmt::Write>::write_str cannot fail, and the Display impls of the primitive
            # types only pass its result on
            a = deref(I, st, args[1]) if isinstance(args[1], RefV) else args[1]
            s = render(a) if _lit(cur) is not None else None
            if s is not None:
                M2._store(I, st, inner, StrV("lit", text=cur.text + s), t)
            else:
                M2._store(I, st, inner, StrV("opaque", deps=deps_of(cur) | deps_of(a)), t)
            return st, EnumV(RES, {"Ok": ((UNIT,), {})})
    return _prev_write_fmt(I, st, c, args, body, t)


def m_repeat(I, st, c, args, body, t):
    s = _lit(deref(I, st, args[0]))
    n = deref(I, st, args[1])
    if s is not None and isinstance(n, IntV) and n.is_const() and 0 <= n.lo * max(1, len(s)) <= 4096:
        return st, StrV("lit", text=s * n.lo)
    return M.m_str_opaque(I, st, c, args, body, t)


_prev_join = None


def m_join(I, st, c, args, body, t):
    v = deref(I, st, args[0])
    if isinstance(v, VecV) and v.elems is not None:
        parts = [_lit(deref(I, st, e) if isinstance(e, RefV) else e) for e in v.elems]
        sep = ""
        if c.get("name") == "join" and len(args) > 1:
            sv = deref(I, st, args[1])
            sep = _lit(sv)
            if sep is None and isinstance(sv, IntV) and sv.is_const() and sv.ty == "char":
                sep = chr(sv.lo)
        if sep is not None and all(p is not None for p in parts):
            return st, StrV("lit", text=sep.join(parts))
    return _prev_join(I, st, c, args, body, t)


def m_string_add(I, st, c, args, body, t):
    a, b = _lit(deref(I, st, args[0])), _lit(deref(I, st, args[1]))
    if a is not None and b is not None:
        return st, StrV("lit", text=a + b)
    return M.m_str_opaque(I, st, c, args, body, t)


def _wrap_push(prev, is_char):
    def m(I, st, c, args, body, t):
        if isinstance(args[0], RefV):
            cur = deref(I, st, args[0])
            x = deref(I, st, args[1])
            add = None
            if is_char and isinstance(x, IntV) and x.is_const():
                add = chr(x.lo)
            elif not is_char:
                add = _lit(x)
            if _lit(cur) is not None and add is not None:
                M2._store(I, st, args[0], StrV("lit", text=cur.text + add), t)
                return st, UNIT
        return prev(I, st, c, args, body, t)
    return m


def m_unzip(I, st, c, args, body, t):
    """Iterator<Item = (A, B)>::unzip -> (Vec<A>, Vec<B>) (also String / other Extend targets: left opaque)"""
    it = M.to_iter(I, st, args[0])
    st, vals, j = M2.materialize(I, st, it)
    if vals is not None and all(isinstance(x, TupleV) and len(x.items) == 2 for x in vals):
        return st, TupleV([VecV([x.items[0] for x in vals]), VecV([x.items[1] for x in vals])])
    d = it.deps
    a = b = Top(d, "unzip item")
    if isinstance(j, TupleV) and len(j.items) == 2:
        a, b = j.items
    return st, TupleV([VecV(None, IntV("usize", None, 0, 1 << 40), a), VecV(None, IntV("usize", None, 0, 1 << 40), b)])


def install(models):
    global _prev_join
    E = models.exact
    E["std::fmt::format"] = m_format
    E["alloc::fmt::format"] = m_format
    for nm in ("std::fmt::Formatter::<'a>::write_fmt", "core::fmt::Formatter::<'a>::write_fmt", "std::fmt::Write::write_fmt"):
        E[nm] = m_write_fmt
    E["core::str::<impl str>::repeat"] = m_repeat
    E["std::str::<impl str>::repeat"] = m_repeat
    _prev_join = E.get("std::slice::<impl [T]>::join") or M.m_str_opaque
    E["std::slice::<impl [T]>::join"] = m_join
    E["std::slice::<impl [T]>::concat"] = m_join
    E["<std::string::String as std::ops::Add<&str>>::add"] = m_string_add
    for k, is_char in (("std::string::String::push_str", False), ("std::string::String::push", True)):
        if k in E:
            E[k] = _wrap_push(E[k], is_char)
    E["std::iter::Iterator::unzip"] = m_unzip


_o_init = M.Models.__init__


def _init(self):
    _o_init(self)
    install(self)


M.Models.__init__ = _init
