"""E2 abstract domains.

IntV   : reduced product of  interval  x  per-bit provenance  x  affine form over atoms  x  dependency set
         bits (LSB first):  0 | 1 | ('b', n) frame bit n (Mode S numbering) | ('x', frozenset(bits), c) XOR-set | ('t',) unknown
BoolV  : tri-state + the comparison it came from (for refinement on both branch edges)
EnumV  : variant map  name -> (payload values, guard constraints holding when that variant is taken)
StructV/TupleV/VecV/RefV/StrV/OpaqueV/FloatV/ClosureV/FnV/IterV, Top
All values are immutable; `sid` is a symbolic identity that survives copies (refinement follows it).
"""
import itertools
import math

_sid = itertools.count(1)


def fresh_sid():
    return next(_sid)


INT_TYPES = {
    "u8": (8, False), "u16": (16, False), "u32": (32, False), "u64": (64, False), "u128": (128, False), "usize": (64, False),
    "i8": (8, True), "i16": (16, True), "i32": (32, True), "i64": (64, True), "i128": (128, True), "isize": (64, True),
    "char": (32, False), "bool": (1, False),
}


def ty_range(ty):
    w, s = INT_TYPES[ty]
    if ty == "char":
        return 0, 0x10FFFF
    if s:
        return -(1 << (w - 1)), (1 << (w - 1)) - 1
    return 0, (1 << w) - 1


TBIT = ("t",)


def bit_is_const(b):
    return b == 0 or b == 1


# ---- boolean functions of a few option atoms, as truth tables:  ('f', mask)  over the universe set up by tt_setup()
TT = {"n": 0, "all": 0, "names": ()}


def tt_setup(names):
    """declare the option atoms; -> their bits.  Bit `a` of a mask is the function's value under assignment a (atom i = bit i of a)."""
    n = len(names)
    TT["n"], TT["names"] = n, tuple(names)
    TT["all"] = (1 << (1 << n)) - 1
    atoms = []
    for i in range(n):
        block = ((1 << (1 << i)) - 1) << (1 << i)          # 2^i zeros then 2^i ones
        period = 1 << (i + 1)
        m = 0
        reps = (1 << n) // period
        unit = block
        # repeat the 2^(i+1)-bit pattern `reps` times
        m = unit
        width = period
        while width < (1 << n):
            m |= m << width
            width *= 2
        atoms.append(("f", m & TT["all"]))
    return atoms


def _is_f(b):
    return isinstance(b, tuple) and len(b) == 2 and b[0] == "f"


def _fmask(b):
    if b == 0:
        return 0
    if b == 1:
        return TT["all"]
    if _is_f(b):
        return b[1]
    return None


def _fnorm(m):
    if m == 0:
        return 0
    if m == TT["all"]:
        return 1
    return ("f", m)


def tt_support(b):
    """names of the atoms a truth-table bit really depends on"""
    if not _is_f(b):
        return ()
    out = []
    m = b[1]
    n = TT["n"]
    for i in range(n):
        # compare cofactors: shift by 2^i and mask the positions where atom i = 0
        sh = 1 << i
        lowmask = 0
        unit = (1 << sh) - 1
        width = sh * 2
        lowmask = unit
        while width < (1 << n):
            lowmask |= lowmask << width
            width *= 2
        lowmask &= TT["all"]
        if ((m >> sh) ^ m) & lowmask:
            out.append(TT["names"][i])
    return tuple(out)


def bit_mux(c, p, x, y):
    """x if (c == p) else y, for truth-table / constant bits; None if not representable"""
    mc, mx, my = _fmask(c), _fmask(x), _fmask(y)
    if mc is None or mx is None or my is None:
        return None
    if not p:
        mc = TT["all"] ^ mc
    return _fnorm((mc & mx) | ((TT["all"] ^ mc) & my))


def bit_xor(a, b):
    if a == TBIT or b == TBIT:
        return TBIT
    if bit_is_const(a) and bit_is_const(b):
        return a ^ b
    if _is_f(a) or _is_f(b):
        ma, mb = _fmask(a), _fmask(b)
        return TBIT if ma is None or mb is None else _fnorm(ma ^ mb)
    sa, ca = _as_xor(a)
    sb, cb = _as_xor(b)
    s = sa ^ sb
    c = ca ^ cb
    if not s:
        return c
    if len(s) == 1 and c == 0:
        return ("b", next(iter(s)))
    return ("x", frozenset(s), c)


def _as_xor(b):
    if bit_is_const(b):
        return frozenset(), b
    if b[0] == "b":
        return frozenset([b[1]]), 0
    if b[0] == "x":
        return b[1], b[2]
    raise ValueError(b)


def bit_and(a, b):
    if a == 0 or b == 0:
        return 0
    if a == 1:
        return b
    if b == 1:
        return a
    if _is_f(a) and _is_f(b):
        return _fnorm(a[1] & b[1])
    if a == b and a != TBIT:
        return a
    return TBIT


def bit_or(a, b):
    if a == 1 or b == 1:
        return 1
    if a == 0:
        return b
    if b == 0:
        return a
    if _is_f(a) and _is_f(b):
        return _fnorm(a[1] | b[1])
    if a == b and a != TBIT:
        return a
    return TBIT


def bit_not(a):
    if a == TBIT:
        return TBIT
    return bit_xor(a, 1)


def bit_deps(b):
    if bit_is_const(b) or b == TBIT:
        return frozenset()
    if _is_f(b):
        return frozenset(("opt", n) for n in tt_support(b))
    if b[0] == "b":
        return frozenset([b[1]])
    return b[1]


class Aff:
    """c0 + sum coeff * atom ; atoms are ('b', n) frame bits (0/1) or named ints with ranges in ATOM_RANGE"""

    __slots__ = ("c", "t")

    def __init__(self, c=0, t=None):
        self.c = c
        self.t = t or {}

    def __eq__(self, o):
        return isinstance(o, Aff) and self.c == o.c and self.t == o.t

    def __hash__(self):
        return hash((self.c, tuple(sorted(self.t.items(), key=repr))))

    def add(self, o, sign=1):
        t = dict(self.t)
        for k, v in o.t.items():
            nv = t.get(k, 0) + sign * v
            if nv:
                t[k] = nv
            else:
                t.pop(k, None)
        return Aff(self.c + sign * o.c, t)

    def scale(self, k):
        if k == 0:
            return Aff(0)
        return Aff(self.c * k, {a: v * k for a, v in self.t.items()})

    def range(self, atom_range):
        lo = hi = self.c
        for a, v in self.t.items():
            alo, ahi = atom_range(a)
            if v > 0:
                lo += v * alo
                hi += v * ahi
            else:
                lo += v * ahi
                hi += v * alo
        return lo, hi

    def is_const(self):
        return not self.t

    def show(self):
        parts = []
        for a, v in sorted(self.t.items(), key=lambda kv: (-abs(kv[1]), repr(kv[0]))):
            if a[0] == "b":
                nm = "b%d" % a[1]
            elif a[0] == "x":
                nm = "(" + "^".join("b%d" % n for n in sorted(a[1])) + ("^1" if a[2] else "") + ")"
            else:
                nm = str(a[1])
            parts.append("%s*%s" % (v, nm) if v != 1 else nm)
        if self.c or not parts:
            parts.append(str(self.c))
        return " + ".join(parts)


def default_atom_range(a):
    if a[0] in ("b", "x"):
        return 0, 1
    return a[2], a[3]  # ('n', name, lo, hi)


class Val:
    __slots__ = ()
    kind = "val"


class Top(Val):
    """unknown value; `why` explains where precision was lost (unmodelled callee, join, ...)"""
    __slots__ = ("deps", "why", "ty")
    kind = "top"

    def __init__(self, deps=frozenset(), why="", ty=None):
        self.deps = frozenset(deps)
        self.why = why
        self.ty = ty

    def __repr__(self):
        return "Top(%s)" % self.why


class IntV(Val):
    __slots__ = ("ty", "bits", "lo", "hi", "aff", "deps", "sid", "term", "vset", "ftab")
    kind = "int"

    def __init__(self, ty, bits=None, lo=None, hi=None, aff=None, deps=None, sid=None, term=None, vset=None, ftab=None):
        self.ty = ty
        self.vset = vset
        # ftab = (atoms, vals): the value as an explicit function of a few frame bits - vals[a] is the value under the
        # assignment a (bit i of a = frame bit atoms[i]); None where the value is undefined (e.g. the operation overflowed)
        self.ftab = ftab
        w, signed = INT_TYPES[ty]
        tlo, thi = ty_range(ty)
        if bits is not None:
            bits = tuple(bits)
            if len(bits) < w:
                bits = bits + (0,) * (w - len(bits))
            elif len(bits) > w:
                bits = bits[:w]
            if all(b == TBIT for b in bits):
                bits = None
        self.bits = bits
        blo, bhi = tlo, thi
        if bits is not None and not (signed and bits[w - 1] != 0):
            blo = sum(1 << i for i, b in enumerate(bits) if b == 1)
            bhi = blo + sum(1 << i for i, b in enumerate(bits) if not bit_is_const(b))
        elif bits is not None and signed and bits[w - 1] == 1 and all(bit_is_const(b) for b in bits):
            v = sum(1 << i for i, b in enumerate(bits) if b == 1) - (1 << w)
            blo = bhi = v
        alo, ahi = tlo, thi
        if aff is not None:
            alo, ahi = aff.range(default_atom_range)
        self.lo = max(x for x in (lo if lo is not None else tlo, blo, alo, tlo))
        self.hi = min(x for x in (hi if hi is not None else thi, bhi, ahi, thi))
        self.aff = aff
        exact = (bits is not None and TBIT not in bits) or aff is not None
        if exact:
            # the value is a function of exactly these bits: operand dependences that were masked/shifted away are dropped;
            # control dependences (tagged) and non-frame labels are kept
            d = set(x for x in (deps or ()) if not isinstance(x, int))
        else:
            d = set(deps or ())
        if bits is not None:
            for b in bits:
                d |= bit_deps(b)
        if aff is not None:
            for a in aff.t:
                if a[0] == "b":
                    d.add(a[1])
                elif a[0] == "x":
                    d |= set(a[1])
                else:
                    d.add(a)
        if ftab is not None:
            fv = [x for x in ftab[1] if x is not None]
            if fv:
                self.lo, self.hi = max(self.lo, min(fv)), min(self.hi, max(fv))
                if self.lo > self.hi:
                    self.lo = self.hi = fv[0]
            d |= set(ftab[0])
        self.deps = frozenset(d)
        self.sid = sid
        self.term = term
        if self.vset is not None:
            vs = frozenset(x for x in self.vset if self.lo <= x <= self.hi)
            self.vset = vs if vs else None
            if vs:
                self.lo, self.hi = max(self.lo, min(vs)), min(self.hi, max(vs))

    def values(self):
        """small explicit value set, if known"""
        if self.lo == self.hi:
            return frozenset([self.lo])
        return self.vset

    @staticmethod
    def const(ty, v):
        w, signed = INT_TYPES[ty]
        u = v & ((1 << w) - 1)
        bits = tuple((u >> i) & 1 for i in range(w))
        return IntV(ty, bits, v, v, Aff(v))

    def is_const(self):
        return self.lo == self.hi

    def is_empty(self):
        return self.lo > self.hi

    def affine(self):
        """exact affine form: given, or derived from a bit vector of distinct frame bits"""
        if self.aff is not None:
            return self.aff
        if self.bits is None:
            return None
        w, signed = INT_TYPES[self.ty]
        if signed and self.bits[w - 1] != 0:
            return None
        c = 0
        t = {}
        for i, b in enumerate(self.bits):
            if b == 1:
                c += 1 << i
            elif b == 0:
                pass
            elif b[0] == "b":
                k = ("b", b[1])
                t[k] = t.get(k, 0) + (1 << i)
            elif b[0] == "x":
                # an XOR-set is a 0/1-valued atom of its own (GF(2)-linear code: Gray, CRC)
                k = ("x", b[1], b[2])
                t[k] = t.get(k, 0) + (1 << i)
            else:
                return None
        return Aff(c, t)

    def with_range(self, lo, hi):
        lo = max(lo, self.lo)
        hi = min(hi, self.hi)
        if lo == self.lo and hi == self.hi:
            return self
        v = IntV(self.ty, self.bits, lo, hi, self.aff, self.deps, self.sid, self.term, self.vset, self.ftab)
        if lo == hi and lo >= 0 and self.bits is None:
            return IntV.const(self.ty, lo)._with(sid=self.sid, deps=self.deps)
        return v

    def _with(self, **kw):
        d = dict(ty=self.ty, bits=self.bits, lo=self.lo, hi=self.hi, aff=self.aff, deps=self.deps, sid=self.sid, term=self.term,
                 vset=self.vset, ftab=self.ftab)
        d.update(kw)
        return IntV(**d)

    def __repr__(self):
        if self.is_const():
            return "%s:%d" % (self.ty, self.lo)
        a = self.affine()
        if a is None and self.ftab is not None:
            return "%s:[%d,%d] fn(bits %s)" % (self.ty, self.lo, self.hi, list(self.ftab[0]))
        return "%s:[%d,%d]%s" % (self.ty, self.lo, self.hi, (" =" + a.show()) if a is not None and len(a.t) <= 16 else (" deps%s" % sorted(self.deps, key=str)[:8]))


class BoolV(Val):
    __slots__ = ("val", "origin", "deps", "term", "bit", "tg", "fg")
    kind = "bool"

    def __init__(self, val=None, origin=None, deps=frozenset(), term=None, bit=None, tg=None, fg=None):
        # tg / fg: facts (guard dicts like those of enum variants) that hold whenever this value is true / false - set when
        # a flag is merged from paths of which only some can yield that truth value (`a && b` returned by a helper)
        self.tg = tg
        self.fg = fg
        self.val = val
        self.origin = origin  # ('cmp', op, a, b) | ('not', BoolV) | ('and'|'or', (BoolV..))
        self.term = term
        # optional exact bit expression of the truth value (frame bit / XOR-set), for GF(2)-linear code
        if val is not None:
            bit = 1 if val else 0
        self.bit = bit
        d = frozenset(deps)
        if bit is not None and not bit_is_const(bit) and bit != TBIT:
            d = d | bit_deps(bit)
        self.deps = d

    def __repr__(self):
        return "bool:%s" % ({True: "T", False: "F", None: "?"}[self.val])


class FloatV(Val):
    __slots__ = ("lo", "hi", "deps", "term", "ty", "sid")
    kind = "float"

    def __init__(self, lo=-math.inf, hi=math.inf, deps=frozenset(), term=None, ty="f64", sid=None, nan=False):
        self.lo = lo
        self.hi = hi
        self.deps = frozenset(deps)
        self.term = term
        self.ty = ty
        self.sid = sid

    def is_const(self):
        return self.lo == self.hi

    def __repr__(self):
        return "%s:[%s,%s]" % (self.ty, self.lo, self.hi)


class TupleV(Val):
    __slots__ = ("items",)
    kind = "tuple"

    def __init__(self, items):
        self.items = tuple(items)

    def __repr__(self):
        return "(%s)" % ", ".join(map(repr, self.items))


class StructV(Val):
    __slots__ = ("adt", "fields")
    kind = "struct"

    def __init__(self, adt, fields):
        self.adt = adt
        self.fields = dict(fields)

    def get(self, name):
        return self.fields.get(name)

    def set(self, name, v):
        f = dict(self.fields)
        f[name] = v
        return StructV(self.adt, f)

    def __repr__(self):
        return "%s{..%d}" % (self.adt.split("::")[-1], len(self.fields))


class EnumV(Val):
    """variants: name -> (payload tuple of values, guard) ; guard = dict(cons={sid: (lo,hi)}, kb={bit: 0/1})"""
    __slots__ = ("adt", "variants")
    kind = "enum"

    def __init__(self, adt, variants):
        self.adt = adt
        self.variants = dict(variants)

    @staticmethod
    def some(v, guard=None, adt="std::option::Option"):
        return EnumV(adt, {"Some": ((v,), guard or {})})

    @staticmethod
    def none(adt="std::option::Option"):
        return EnumV(adt, {"None": ((), {})})

    def only(self, name):
        return list(self.variants) == [name]

    def may(self, name):
        return name in self.variants

    def payload(self, name, i=0):
        return self.variants[name][0][i]

    def __repr__(self):
        return "%s{%s}" % (self.adt.split("::")[-1], ", ".join("%s%s" % (k, list(v[0]) if v[0] else "") for k, v in self.variants.items()))


class RefV(Val):
    """reference to a cell (frame local or heap object) + projection path"""
    __slots__ = ("cell", "proj", "mut")
    kind = "ref"

    def __init__(self, cell, proj=(), mut=False):
        self.cell = cell
        self.proj = tuple(proj)
        self.mut = mut

    def __repr__(self):
        return "&%s%s%s" % ("mut " if self.mut else "", self.cell, "".join("." + str(p) for p in self.proj))


class ChoiceV(Val):
    """`one` if the frame-bit expression `bit` is 1, else `zero` (from the if-conversion of a branch that picks between two
    references / tables); read-only"""
    __slots__ = ("bit", "one", "zero")
    kind = "choice"

    def __init__(self, bit, one, zero):
        self.bit = bit
        self.one = one
        self.zero = zero

    def __repr__(self):
        return "choice(%r ? %r : %r)" % (self.bit, self.one, self.zero)


class VecV(Val):
    """Vec / array / slice contents: concrete element list, or a summary element with a length value"""
    __slots__ = ("elems", "length", "summary", "elem_ty")
    kind = "vec"

    def __init__(self, elems=None, length=None, summary=None, elem_ty=None):
        self.elems = tuple(elems) if elems is not None else None
        self.length = length if length is not None else (IntV.const("usize", len(elems)) if elems is not None else IntV("usize"))
        self.summary = summary
        self.elem_ty = elem_ty

    def __repr__(self):
        if self.elems is not None:
            return "vec%d[%s]" % (len(self.elems), ", ".join(map(repr, self.elems[:4])) + (", .." if len(self.elems) > 4 else ""))
        return "vec[len %r; %r]" % (self.length, self.summary)


class StrV(Val):
    """string-ish value. kind: 'lit' (known text), 'line' (input line abstracted by its hex-digit sequence),
    'chars' (built from a list of (condition, CharV) in order), 'opaque'"""
    __slots__ = ("skind", "text", "digits", "chars", "deps")
    kind = "str"

    def __init__(self, skind="opaque", text=None, digits=None, chars=None, deps=frozenset()):
        self.skind = skind
        self.text = text
        self.digits = digits
        self.chars = chars
        self.deps = frozenset(deps)

    def __repr__(self):
        if self.skind == "lit":
            return "str%r" % self.text
        if self.skind == "line":
            return "line<%d digits>" % len(self.digits)
        if self.skind == "chars":
            return "string<%d chars>" % len(self.chars)
        return "str?"


class OpaqueV(Val):
    __slots__ = ("ty", "term", "deps")
    kind = "opaque"

    def __init__(self, ty, term=None, deps=frozenset()):
        self.ty = ty
        self.term = term
        self.deps = frozenset(deps)

    def __repr__(self):
        return "opaque<%s %s>" % (self.ty.split("::")[-1] if self.ty else "?", show_term(self.term))


class LayoutV(Val):
    """text emitted so far by a formatter, as one source-set per character position.
    cells: tuple of frozensets of sources  ('lit', ch) | ('field', name) | ('blank',) | ('other', str);
    ragged: the length is not the same on all paths (positions after the common prefix are unreliable)"""
    __slots__ = ("cells", "ragged", "issues")
    kind = "layout"

    def __init__(self, cells=(), ragged=False, issues=()):
        self.cells = tuple(cells)
        self.ragged = ragged
        self.issues = tuple(issues)

    def append(self, n, srcs):
        srcs = frozenset(srcs)
        return LayoutV(self.cells + (srcs,) * n, self.ragged, self.issues)

    def with_issue(self, issue):
        return LayoutV(self.cells, self.ragged, self.issues + (issue,)) if issue not in self.issues else self

    def __repr__(self):
        return "layout<%d%s>" % (len(self.cells), " ragged" if self.ragged else "")


class ClosureV(Val):
    __slots__ = ("body", "captures")
    kind = "closure"

    def __init__(self, body, captures):
        self.body = body
        self.captures = tuple(captures)

    def __repr__(self):
        return "closure<%s>" % self.body.split("::")[-2:]


class FnV(Val):
    __slots__ = ("path",)
    kind = "fn"

    def __init__(self, path):
        self.path = path

    def __repr__(self):
        return "fn<%s>" % self.path


class IterV(Val):
    """lazy iterator pipeline over a concrete element list (or unknown source).
    src: list of values | None ; pos: int ; stages: tuple of (kind, callable-value) ; enumerate flag etc."""
    __slots__ = ("src", "pos", "stages", "end", "by_ref_elems", "unknown", "deps")
    kind = "iter"

    def __init__(self, src=None, pos=0, stages=(), end=None, by_ref_elems=False, unknown=False, deps=frozenset()):
        self.src = src
        self.pos = pos
        self.stages = tuple(stages)
        self.end = end
        self.by_ref_elems = by_ref_elems
        self.unknown = unknown
        self.deps = frozenset(deps)

    def __repr__(self):
        return "iter<%s@%s %s>" % ("?" if self.src is None else len(self.src), self.pos, [s[0] for s in self.stages])


def show_term(t, depth=0):
    if t is None:
        return ""
    if isinstance(t, tuple):
        if depth > 6:
            return "…"
        if not t:
            return "()"
        if not isinstance(t[0], str):
            return "(%s)" % ", ".join(show_term(x, depth + 1) for x in t)
        return "%s(%s)" % (t[0], ", ".join(show_term(x, depth + 1) for x in t[1:]))
    return str(t)


def deps_of(v):
    if isinstance(v, ChoiceV):
        return bit_deps(v.bit) | deps_of(v.one) | deps_of(v.zero)
    return _deps_of(v)


def _deps_of(v):
    if v is None:
        return frozenset()
    k = v.kind
    if k in ("int", "bool", "float", "opaque", "top", "str"):
        d = v.deps
        if k == "str" and v.digits:
            for x in v.digits:
                d = d | deps_of(x)
        if k == "str" and v.chars and isinstance(v.chars, dict):
            for b in v.chars.values():          # charset string: letter -> presence bit
                d = d | bit_deps(b)
        elif k == "str" and v.chars:
            for c, x in v.chars:
                d = d | deps_of(x)
        return d
    if k == "tuple":
        d = frozenset()
        for x in v.items:
            d |= deps_of(x)
        return d
    if k == "struct":
        d = frozenset()
        for x in v.fields.values():
            d |= deps_of(x)
        return d
    if k == "enum":
        d = frozenset()
        for pl, g in v.variants.values():
            for x in pl:
                d |= deps_of(x)
            d |= frozenset(g.get("deps", ()))
        return d
    if k == "vec":
        d = deps_of(v.length)
        if v.elems is not None:
            for x in v.elems:
                d |= deps_of(x)
        if v.summary is not None:
            d |= deps_of(v.summary)
        return d
    if k == "closure":
        d = frozenset()
        for x in v.captures:
            d |= deps_of(x)
        return d
    if k == "iter":
        d = v.deps
        for x in v.src or ():
            d |= deps_of(x)
        return d
    return frozenset()


# ---------------------------------------------------------------------------
# join


def join_bits(a, b):
    if a is None or b is None:
        return None
    return tuple(x if x == y else TBIT for x, y in zip(a, b))


def join(a, b):
    if a is b:
        return a
    if a is None or b is None:
        return None
    if a.kind != b.kind:
        return Top(deps_of(a) | deps_of(b), "join of %s and %s" % (a.kind, b.kind))
    k = a.kind
    if k == "int":
        if a.ty != b.ty:
            return Top(a.deps | b.deps, "join int types")
        if a.lo == b.lo and a.hi == b.hi and a.bits == b.bits and a.aff == b.aff and a.sid == b.sid and a.vset == b.vset:
            return a if a.deps >= b.deps else a._with(deps=a.deps | b.deps)
        va, vb = a.values(), b.values()
        vs = None
        if va is not None and vb is not None and len(va | vb) <= 16:
            vs = va | vb
        return IntV(a.ty, join_bits(a.bits, b.bits), min(a.lo, b.lo), max(a.hi, b.hi),
                    a.aff if a.aff is not None and a.aff == b.aff else None, a.deps | b.deps,
                    a.sid if a.sid == b.sid else None, a.term if a.term == b.term else None, vs)
    if k == "bool":
        if a.val == b.val and a.origin is b.origin and a.bit == b.bit:
            return a
        return BoolV(a.val if a.val == b.val else None, None, a.deps | b.deps, a.term if a.term == b.term else None,
                     a.bit if a.bit == b.bit else None)
    if k == "float":
        if a.lo == b.lo and a.hi == b.hi and a.term == b.term and a.sid == b.sid:
            return a
        return FloatV(min(a.lo, b.lo), max(a.hi, b.hi), a.deps | b.deps, a.term if a.term == b.term else None, a.ty,
                      a.sid if a.sid == b.sid else None)
    if k == "tuple":
        if len(a.items) != len(b.items):
            return Top(deps_of(a) | deps_of(b), "join tuples of different arity")
        return TupleV([join(x, y) for x, y in zip(a.items, b.items)])
    if k == "struct":
        f = {}
        for n in a.fields:
            if n in b.fields:
                f[n] = join(a.fields[n], b.fields[n])
        return StructV(a.adt, f)
    if k == "enum":
        v = {}
        for n in set(a.variants) | set(b.variants):
            if n in a.variants and n in b.variants:
                pa, ga = a.variants[n]
                pb, gb = b.variants[n]
                v[n] = (tuple(join(x, y) for x, y in zip(pa, pb)), join_guard(ga, gb))
            elif n in a.variants:
                v[n] = a.variants[n]
            else:
                v[n] = b.variants[n]
        return EnumV(a.adt, v)
    if k == "ref":
        if a.cell == b.cell and a.proj == b.proj:
            return a
        return Top(frozenset(), "join of references to different places")
    if k == "vec":
        if a.elems is not None and b.elems is not None and len(a.elems) == len(b.elems):
            return VecV([join(x, y) for x, y in zip(a.elems, b.elems)], elem_ty=a.elem_ty)
        sa = a.summary if a.elems is None else _join_all(a.elems)
        sb = b.summary if b.elems is None else _join_all(b.elems)
        if sa is None:
            s = sb
        elif sb is None:
            s = sa
        else:
            s = join(sa, sb)
        return VecV(None, join(a.length, b.length), s, a.elem_ty)
    if k == "str":
        if a.skind == b.skind == "lit" and a.text == b.text:
            return a
        if a.skind == b.skind == "chars" and len(a.chars) == len(b.chars):
            return StrV("chars", chars=[(ca if ca == cb else "maybe", join(x, y)) for (ca, x), (cb, y) in zip(a.chars, b.chars)])
        # one side has pushed characters the other has not (`if keep { s.push(c) }`): the common prefix, then the extra
        # characters as optional ones
        def as_chars(v):
            if v.skind == "chars":
                return list(v.chars)
            if v.skind == "lit" and len(v.text) <= 64:
                return [("always", IntV.const("char", ord(ch))) for ch in v.text]
            return None
        ca_, cb_ = as_chars(a), as_chars(b)
        if ca_ is not None and cb_ is not None and len(ca_) != len(cb_):
            short, long_ = (ca_, cb_) if len(ca_) < len(cb_) else (cb_, ca_)

            def same(x, y):
                return x is y or (repr(x) == repr(y) and deps_of(x) == deps_of(y))
            # `short` as a subsequence of `long_` (the same characters, some of them not pushed on one of the paths)
            out, i = [], 0
            for cy, y in long_:
                if i < len(short) and same(short[i][1], y):
                    out.append((cy if cy == short[i][0] else "maybe", y))
                    i += 1
                else:
                    out.append(("maybe", y))
            if i == len(short):
                return StrV("chars", chars=out)
        return StrV("opaque", deps=deps_of(a) | deps_of(b))
    if k == "opaque":
        if a.term == b.term and a.ty == b.ty:
            return a
        return OpaqueV(a.ty, ("phi", a.term, b.term), a.deps | b.deps)
    if k == "top":
        return Top(a.deps | b.deps, a.why or b.why)
    if k == "layout":
        n = min(len(a.cells), len(b.cells))
        cells = tuple(x | y for x, y in zip(a.cells[:n], b.cells[:n]))
        ragged = a.ragged or b.ragged or len(a.cells) != len(b.cells)
        if len(a.cells) != len(b.cells):
            longer = a.cells if len(a.cells) > len(b.cells) else b.cells
            cells = cells + tuple(c | frozenset([("end",)]) for c in longer[n:])
        if cells == a.cells and ragged == a.ragged and set(b.issues) <= set(a.issues):
            return a
        return LayoutV(cells, ragged, tuple(dict.fromkeys(a.issues + b.issues)))
    if k == "closure":
        if a.body == b.body:
            return ClosureV(a.body, [join(x, y) for x, y in zip(a.captures, b.captures)])
        return Top(frozenset(), "join of different closures")
    if k == "fn":
        return a if a.path == b.path else Top(frozenset(), "join of fns")
    if k == "iter":
        if a.src is b.src and a.pos == b.pos and a.stages == b.stages:
            return a
        return IterV(None, unknown=True, deps=deps_of(a) | deps_of(b))
    return Top(frozenset(), "join?")


def _join_all(xs):
    r = None
    for x in xs:
        r = x if r is None else join(r, x)
    return r


def join_guard(ga, gb):
    if ga is gb:
        return ga
    g = {}
    ca, cb = ga.get("cons", {}), gb.get("cons", {})
    cons = {}
    for s in ca:
        if s in cb:
            cons[s] = (min(ca[s][0], cb[s][0]), max(ca[s][1], cb[s][1]))
    if cons:
        g["cons"] = cons
    da, db = ga.get("deps", frozenset()), gb.get("deps", frozenset())
    if da or db:
        g["deps"] = frozenset(da) | frozenset(db)
    ka, kb = ga.get("kb", {}), gb.get("kb", {})
    kk = {b: v for b, v in ka.items() if kb.get(b) == v}
    if kk:
        g["kb"] = kk
    pa, pb = ga.get("pc", frozenset()), gb.get("pc", frozenset())
    if pa & pb:
        g["pc"] = pa & pb
    ta, tb = ga.get("then", ()), gb.get("then", ())
    if ta and tb:
        th = tuple(x for x in ta if any(x[0] is y[0] and x[1] == y[1] for y in tb))
        if th:
            g["then"] = th
    return g


def merge_guard(ga, gb):
    """both guards hold"""
    if not ga:
        return dict(gb or {})
    if not gb:
        return dict(ga)
    g = dict(ga)
    if gb.get("kb"):
        kk = dict(g.get("kb", {}))
        kk.update(gb["kb"])
        g["kb"] = kk
    if gb.get("cons"):
        cc = dict(g.get("cons", {}))
        for k, (lo, hi) in gb["cons"].items():
            if k in cc:
                cc[k] = (max(lo, cc[k][0]), min(hi, cc[k][1]))
            else:
                cc[k] = (lo, hi)
        g["cons"] = cc
    if gb.get("pc"):
        g["pc"] = frozenset(g.get("pc", frozenset())) | gb["pc"]
    if gb.get("deps"):
        g["deps"] = frozenset(g.get("deps", frozenset())) | frozenset(gb["deps"])
    if gb.get("then"):
        g["then"] = tuple(g.get("then", ())) + tuple(gb["then"])
    return g
