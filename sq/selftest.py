"""./check selftest [ids...] — both-ways testing of the rules on scratch copies of /repo.

selftest/mutants.json lists small source edits (file, old text, new text), each with the
property it breaks (expect: VIOLATION from that property's check) or `benign: true`
(a behaviour-preserving variant: every listed check must stay silent).  Each mutant is
applied to a scratch copy under $TMPDIR (removed afterwards), must still compile (the
driver's cargo check), and the named checks are run with SQ_REPO pointing at the copy.
"""
import json
import os
import shutil
import subprocess
import sys
import tempfile
from concurrent.futures import ThreadPoolExecutor

from .facts import VERIF

MUT = os.path.join(VERIF, "selftest", "mutants.json")


def _apply(dirp, edits):
    for e in edits:
        p = os.path.join(dirp, e["file"])
        s = open(p).read()
        if e["old"] not in s:
            return "anchor text not found in %s: %r" % (e["file"], e["old"][:60])
        cnt = e.get("count", 1)
        s = s.replace(e["old"], e["new"], cnt)
        open(p, "w").write(s)
    return None


def run_one(m, keep=False):
    d = tempfile.mkdtemp(prefix="sqmut-")
    try:
        subprocess.check_call(["rsync", "-a", "--exclude", "target", "--exclude", ".git", "/repo/", d + "/"])
        err = _apply(d, m["edits"])
        if err:
            return {"id": m["id"], "status": "STALE", "detail": err}
        res = {}
        for pid in m["checks"]:
            env = dict(os.environ, SQ_REPO=d)
            # share the dependency build with the main cache (read-only use is fine; fingerprints are per path)
            r = subprocess.run([os.path.join(VERIF, "check"), pid], env=env, capture_output=True, text=True, cwd=VERIF)
            res[pid] = (r.returncode, r.stdout)
        ok = True
        detail = []
        for pid, (rc, out) in res.items():
            if rc == 2:
                ok = False
                detail.append("%s: checker broken: %s" % (pid, out.strip().splitlines()[-1] if out.strip() else ""))
                continue
            if m.get("benign"):
                if rc != 0:
                    ok = False
                    detail.append("%s: FALSE ALARM on benign variant: %s" % (pid, [l for l in out.splitlines() if l.startswith("FINDING")][:3]))
            else:
                want = m.get("expect", {}).get(pid, True)
                if want and rc != 1:
                    ok = False
                    detail.append("%s: MISSED (exit %d)" % (pid, rc))
                elif want:
                    rule = m.get("rule")
                    fl = [l for l in out.splitlines() if l.startswith("FINDING")]
                    # the named rule belongs to one property (its number is in the rule id); other listed checks only have to fire
                    if rule and rule[1:3] == pid[1:3] and not any(rule in l for l in fl):
                        ok = False
                        detail.append("%s: fired but not rule %s: %s" % (pid, rule, fl[:2]))
                    else:
                        detail.append("%s: caught (%s)" % (pid, (fl[0][:140] if fl else "")))
        return {"id": m["id"], "status": "OK" if ok else "FAIL", "detail": "; ".join(detail)}
    finally:
        if not keep:
            shutil.rmtree(d, ignore_errors=True)


def main(argv):
    muts = json.load(open(MUT))
    if argv:
        muts = [m for m in muts if m["id"] in argv or any(a in m["checks"] for a in argv)]
    fails = 0
    with ThreadPoolExecutor(max_workers=int(os.environ.get("SQ_JOBS", "6"))) as ex:
        for r in ex.map(run_one, muts):
            print("%-6s %-34s %s" % (r["status"], r["id"], r["detail"]))
            if r["status"] != "OK":
                fails += 1
    print("selftest: %d mutants/variants, %d failures" % (len(muts), fails))
    return 1 if fails else 0
