"""The aircraft-table updater, described independently of how it is written (shared by C03 R03.4 and C12 R12.1/R12.5).

Accepted styles:
  * `map.entry(k).and_modify(|row| ..).or_insert(ctor(..))` (also `or_insert_with(|| ctor(..))`);
  * `match map.entry(k) { Occupied(e) => .. e.get_mut() / e.into_mut() .., Vacant(e) => { e.insert(ctor(..)); } }`;
  * `if let Some(row) = map.get_mut(&k) { .. } else { map.insert(k, ctor(..)); }`.

What the rules need:
  body        the function that looks the row up (exactly one in the crate)
  lookup      the lookup call (entry / get_mut) and the key expression
  entries     [(callee, index of its `&mut Plane` parameter, call terminator, body the call is in)] - crate functions run on
              the row that is already in the table (found by TYPE: an argument of type `&mut Plane` in the updater or in a
              closure defined in it)
  ctor        (call terminator of the crate constructor whose result is inserted, body it occurs in, DefUse of that body)
  inserts     the call terminators that put a new row in
"""
from .effects import HASHMAP_MUT, _is_plane_map
from .facts import Broken, callee_name
from .mirq import DefUse, expr

ROW_MUT_TYPES = ("&mut decoder::plane::Plane", "&mut Plane")
ALLOWED_MUTATORS = {"entry", "and_modify", "or_insert", "or_insert_with", "get_mut", "insert", "into_mut", "retain", "shrink_to_fit", "shrink_to"}
LOOKUPS = ("entry", "get_mut")
INSERTERS = ("or_insert", "or_insert_with", "insert")


def _is_entry_api(c):
    p = c.get("path") or ""
    return ("hash_map::OccupiedEntry" in p or "hash_map::VacantEntry" in p or "hash_map::Entry" in p) and "Plane" in " ".join(c.get("generic_args") or [])


def table_calls(facts):
    """-> (mutating call sites, reading call sites) on the HashMap<u32, Plane> and its Entry API, as (body, bb, term)"""
    muts, reads = [], []
    for b in facts.bodies.values():
        if b.kind == "promoted" or "::tests::" in b.name:
            continue
        for bb, t in b.calls():
            c = t["callee"]
            if _is_plane_map(c) or _is_entry_api(c):
                nm = c.get("name")
                if _is_entry_api(c) and nm in ("get", "key"):
                    reads.append((b, bb, t))
                else:
                    (muts if nm in HASHMAP_MUT else reads).append((b, bb, t))
    return muts, reads


def _closures_of(facts, body):
    return [b for b in facts.bodies.values() if b.kind == "closure" and b.parent == body.name]


def _param_is_row(facts, callee, i):
    cb = facts.bodies.get(callee)
    if cb is None or i + 1 > cb.arg_count:
        return False
    ty = cb.locals[i + 1]["ty"]["s"]
    return ty.startswith("&mut ") and ty.endswith("::Plane")


def describe(facts):
    muts, reads = table_calls(facts)
    look = [(b, bb, t) for b, bb, t in muts if t["callee"].get("name") in LOOKUPS and _is_plane_map(t["callee"])
            and "collections::HashMap" in (t["callee"].get("path") or "")]
    if len(look) != 1:
        raise Broken("table updater anchor: %d lookup calls (entry / get_mut) on the aircraft table" % len(look))
    ub, ubb, ut = look[0]
    udu = DefUse(ub)
    key = expr(udu, ut["args"][1])
    if key[0] == "path" and key[1][0] == "arg":       # get_mut(&icao)
        key = key[1]
    bodies = [ub] + _closures_of(facts, ub)
    entries = []
    for b in bodies:
        for bb, t in b.calls():
            tgt = callee_name(t)
            if tgt in facts.bodies and facts.bodies[tgt].kind != "closure":
                for i, a in enumerate(t["args"]):
                    if _param_is_row(facts, tgt, i):
                        entries.append((tgt, i + 1, t, b))
    inserts = []
    ctor = None
    for b in bodies:
        du = None
        for bb, t in b.calls():
            c = t["callee"]
            nm = c.get("name")
            if not ((_is_plane_map(c) or _is_entry_api(c)) and nm in INSERTERS):
                continue
            inserts.append((b, bb, t))
            du = du or DefUse(b)
            val = t["args"][-1]
            r = du.root(val)
            if r[0] == "call" and callee_name(r[1]) in facts.bodies and facts.bodies[callee_name(r[1])].kind != "closure":
                ctor = (r[1], b, du)
            elif r[0] == "rv" and r[1]["rv"].get("agg") == "closure":
                cb = facts.bodies[r[1]["rv"]["closure"]]
                cdu = DefUse(cb)
                rr = cdu.root_place({"local": 0, "proj": []})
                if rr[0] == "call" and callee_name(rr[1]) in facts.bodies:
                    ctor = (rr[1], cb, cdu)
    return {"body": ub, "du": udu, "lookup": (ubb, ut), "key": key, "entries": entries, "ctor": ctor, "inserts": inserts,
            "muts": muts, "reads": reads, "bodies": bodies}
