"""Lock discipline (E1): no lock is requested while a guard of the same lock is still alive in the same thread.

std::sync::RwLock / Mutex are not re-entrant: `write()` (or `lock()`) while the calling thread still holds a guard of the same
lock blocks forever (or panics) - the process wedges without any output.  Forward may-hold dataflow over each body's CFG:
  acquire  at a call of RwLock::read / RwLock::write / Mutex::lock (on its normal successor), keyed by the lock's field name;
  release  at `drop(x)` / a by-value move of x into a call, where the type of x contains the matching guard type;
  conflict a write/lock request while any guard of that lock may be held, or a read request while a write guard may be held -
           directly, or through a crate function that (transitively) acquires the lock.
"""
from .cfg import CFG
from .facts import callee_name, span_loc
from .mirq import DefUse, expr, operand_place, show

LOCK_CALLS = {"std::sync::RwLock::<T>::read": "R", "std::sync::RwLock::<T>::write": "W", "std::sync::Mutex::<T>::lock": "M",
              "std::sync::RwLock::<T>::try_read": None, "std::sync::RwLock::<T>::try_write": None, "std::sync::Mutex::<T>::try_lock": None}
GUARD_OF = {"R": "RwLockReadGuard", "W": "RwLockWriteGuard", "M": "MutexGuard"}


def _lock_id(du, op):
    e = expr(du, op)
    s = show(e)
    # the field (or static) the lock lives in
    last = None
    def walk(x):
        nonlocal last
        if isinstance(x, tuple):
            if x and x[0] in ("arg", "capture") and x[-1]:
                p = [q for q in x[-1] if isinstance(q, str) and not q.startswith("as:")]
                if p:
                    last = p[-1]
            if x and x[0] == "path" and x[2]:
                p = [q for q in x[2] if isinstance(q, str) and not q.startswith("as:")]
                if p:
                    last = p[-1]
            for y in x:
                walk(y)
    walk(e)
    return last or s[:60]


def _conflict(kind, held_kinds):
    if kind in ("W", "M"):
        return bool(held_kinds)
    return "W" in held_kinds


def lock_sites(body):
    out = []
    for bi, t in body.calls():
        p = t["callee"].get("instance") or t["callee"].get("path") or ""
        if p in LOCK_CALLS and LOCK_CALLS[p]:
            out.append((bi, t, LOCK_CALLS[p]))
    return out


def summaries(facts):
    """fn name -> set of (lock id, kind) it may acquire, transitively"""
    direct = {}
    calls = {}
    for n, b in facts.bodies.items():
        if b.kind == "promoted":
            continue
        du = None
        acq = set()
        for bi, t, kind in lock_sites(b):
            du = du or DefUse(b)
            acq.add((_lock_id(du, t["args"][0]), kind))
        direct[n] = acq
        calls[n] = {callee_name(t) for _, t in b.calls() if callee_name(t) in facts.bodies}
        # closures created here run (at the latest) inside the std call they are passed to
        calls[n] |= {c.name for c in facts.closures_of(n)}
    trans = {n: set(v) for n, v in direct.items()}
    ch = True
    while ch:
        ch = False
        for n in trans:
            for c in calls.get(n, ()):
                add = trans.get(c, set()) - trans[n]
                if add:
                    trans[n] |= add
                    ch = True
    return trans


def check_body(facts, b, summ):
    """-> (number of lock requests examined, [(bb, what, loc)])"""
    sites = {bi: (t, kind) for bi, t, kind in lock_sites(b)}
    calls = {bi: t for bi, t in b.calls()}
    if not sites and not any(summ.get(callee_name(t)) for t in calls.values()):
        return 0, []
    cfg = CFG(b)
    du = DefUse(b)
    held_in = {0: frozenset()}
    work = [0]
    findings = {}
    n = 0

    def guard_kinds_of_local(l):
        tyj = b.locals[l]["ty"]
        if tyj.get("k") in ("ref", "ptr", "rawptr"):
            return set()          # a reference to a guard is not the guard
        ty = tyj["s"]
        return {k for k, g in GUARD_OF.items() if g in ty}
    seen_req = set()
    while work:
        bi = work.pop()
        st = set(held_in.get(bi, frozenset()))
        t = b.blocks[bi]["term"]
        out = set(st)
        if t["k"] == "call":
            # by-value move of a guard into the callee releases it there (mem::drop, helper taking the guard)
            for a in t["args"]:
                if "move" in a and not a["move"]["proj"]:
                    for k in guard_kinds_of_local(a["move"]["local"]):
                        out = {(lid, kk) for lid, kk in out if kk != k}
            if bi in sites:
                tt, kind = sites[bi]
                lid = _lock_id(du, tt["args"][0])
                hk = {kk for l2, kk in st if l2 == lid}
                if bi not in seen_req:
                    seen_req.add(bi)
                    n += 1
                if _conflict(kind, hk):
                    findings[(bi, lid)] = ("%s requested while a %s guard of `%s` is still alive" % (
                        {"R": "read()", "W": "write()", "M": "lock()"}[kind], "/".join(sorted(GUARD_OF[x] for x in hk)), lid), span_loc(tt.get("span")))
                out.add((lid, kind))
            else:
                cn = callee_name(t)
                for lid, kind in sorted(summ.get(cn, ())) if cn in facts.bodies else ():
                    hk = {kk for l2, kk in st if l2 == lid}
                    if _conflict(kind, hk):
                        findings[(bi, lid, cn)] = ("call of %s, which takes %s on `%s`, while a %s guard of it is still alive" % (
                            cn, {"R": "read()", "W": "write()", "M": "lock()"}[kind], lid, "/".join(sorted(GUARD_OF[x] for x in hk))), span_loc(t.get("span")))
                # closures passed to a std call run inside it
                for a in t["args"]:
                    r = du.root(a)
                    if r and r[0] == "rv" and r[1]["rv"].get("agg") == "closure":
                        for lid, kind in sorted(summ.get(r[1]["rv"]["closure"], ())):
                            hk = {kk for l2, kk in st if l2 == lid}
                            if _conflict(kind, hk):
                                findings[(bi, lid, "closure")] = ("closure taking %s on `%s` runs while a %s guard of it is still alive" % (
                                    kind, lid, "/".join(sorted(GUARD_OF[x] for x in hk))), span_loc(t.get("span")))
        elif t["k"] == "drop":
            pl = t.get("place") or {}
            if pl and not pl.get("proj"):
                for k in guard_kinds_of_local(pl["local"]):
                    out = {(lid, kk) for lid, kk in out if kk != k}
        fo = frozenset(out)
        for s in cfg.succ[bi]:
            old = held_in.get(s)
            new = fo if old is None else (old | fo)
            if new != old:
                held_in[s] = new
                work.append(s)
    return n, [(k[0], v[0], v[1]) for k, v in sorted(findings.items(), key=lambda kv: str(kv[0]))]
