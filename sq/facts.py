"""E0 glue: run the sqfacts driver over the CURRENT working tree of the repository
and load the resulting fact files.  Facts are cached per tree hash under
/verif/.cache so that the checks of one session share one extraction; any edit
to the tree changes the hash, so a check always analyses the tree as it is now.
"""
import fcntl
import hashlib
import json
import os
import shutil
import subprocess
import sys
import time

VERIF = os.path.dirname(os.path.dirname(os.path.abspath(__file__)))
REPO = os.environ.get("SQ_REPO", "/repo")
CACHE = os.environ.get("SQ_CACHE", os.path.join(VERIF, ".cache"))
DRIVER = os.path.join(VERIF, "driver", "target", "release", "sqfacts")
CRATE = "squitterator"


class Broken(Exception):
    """The checker cannot run (exit 2) - never a VIOLATION."""


def tree_hash(repo=None):
    repo = repo or REPO
    h = hashlib.sha256()
    paths = []
    for root, dirs, files in os.walk(os.path.join(repo, "src")):
        dirs.sort()
        for f in sorted(files):
            paths.append(os.path.join(root, f))
    for f in ("Cargo.toml", "Cargo.lock"):
        p = os.path.join(repo, f)
        if os.path.exists(p):
            paths.append(p)
    for p in paths:
        h.update(os.path.relpath(p, repo).encode())
        h.update(b"\0")
        with open(p, "rb") as fh:
            h.update(fh.read())
        h.update(b"\0")
    # the driver itself is part of the key (a rebuilt driver invalidates facts)
    try:
        st = os.stat(DRIVER)
        h.update(("%d-%d" % (st.st_size, int(st.st_mtime))).encode())
    except OSError:
        pass
    return h.hexdigest()[:20]


def _sysroot():
    return subprocess.check_output(["rustc", "+nightly", "--print", "sysroot"], text=True).strip()


def ensure_driver():
    if os.path.exists(DRIVER):
        return
    r = subprocess.run(
        ["cargo", "build", "--release", "--offline"],
        cwd=os.path.join(VERIF, "driver"),
        env=dict(os.environ, CARGO_NET_OFFLINE="true"),
        capture_output=True,
        text=True,
    )
    if r.returncode != 0 or not os.path.exists(DRIVER):
        raise Broken("cannot build the sqfacts driver:\n" + r.stderr[-3000:])


def extract(repo=None, profile="dev"):
    """Return {'lib': facts, 'bin': facts, 'hash': h, 'extract_s': seconds, 'cached': bool}."""
    repo = repo or REPO
    ensure_driver()
    h = tree_hash(repo)
    os.makedirs(CACHE, exist_ok=True)
    fdir = os.path.join(CACHE, "facts", "%s-%s" % (h, profile))
    t0 = time.time()
    cached = True
    with open(os.path.join(CACHE, "lock-%s" % profile), "w") as lk:
        fcntl.flock(lk, fcntl.LOCK_EX)
        lib = os.path.join(fdir, "facts-%s-lib.json" % CRATE)
        binf = os.path.join(fdir, "facts-%s-bin.json" % CRATE)
        if not (os.path.exists(lib) and os.path.exists(binf)):
            cached = False
            _run_driver(repo, profile, fdir)
            if not (os.path.exists(lib) and os.path.exists(binf)):
                raise Broken("driver ran but fact files are missing in " + fdir)
            _prune()
    with open(lib) as fh:
        L = json.load(fh)
    with open(binf) as fh:
        B = json.load(fh)
    nb = sum(1 for b in L["bodies"].values() if b["kind"] != "promoted")
    if nb < 300:
        raise Broken("fact extraction saw only %d lib bodies (< 300)" % nb)
    if L["n_resolved"] < 0.99 * L["n_calls"]:
        raise Broken("only %d of %d calls resolved" % (L["n_resolved"], L["n_calls"]))
    return {"lib": L, "bin": B, "hash": h, "extract_s": round(time.time() - t0, 2), "cached": cached,
            "repo": repo}


def _run_driver(repo, profile, fdir):
    tmp_out = fdir + ".tmp%d" % os.getpid()
    shutil.rmtree(tmp_out, ignore_errors=True)
    os.makedirs(tmp_out)
    target = os.path.join(CACHE, "target-%s" % profile)
    # cargo's freshness cache would skip the wrapper: drop the member's fingerprints
    for prof_dir in ("debug", "release"):
        fp = os.path.join(target, prof_dir, ".fingerprint")
        if os.path.isdir(fp):
            for d in os.listdir(fp):
                if d.startswith(CRATE + "-"):
                    shutil.rmtree(os.path.join(fp, d), ignore_errors=True)
    env = dict(os.environ)
    env["LD_LIBRARY_PATH"] = _sysroot() + "/lib:" + env.get("LD_LIBRARY_PATH", "")
    env["RUSTFLAGS"] = "-Zmir-opt-level=0 -Awarnings"
    env["RUSTC_WORKSPACE_WRAPPER"] = DRIVER
    env["SQFACTS_OUT"] = tmp_out
    env["SQFACTS_CRATE"] = CRATE
    env["CARGO_TARGET_DIR"] = target
    env["CARGO_NET_OFFLINE"] = "true"
    env.pop("RUSTC_WRAPPER", None)
    cmd = ["cargo", "+nightly", "check", "--offline", "--lib", "--bins"]
    if profile == "release":
        cmd.append("--release")
    r = subprocess.run(cmd, cwd=repo, env=env, capture_output=True, text=True)
    if r.returncode != 0:
        shutil.rmtree(tmp_out, ignore_errors=True)
        raise Broken("cargo check failed on %s (the tree must compile):\n%s" % (repo, r.stderr[-4000:]))
    shutil.rmtree(fdir, ignore_errors=True)
    os.makedirs(os.path.dirname(fdir), exist_ok=True)
    os.rename(tmp_out, fdir)


def _prune(keep=12):
    base = os.path.join(CACHE, "facts")
    try:
        ds = sorted((os.path.getmtime(os.path.join(base, d)), d) for d in os.listdir(base))
    except OSError:
        return
    for _, d in ds[:-keep]:
        shutil.rmtree(os.path.join(base, d), ignore_errors=True)


# ---------------------------------------------------------------------------
# convenience wrappers


class Body:
    __slots__ = ("name", "j", "blocks", "locals", "kind", "parent", "arg_count", "_succ", "_pred")

    def __init__(self, name, j):
        self.name = name
        self.j = j
        self.blocks = j["blocks"]
        self.locals = j["locals"]
        self.kind = j["kind"]
        self.parent = j.get("parent")
        self.arg_count = j["arg_count"]
        self._succ = None
        self._pred = None

    def file(self):
        sp = self.j.get("span") or {}
        return sp.get("file")

    def loc(self):
        sp = self.j.get("span") or {}
        return "%s:%s" % (sp.get("file"), sp.get("line"))

    def succs(self, bb, unwind=False):
        t = self.blocks[bb]["term"]
        out = []
        k = t["k"]
        if k == "goto":
            out.append(t["target"])
        elif k == "switch":
            for _, b in t["targets"]:
                out.append(b)
            out.append(t["otherwise"])
        elif k in ("call", "assert", "drop"):
            if t.get("target") is not None:
                out.append(t["target"])
            if unwind and isinstance(t.get("unwind"), int):
                out.append(t["unwind"])
        # return/unreachable/resume/terminate: none
        seen = []
        for b in out:
            if b not in seen:
                seen.append(b)
        return seen

    def normal_blocks(self):
        return [i for i, b in enumerate(self.blocks) if not b["cleanup"]]

    def calls(self, include_cleanup=False):
        for i, b in enumerate(self.blocks):
            if b["cleanup"] and not include_cleanup:
                continue
            t = b["term"]
            if t["k"] == "call":
                yield i, t

    def local_ty(self, n):
        return self.locals[n]["ty"]


def callee_name(term):
    """Best stable name of a call terminator's target: resolved instance if any, else the path."""
    c = term["callee"]
    return c.get("instance") or c.get("path") or c.get("ty")


def span_loc(sp):
    if not sp:
        return "?"
    if sp.get("callsite"):
        cs = sp["callsite"]
        return "%s:%s" % (cs.get("file"), cs.get("line"))
    return "%s:%s" % (sp.get("file"), sp.get("line"))


class Facts:
    """Joined view of lib+bin facts."""

    def __init__(self, ex):
        self.ex = ex
        self.lib = ex["lib"]
        self.bin = ex["bin"]
        self.hash = ex["hash"]
        self.bodies = {}
        for n, j in self.lib["bodies"].items():
            self.bodies[n] = Body(n, j)
        self.bin_bodies = {}
        for n, j in self.bin["bodies"].items():
            self.bin_bodies[n] = Body(n, j)
        self.adts = self.lib["adts"]
        self.fmt_sites = self.lib["fmt_sites"]

    def body(self, name):
        b = self.bodies.get(name)
        if b is None:
            raise Broken("anchor lost: no MIR body named %r" % name)
        return b

    def find_bodies(self, pred):
        return [b for b in self.bodies.values() if pred(b)]

    def by_suffix(self, suffix):
        r = [b for n, b in self.bodies.items() if n == suffix or n.endswith("::" + suffix)]
        return r

    def one(self, suffix):
        r = self.by_suffix(suffix)
        if len(r) != 1:
            raise Broken("anchor lost: %d bodies match %r" % (len(r), suffix))
        return r[0]

    def closures_of(self, parent_name):
        return [b for b in self.bodies.values() if b.kind == "closure" and b.parent == parent_name]


def load(repo=None, profile="dev"):
    f = Facts(extract(repo, profile))
    from . import mirq
    mirq._FACTS = f           # expression trees may look through crate constructors (Session::start(args).args -> args)
    return f


if __name__ == "__main__":
    f = load()
    print("hash", f.hash, "cached", f.ex["cached"], "extract_s", f.ex["extract_s"], "bodies", len(f.bodies))
