"""Where the reader builds its DisplayFlags from the -i option, and evaluation of that argument expression on an abstract
-i list (shared by C14 R14.7 and the C01 options unit)."""
from .facts import Broken, callee_name
from .mirq import DefUse, expr, show


def find_flags_site(facts):
    """the one call outside DisplayFlags' own impl whose result is a DisplayFlags -> (body, bb, call terminator)"""
    sites = []
    for b in facts.bodies.values():
        if b.kind == "promoted" or "::tests::" in b.name or "DisplayFlags" in b.name:
            continue
        for bi, t in b.calls():
            d = t["dest"]
            if not d["proj"] and b.locals[d["local"]]["ty"]["s"].endswith("DisplayFlags") and callee_name(t) in facts.bodies:
                sites.append((b, bi, t))
    if len(sites) != 1:
        raise Broken("anchor: %d construction sites of DisplayFlags outside its impl" % len(sites))
    return sites[0]


def eval_option_arg(I, st, e, list_value):
    """evaluate the expression tree `e` of a constructor argument with Args.display_info := list_value (a VecV)"""
    from .absint.ctx import ref_to
    from .absint.domain import StrV
    if e[0] == "arg" and e[2] and e[2][-1] == "display_info":
        return ref_to(I, st, list_value)
    if e[0] == "const" and isinstance(e[1], str):
        return StrV("lit", text=e[1])
    if e[0] == "call":
        nm = e[1].split("::")[-1]
        args = [eval_option_arg(I, st, a, list_value) for a in e[2]]
        if nm in ("deref", "as_ref", "as_slice", "borrow", "as_str", "as_mut", "to_owned", "clone", "to_string", "to_vec") and args:
            return args[0]
        if nm in ("concat", "join"):
            from .absint.models2 import m_concat_cs
            st2, v = m_concat_cs(I, st, {"name": nm}, args, None, {})
            return ref_to(I, st, v)
    raise Broken("the -i option reaches the display flags through %s" % show(e)[:160])
