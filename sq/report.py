"""Findings, known-findings filter, evidence files."""
import json
import os
import time

from .facts import VERIF

KNOWN = os.path.join(VERIF, "known_findings.jsonl")
from .facts import REPO, CACHE
# evidence of runs against a scratch copy (SQ_REPO=...) never overwrites the committed evidence
EVID = os.path.join(VERIF, "evidence") if os.path.realpath(REPO) == "/repo" else os.path.join(CACHE, "evidence-scratch")


class Finding:
    def __init__(self, rule, key, msg, loc=None, details=None):
        self.rule = rule
        self.key = "%s : %s" % (rule, key)  # stable: no line numbers / block ids
        self.msg = msg
        self.loc = loc
        self.details = details or {}

    def to_json(self):
        return {"rule": self.rule, "key": self.key, "msg": self.msg, "loc": self.loc, "details": self.details}


def load_known():
    out = []
    if os.path.exists(KNOWN):
        with open(KNOWN) as fh:
            for line in fh:
                line = line.strip()
                if line and not line.startswith("#"):
                    out.append(json.loads(line))
    return out


class Report:
    """Collects rule instances / obligations / findings of one property check."""

    def __init__(self, pid, tier, level, facts=None):
        self.pid = pid
        self.tier = tier
        self.level = level
        self.t0 = time.time()
        self.findings = []
        self.rules = {}  # rule id -> dict(instances, floor, text, kind)
        self.samples = []
        self.assumptions = []
        self.trusted = []
        self.obligations = 0
        self.discharged = 0
        self.extra = {}
        self.facts = facts
        self.explanation = ""
        self.distinct = set()

    # -- rule bookkeeping
    def rule(self, rid, text, kind="P"):
        self.rules.setdefault(rid, {"text": text, "kind": kind, "instances": 0, "floor": 0, "findings": 0})

    def instances(self, rid, n, floor=0, what=None):
        r = self.rules[rid]
        r["instances"] += n
        r["floor"] = max(r["floor"], floor)
        if what:
            r["what"] = what

    def oblige(self, ok, distinct_key=None):
        self.obligations += 1
        if ok:
            self.discharged += 1
        if distinct_key is not None:
            self.distinct.add(distinct_key)

    def sample(self, s):
        if len(self.samples) < 12:
            self.samples.append(s)

    def add(self, finding):
        # de-duplicate by key
        for f in self.findings:
            if f.key == finding.key:
                return
        self.findings.append(finding)
        rid = finding.rule
        if rid in self.rules:
            self.rules[rid]["findings"] += 1

    # -- finish
    def finish(self):
        from .facts import Broken

        # anti-vacuity: a rule whose instance count fell below its floor is a broken checker
        for rid, r in self.rules.items():
            if r["instances"] < r["floor"]:
                raise Broken(
                    "rule %s matched %d instances, below its floor %d (anchor lost?)"
                    % (rid, r["instances"], r["floor"])
                )
        known = [k for k in load_known() if k.get("property") == self.pid]
        known_keys = {k["key"]: k for k in known if k.get("kind") == "finding"}
        new = []
        lines = []
        matched = set()
        for f in self.findings:
            if f.key in known_keys:
                matched.add(f.key)
                lines.append("KNOWN-FINDING: property=%s %s [%s]" % (self.pid, known_keys[f.key].get("what", f.msg), f.key))
            else:
                new.append(f)
        os.makedirs(os.path.join(EVID, "replay"), exist_ok=True)
        for i, f in enumerate(new):
            rp = os.path.join(os.path.relpath(EVID, VERIF), "replay", "%s-%d.json" % (self.pid, i))
            with open(os.path.join(VERIF, rp), "w") as fh:
                json.dump(dict(f.to_json(), property=self.pid, tree=self.facts.hash if self.facts else None), fh, indent=1)
            print("FINDING %s at %s: %s" % (f.key, f.loc, f.msg))
            lines.append("VIOLATION property=%s replay=%s" % (self.pid, rp))
        for l in lines:
            print(l)
        wall = round(time.time() - self.t0, 3)
        n_inst = sum(r["instances"] for r in self.rules.values())
        cov = {
            "explanation": self.explanation,
            "rules": self.rules,
            "rule_instances": n_inst,
            "evaluations": max(1, n_inst + self.obligations),
            "distinct_nontrivial": max(len(self.distinct), len([r for r in self.rules.values() if r["instances"]])),
            "rule": "one evaluation = one rule instance (call site / store / path / context / obligation) found in the"
            " current MIR and checked; distinct = distinct instance keys",
            "samples": self.samples or [{"note": "no instance sampled"}],
            "obligations": self.obligations,
            "discharged": self.discharged,
            "checker_cmd": "./check %s --tier %s" % (self.pid, self.tier),
            "trusted_base": self.trusted,
            "findings": [f.to_json() for f in self.findings],
            "known_findings_matched": sorted(matched),
            "exhaustive": bool(self.extra.get("exhaustive", False)),
        }
        if self.facts is not None:
            cov["analysed"] = {
                "tree_hash": self.facts.hash,
                "repo": self.facts.ex.get("repo"),
                "lib_bodies": len([b for b in self.facts.bodies.values() if b.kind != "promoted"]),
                "calls": self.facts.lib["n_calls"],
                "calls_resolved": self.facts.lib["n_resolved"],
                "extract_s": self.facts.ex["extract_s"],
                "facts_cached": self.facts.ex["cached"],
            }
        cov.update(self.extra)
        ev = {
            "property_id": self.pid,
            "tier": self.tier,
            "seed": int(os.environ.get("VERIF_SEED", "0") or 0),
            "level": self.level,
            "coverage": cov,
            "assumptions": self.assumptions,
            "wall_s": wall,
            "violations": len(new),
        }
        os.makedirs(EVID, exist_ok=True)
        with open(os.path.join(EVID, "%s.json" % self.pid), "w") as fh:
            json.dump(ev, fh, indent=1, default=str)
        ok = not new
        print(
            "%s %s tier=%s rules=%d instances=%d obligations=%d/%d findings=%d (known %d, new %d) wall=%.2fs"
            % (
                self.pid,
                "OK" if ok else "FAIL",
                self.tier,
                len(self.rules),
                n_inst,
                self.discharged,
                self.obligations,
                len(self.findings),
                len(matched),
                len(new),
                wall,
            )
        )
        return 0 if ok else 1
