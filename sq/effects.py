"""Effect summaries (E1): which abstract roots a crate function may write, transitively.

tags:  ("table", method)          mutating call on HashMap<u32, Plane>
       ("field", adt, name)       store through a reference into a field of a crate ADT
       ("btree", method)          mutating call on a BTreeMap
       ("stdout",)                print
       ("iowrite",)               io::Write on a file / log sink
"""
from .cfg import call_graph
from .mirq import place_fields

HASHMAP_MUT = {
    "insert", "entry", "remove", "remove_entry", "retain", "clear", "drain", "get_mut", "iter_mut", "values_mut",
    "extend", "extract_if", "get_many_mut", "get_disjoint_mut", "try_insert", "shrink_to_fit", "shrink_to",
    "reserve", "try_reserve", "raw_entry_mut", "into_values", "into_keys", "into_iter", "get_or_insert_with",
    "and_modify", "or_insert", "or_insert_with", "or_insert_with_key", "or_default", "insert_entry",
    "and_replace_entry_with", "index_mut", "deref_mut", "take", "replace", "swap", "append", "split_off",
    "pop_first", "pop_last", "first_entry", "last_entry", "range_mut",
}
HASHMAP_READ = {"iter", "get", "contains_key", "len", "is_empty", "keys", "values", "get_key_value", "capacity"}


def _is_plane_map(callee):
    ga = " ".join(callee.get("generic_args") or [])
    ty = callee.get("ty") or ""
    path = callee.get("path") or ""
    if "Plane" not in ga and "Plane" not in ty:
        return False
    return ("collections::hash" in path or "collections::HashMap" in path or "hash_map" in path
            or "HashMap" in (callee.get("impl_self") or ""))


def _is_btree(callee):
    path = callee.get("path") or ""
    return "btree" in path or "BTreeMap" in path or "BTreeMap" in (callee.get("impl_self") or "")


_CRATE_ADTS = set()


def direct_effects(body):
    eff = set()
    for bi, blk in enumerate(body.blocks):
        if blk["cleanup"]:
            continue
        for s in blk["stmts"]:
            if s["k"] != "assign":
                continue
            rv = s["rv"]
            if rv.get("k") == "ref" and rv.get("mut"):
                # `&mut (*r).field..` : whoever receives the borrow (a std method, a later `*p = v`) may write the field
                seen_deref = False
                for p in rv["place"]["proj"]:
                    if p["k"] == "deref":
                        seen_deref = True
                    elif p["k"] == "field" and seen_deref and p.get("adt"):
                        # a borrowed field that is itself a crate struct (`&mut self.counters`) is written field by field by
                        # whoever receives the borrow - that shows in the callee's own summary
                        last = [q for q in rv["place"]["proj"] if q["k"] == "field"][-1]
                        if (last.get("ty") or "").replace("&mut ", "").lstrip("&") not in _CRATE_ADTS:
                            eff.add(("field", p["adt"], p["name"]))
                        break
            proj = s["place"]["proj"]
            if any(p["k"] == "deref" for p in proj):
                # store through a reference
                seen_deref = False
                for p in proj:
                    if p["k"] == "deref":
                        seen_deref = True
                    elif p["k"] == "field" and seen_deref and p.get("adt"):
                        eff.add(("field", p["adt"], p["name"]))
                        break
        t = blk["term"]
        if t["k"] == "call":
            c = t["callee"]
            name = c.get("name")
            if _is_plane_map(c) and name in HASHMAP_MUT:
                eff.add(("table", name))
            elif _is_btree(c) and name in HASHMAP_MUT:
                eff.add(("btree", name))
            p = c.get("path") or ""
            if p == "std::io::_print" or p == "std::io::_eprint":
                eff.add(("stdout",))
            if p.endswith("io::Write::write_fmt") or p.endswith("io::Write::write_all") or p.endswith("io::Write::write"):
                eff.add(("iowrite",))
            # call destination written through a reference
            proj = t["dest"]["proj"]
            seen_deref = False
            for pp in proj:
                if pp["k"] == "deref":
                    seen_deref = True
                elif pp["k"] == "field" and seen_deref and pp.get("adt"):
                    eff.add(("field", pp["adt"], pp["name"]))
                    break
    return eff


class Effects:
    def __init__(self, facts):
        self.facts = facts
        self.cg = call_graph(facts)
        _CRATE_ADTS.clear()
        _CRATE_ADTS.update(facts.adts)
        self.direct = {n: direct_effects(b) for n, b in facts.bodies.items() if b.kind != "promoted"}
        self.trans = {}
        # fixpoint over the call graph (tiny)
        for n in self.direct:
            self.trans[n] = set(self.direct[n])
        changed = True
        while changed:
            changed = False
            for n, edges in self.cg.items():
                cur = self.trans[n]
                before = len(cur)
                for _, _, tgt in edges:
                    if tgt and tgt in self.trans:
                        cur |= self.trans[tgt]
                if len(cur) != before:
                    changed = True

    def of(self, name):
        return self.trans.get(name, set())

    def of_call(self, term):
        c = term["callee"]
        inst = c.get("instance")
        e = set()
        if inst in self.trans:
            e |= self.trans[inst]
        elif c.get("path") in self.trans:
            e |= self.trans[c["path"]]
        name = c.get("name")
        if _is_plane_map(c) and name in HASHMAP_MUT:
            e.add(("table", name))
        if _is_btree(c) and name in HASHMAP_MUT:
            e.add(("btree", name))
        return e

    @staticmethod
    def has_table(e):
        return any(t[0] == "table" for t in e)

    @staticmethod
    def fields(e, adt_suffix):
        return {t[2] for t in e if t[0] == "field" and (t[1] == adt_suffix or t[1].endswith("::" + adt_suffix))}


def display_only_fields(facts, eff, adt_suffix="AppCounters"):
    """Fields of the ADT that can only influence WHEN/WHAT is printed, never the table or the counters (greatest fixpoint):
    (1) every read of the field sits in an effect-free function (a pure predicate such as `is_time_to_refresh`), and
    (2) at every call site of such a predicate the result is used only as a branch condition, and the calls controlled
        by that branch have no effect other than output and stores to fields of this same set."""
    from .cfg import CFG
    from .mirq import DefUse, controlling_decisions, field_reads, operand_place
    from .facts import callee_name
    reads = field_reads(facts, adt_suffix)
    by_field = {}
    for r in reads:
        by_field.setdefault(r["field"], set()).add(r["body"].name)
    stored = {t[2] for n in eff.direct for t in eff.direct[n] if t[0] == "field" and t[1].split("::")[-1] == adt_suffix}
    cand = set()
    for f in stored | set(by_field):
        readers = by_field.get(f, set())
        if all(not eff.of(n) for n in readers):
            cand.add(f)
    changed = True
    while changed and cand:
        changed = False
        allowed = lambda e: all(x[0] in ("stdout", "iowrite") or (x[0] == "field" and x[1].split("::")[-1] == adt_suffix and x[2] in cand) for x in e)
        for f in sorted(cand):
            ok = True
            for pred in by_field.get(f, set()):
                for c in facts.bodies.values():
                    if c.kind == "promoted" or "::tests::" in c.name:
                        continue
                    sites = [(bb, t) for bb, t in c.calls() if callee_name(t) == pred]
                    if not sites:
                        continue
                    cfg = CFG(c)
                    for bb, t in sites:
                        d = t["dest"]["local"]
                        sw = []
                        for bi, blk in enumerate(c.blocks):
                            if blk["cleanup"]:
                                continue
                            for st in blk["stmts"]:
                                if st["k"] == "assign" and _mentions(st["rv"], d):
                                    ok = False
                            tt = blk["term"]
                            if tt["k"] == "switch":
                                pl = operand_place(tt["discr"])
                                if pl and pl["local"] == d:
                                    sw.append(bi)
                            elif tt["k"] == "call" and any((operand_place(a) or {}).get("local") == d for a in tt["args"]):
                                ok = False
                        for bi, tt in c.calls():
                            e = eff.of_call(tt)
                            if allowed(e):
                                continue
                            if any(dd[0] in sw for dd in controlling_decisions(c, cfg, bi)):
                                ok = False
            if not ok:
                cand.discard(f)
                changed = True
    return cand


def _mentions(o, local):
    if isinstance(o, dict):
        if set(o.keys()) == {"local", "proj"} and o["local"] == local:
            return True
        return any(_mentions(v, local) for v in o.values())
    if isinstance(o, list):
        return any(_mentions(v, local) for v in o)
    return False
