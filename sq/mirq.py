"""MIR query helpers shared by the structural rules (E1): field stores/reads,
intra-body def-use slices, operand roots."""
from .facts import span_loc


def place_fields(place):
    """list of (adt, field name) along a place's projection"""
    return [(p.get("adt"), p.get("name")) for p in place["proj"] if p["k"] == "field"]


def place_last_field(place):
    for p in reversed(place["proj"]):
        if p["k"] == "field":
            return p.get("adt"), p.get("name")
        if p["k"] in ("index", "cindex", "subslice", "deref", "downcast"):
            continue
    return None, None


def is_adt(adt, suffix):
    return adt is not None and (adt == suffix or adt.endswith("::" + suffix))


def iter_stmts(body, include_cleanup=False):
    for bi, blk in enumerate(body.blocks):
        if blk["cleanup"] and not include_cleanup:
            continue
        for si, s in enumerate(blk["stmts"]):
            yield bi, si, s


def field_stores(facts, adt_suffix, field=None, bodies=None):
    """All MIR stores `<place>.<field> = ...` into a field of the ADT (any depth: the first
    projection field that belongs to the ADT decides), plus call destinations writing it.
    Returns list of dict(body, bb, si, field, stmt|term, via)."""
    out = []
    for b in (bodies or facts.bodies.values()):
        if b.kind == "promoted":
            continue
        for bi, si, s in iter_stmts(b):
            if s["k"] != "assign":
                continue
            fs = [(a, n) for a, n in place_fields(s["place"]) if is_adt(a, adt_suffix)]
            if fs and (field is None or fs[0][1] == field):
                out.append({"body": b, "bb": bi, "si": si, "field": fs[0][1], "stmt": s, "via": "assign"})
        for bi, t in b.calls():
            fs = [(a, n) for a, n in place_fields(t["dest"]) if is_adt(a, adt_suffix)]
            if fs and (field is None or fs[0][1] == field):
                out.append({"body": b, "bb": bi, "si": None, "field": fs[0][1], "term": t, "via": "calldest"})
    return out


def adt_aggregates(facts, adt_suffix):
    out = []
    for b in facts.bodies.values():
        if b.kind == "promoted":
            continue
        for bi, si, s in iter_stmts(b):
            if s["k"] == "assign" and s["rv"]["k"] == "agg" and s["rv"].get("agg") == "adt" and is_adt(
                s["rv"].get("adt"), adt_suffix
            ):
                out.append({"body": b, "bb": bi, "si": si, "stmt": s})
    return out


def operand_place(op):
    return op.get("copy") or op.get("move")


def field_reads(facts, adt_suffix, field=None):
    """All reads of ADT fields (operands and ref-takings whose place goes through the field)."""
    out = []

    def visit_place(b, bi, where, pl, node):
        fs = [(a, n) for a, n in place_fields(pl) if is_adt(a, adt_suffix)]
        if fs and (field is None or fs[0][1] == field):
            out.append({"body": b, "bb": bi, "field": fs[0][1], "where": where, "node": node})

    def visit_op(b, bi, where, op, node):
        pl = operand_place(op)
        if pl:
            visit_place(b, bi, where, pl, node)

    for b in facts.bodies.values():
        if b.kind == "promoted":
            continue
        for bi, blk in enumerate(b.blocks):
            if blk["cleanup"]:
                continue
            for s in blk["stmts"]:
                if s["k"] != "assign":
                    continue
                rv = s["rv"]
                k = rv["k"]
                if k in ("use", "cast", "un", "repeat"):
                    visit_op(b, bi, "stmt", rv["x"], s)
                elif k == "bin":
                    visit_op(b, bi, "stmt", rv["l"], s)
                    visit_op(b, bi, "stmt", rv["r"], s)
                elif k in ("ref", "discr", "copy_for_deref", "rawptr"):
                    visit_place(b, bi, "stmt", rv["place"], s)
                elif k == "agg":
                    for o in rv["ops"]:
                        visit_op(b, bi, "stmt", o, s)
            t = blk["term"]
            if t["k"] == "call":
                for a in t["args"]:
                    visit_op(b, bi, "call", a, t)
            elif t["k"] == "switch":
                visit_op(b, bi, "switch", t["discr"], t)
            elif t["k"] == "assert":
                visit_op(b, bi, "assert", t["cond"], t)
    return out


class DefUse:
    """Intra-body definitions of locals (whole-local assignments and call destinations)."""

    def __init__(self, body):
        self.body = body
        self.defs = {}
        for bi, blk in enumerate(body.blocks):
            if blk["cleanup"]:
                continue
            for si, s in enumerate(blk["stmts"]):
                if s["k"] == "assign":
                    self.defs.setdefault(s["place"]["local"], []).append(("stmt", bi, si, s))
            t = blk["term"]
            if t["k"] == "call":
                self.defs.setdefault(t["dest"]["local"], []).append(("call", bi, None, t))

    def whole_defs(self, local):
        return [d for d in self.defs.get(local, []) if not (d[3].get("place") or d[3].get("dest"))["proj"]]

    def root(self, op, depth=0):
        """Follow copies/moves/casts/refs back to the originating thing.
        Returns ('const', c) | ('arg', n, proj) | ('call', term, proj) | ('rv', stmt, proj) | ('multi', local, proj)"""
        if "const" in op:
            return ("const", op["const"], [])
        pl = operand_place(op)
        return self.root_place(pl, depth)

    def root_place(self, pl, depth=0):
        proj = list(pl["proj"])
        local = pl["local"]
        while depth < 64:
            depth += 1
            if 1 <= local <= self.body.arg_count and not self.whole_defs(local):
                return ("arg", local, proj)
            ds = self.whole_defs(local)
            if len(ds) > 1 and all(d[0] == "stmt" and d[3].get("inline_ret") for d in ds):
                ds = ds[:1]  # the copies `dest = move ret` of one inlined callee (one per split return block)
            if len(ds) > 1 and self.body.locals[local].get("inlined_ret"):
                # constant returns of an inlined helper are threaded straight to the caller's branch arm (sq/inline.py): only
                # the computed returns are ever observed through the call's destination
                keep = [d for d in ds if not (d[0] == "stmt" and d[3]["rv"]["k"] == "use" and "const" in d[3]["rv"]["x"]
                                              and self.body.blocks[d[1]].get("ret_variant") in (0, 1))]
                if len(keep) == 1:
                    ds = keep
            if len(ds) > 1 and proj and proj[0]["k"] == "downcast":
                # `(x as Some).0` : only the definitions that build that variant matter
                want = proj[0].get("idx")
                keep = []
                for d in ds:
                    v = _def_variant(d)
                    if v is None or v == want:
                        keep.append(d)
                if len(keep) == 1:
                    ds = keep
            if len(ds) != 1:
                return ("multi", local, proj)
            kind, bi, si, node = ds[0]
            if kind == "call":
                return ("call", node, proj)
            rv = node["rv"]
            if rv["k"] == "use" or (rv["k"] == "cast" and rv["kind"].startswith("IntToInt")):
                x = rv["x"]
                if "const" in x:
                    return ("const", x["const"], proj)
                p2 = operand_place(x)
                local = p2["local"]
                proj = list(p2["proj"]) + proj
                continue
            if rv["k"] in ("ref", "copy_for_deref"):
                p2 = rv["place"]
                # &(*x) / &x.f : follow the place; deref cancels the ref
                np = list(p2["proj"])
                if proj and proj[0]["k"] == "deref" and rv["k"] == "ref":
                    proj = proj[1:]
                elif rv["k"] == "ref":
                    # value is a reference to p2; keep marker
                    np = np + [{"k": "addr"}]
                local = p2["local"]
                proj = np + proj
                # cancel addr+deref pairs
                proj = _cancel(proj)
                continue
            return ("rv", node, proj)
        return ("multi", local, proj)


def _def_variant(d):
    """variant index an Option/Result definition certainly builds (None = unknown)"""
    kind, bi, si, node = d
    if kind == "stmt":
        rv = node["rv"]
        if rv["k"] == "agg" and rv.get("agg") == "adt" and rv.get("variant_idx") is not None:
            return rv["variant_idx"]
        return None
    c = node["callee"]
    if c.get("name") == "from_residual" and c.get("trait") == "std::ops::FromResidual":
        ga = c.get("generic_args") or []
        if ga and ga[0].startswith("std::option::Option<"):
            return 0
        if ga and ga[0].startswith("std::result::Result<"):
            return 1
    return None


def _cancel(proj):
    out = []
    for p in proj:
        if p["k"] == "deref" and out and out[-1]["k"] == "addr":
            out.pop()
        else:
            out.append(p)
    return out


def proj_fields(proj):
    return [p.get("name") if p.get("name") is not None else p.get("i") for p in proj if p["k"] == "field"]


def stmt_loc(s):
    return span_loc(s.get("span"))


# ---------------------------------------------------------------------------
# expression trees (def-use slices rendered as nested tuples)


def _path_of(proj):
    out = []
    for p in proj:
        if p["k"] == "field":
            out.append(p.get("name") if p.get("name") is not None else p["i"])
        elif p["k"] == "index":
            out.append("[_%d]" % p["local"])
        elif p["k"] == "cindex":
            out.append("[%d]" % p["offset"])
        elif p["k"] == "downcast":
            out.append("as:%s" % p.get("variant"))
    return tuple(out)


def expr(du, op, depth=0):
    """expression tree of an operand: const / arg / capture / call / bin / un / cast / agg / discr / multi"""
    if "const" in op:
        c = op["const"]
        if "int" in c:
            if c.get("ty") == "bool":
                return ("const", bool(int(c["int"])))       # (False == 0 and True == 1 still hold for rules comparing with 0 / 1)
            return ("const", int(c["int"]))
        if "float_bits" in c:
            import struct
            bits = int(c["float_bits"])
            if c.get("float_size") == 8:
                return ("const", struct.unpack("<d", struct.pack("<Q", bits))[0])
            return ("const", struct.unpack("<f", struct.pack("<I", bits))[0])
        if "str" in c:
            return ("const", c["str"])
        if "fn" in c:
            return ("fn", c.get("instance") or c["fn"])
        if "promoted" in c and _FACTS is not None and depth < 20:
            pb = _FACTS.bodies.get("%s::{promoted#%d}" % (c.get("def"), c["promoted"]))
            if pb is not None:
                pe = expr_place(DefUse(pb), {"local": 0, "proj": []}, depth + 1)
                if not _has_multi(pe):
                    return pe
        if "value" in c:
            import json
            return ("const", ("__value__", json.dumps(c["value"], sort_keys=True)))     # structured constant (hashable form)
        return ("const", c.get("opaque") or c.get("ty"))
    return expr_place(du, operand_place(op), depth)


def expr_place(du, pl, depth=0):
    if depth > 24:
        return ("deep",)
    r = du.root_place(pl)
    body = du.body
    if r[0] == "const":
        e = expr(du, {"const": r[1]}, depth)
        return e if not _path_of(r[2]) else ("path", e, _path_of(r[2]))
    if r[0] == "arg":
        path = _path_of(r[2])
        if body.kind == "closure" and r[1] == 1 and path and isinstance(path[0], int):
            caps = body.j.get("captures") or []
            if path[0] < len(caps):
                return ("capture", caps[path[0]]["name"], path[1:])
        return ("arg", r[1], path)
    if r[0] == "call":
        t = r[1]
        from .facts import callee_name
        args = [expr(du, a, depth + 1) for a in t["args"]]
        e = ("call", callee_name(t), tuple(args))
        path = _path_of(r[2])
        # `x?` : (Try::branch(x) as Continue).0  ==  (x as Some/Ok).0
        if t["callee"].get("name") == "branch" and t["callee"].get("trait") == "std::ops::Try" and len(args) == 1 \
                and len(path) >= 2 and path[0] == "as:Continue" and path[1] in (0, "0"):
            ga = (t["callee"].get("generic_args") or [""])[0]
            v = "as:Some" if ga.startswith("std::option::Option<") else ("as:Ok" if ga.startswith("std::result::Result<") else None)
            if v:
                inner = args[0]
                npath = (v, 0) + tuple(path[2:])
                if inner[0] == "path":
                    return ("path", inner[1], tuple(inner[2]) + npath)
                return ("path", inner, npath)
        if path and _FACTS is not None:
            pe = _ctor_field(e, path)
            if pe is not None:
                return pe
        return e if not path else ("path", e, path)
    if r[0] == "rv":
        rv = r[1]["rv"]
        rvk = rv
        k = rv["k"]
        path = _path_of(r[2])
        if k == "bin":
            e = ("bin", rv["op"], expr(du, rv["l"], depth + 1), expr(du, rv["r"], depth + 1))
        elif k == "un":
            e = ("un", rv["op"], expr(du, rv["x"], depth + 1))
        elif k == "cast":
            e = ("cast", rv["kind"], expr(du, rv["x"], depth + 1), rv["to"]["s"])
        elif k == "discr":
            e = ("discr", expr_place(du, rv["place"], depth + 1))
        elif k == "agg":
            e = ("agg", rv.get("agg"), tuple(expr(du, o, depth + 1) for o in rv["ops"]))
            if rv.get("agg") == "closure":
                e = e + (rv.get("closure"),)
            if rv.get("agg") == "adt":
                # (.., adt name, field names, variant name) so that projections can descend by name
                e = e + (rv.get("adt"), tuple(str(f) for f in (rv.get("fields") or [])), rv.get("variant"))
            e, path = project_expr(e, path)
        elif k == "repeat":
            e = ("repeat", expr(du, rv["x"], depth + 1), rv.get("n"))
        else:
            e = ("rv", k)
        return e if not path else ("path", e, path)
    return ("multi", r[1], _path_of(r[2]))


_FACTS = None        # set by sq.facts.load(): lets expression trees look through crate constructors
_CTOR_CACHE = {}


def _ctor_field(call_e, path):
    """`Session::start(args).args` -> `args`: a field of the struct a crate constructor returns, when that field is a shared
    reference (immutable after construction) and the constructor sets it to a single expression over its parameters"""
    name = call_e[1]
    facts = _FACTS
    cb = facts.bodies.get(name) if isinstance(name, str) else None
    if cb is None or not path or not isinstance(path[0], str):
        return None
    key = (id(facts), name)
    if key not in _CTOR_CACHE:
        ret = None
        try:
            cdu = DefUse(cb)
            ret = expr_place(cdu, {"local": 0, "proj": []})
        except Exception:
            ret = None
        _CTOR_CACHE[key] = ret
    ret = _CTOR_CACHE[key]
    if not (isinstance(ret, tuple) and ret and ret[0] == "agg" and ret[1] == "adt" and len(ret) > 4):
        return None
    adt = facts.adts.get(ret[3])
    if adt is None:
        return None
    fty = None
    for f in adt["variants"][0]["fields"]:
        if f["name"] == path[0]:
            fty = f["ty"]
    if fty is None or not (fty.get("k") == "ref" and not fty.get("mut")):
        return None
    e2, rest = project_expr(ret, (path[0],))
    if rest or _has_multi(e2):
        return None
    e3 = _subst_args(e2, call_e[2])
    rest2 = tuple(path[1:])
    if rest2 and rest2[0] == "deref":
        rest2 = rest2[1:]
    if not rest2:
        return e3
    if e3[0] == "arg":
        return ("arg", e3[1], tuple(e3[2]) + rest2)
    if e3[0] == "path":
        return ("path", e3[1], tuple(e3[2]) + rest2)
    return ("path", e3, rest2)


def project_expr(e, path):
    """descend into aggregate expression trees along a place path (variant downcasts, tuple/array indices, field names)"""
    path = tuple(path)
    while path:
        if e[0] == "path":
            e, path = e[1], tuple(e[2]) + path
            continue
        if e[0] != "agg":
            break
        kind = e[1]
        p0 = path[0]
        if kind == "adt":
            fields = e[4] if len(e) > 4 else ()
            variant = e[5] if len(e) > 5 else None
            if isinstance(p0, str) and p0.startswith("as:"):
                if variant is not None and p0[3:] == str(variant):
                    path = path[1:]
                    continue
                break
            if str(p0) in fields:
                e, path = e[2][fields.index(str(p0))], path[1:]
                continue
            break
        if kind in ("tuple", "array") and isinstance(p0, int) and p0 < len(e[2]):
            e, path = e[2][p0], path[1:]
            continue
        break
    return e, path


def show(e, depth=0):
    """compact printable form of an expression tree"""
    if not isinstance(e, tuple):
        return repr(e)
    k = e[0]
    if k == "const":
        return repr(e[1])
    if k == "arg":
        return "arg%d%s" % (e[1], "".join("." + str(p) for p in e[2]))
    if k == "capture":
        return "%s%s" % (e[1], "".join("." + str(p) for p in e[2]))
    if k == "call":
        return "%s(%s)" % (e[1].split("::")[-1] if depth > 3 else e[1], ", ".join(show(a, depth + 1) for a in e[2]))
    if k == "bin":
        return "(%s %s %s)" % (show(e[2], depth + 1), e[1], show(e[3], depth + 1))
    if k == "un":
        return "%s(%s)" % (e[1], show(e[2], depth + 1))
    if k == "cast":
        return "(%s as %s)" % (show(e[2], depth + 1), e[3])
    if k == "path":
        return "%s%s" % (show(e[1], depth + 1), "".join("." + str(p) for p in e[2]))
    if k == "discr":
        return "discr(%s)" % show(e[1], depth + 1)
    if k == "agg":
        return "%s[%s]" % (e[1], ", ".join(show(a, depth + 1) for a in e[2]))
    if k == "fn":
        return "fn:%s" % e[1]
    return str(e)


# ---------------------------------------------------------------------------
# which branch decisions control an assignment (used for predicate closures)


def controlling_decisions(body, cfg, target_bb):
    """[(switch_bb, frozenset(values leading to target), all_values)] for every switch that dominates
    target_bb and some of whose out-edges cannot reach it.  'otherwise' is reported as the string 'else'."""
    out = []
    dom = cfg.dom().get(target_bb, set())
    for s in sorted(dom):
        t = body.blocks[s]["term"]
        if t["k"] != "switch" or s == target_bb:
            continue
        edges = [(v, b) for v, b in t["targets"]] + [("else", t["otherwise"])]
        reach_vals = []
        for v, b in edges:
            if body.blocks[b]["term"]["k"] == "unreachable" and not body.blocks[b]["stmts"]:
                continue
            r = cfg.reachable_from(b, avoid={s})
            if target_bb in r:
                reach_vals.append(v)
        live = [v for v, b in edges if not (body.blocks[b]["term"]["k"] == "unreachable" and not body.blocks[b]["stmts"])]
        if 0 < len(reach_vals) < len(live):
            out.append((s, frozenset(reach_vals), tuple(live)))
    return out


def const_assignments(body, local=0):
    """[(bb, const value)] for statements `_local = const c`"""
    out = []
    for bi, blk in enumerate(body.blocks):
        if blk["cleanup"]:
            continue
        for s in blk["stmts"]:
            if s["k"] == "assign" and s["place"]["local"] == local and not s["place"]["proj"] and s["rv"]["k"] == "use" and "const" in s["rv"]["x"]:
                c = s["rv"]["x"]["const"]
                if "int" in c:
                    out.append((bi, int(c["int"])))
    return out


def inline_expr(facts, e, depth=0):
    """replace calls to crate-local functions by their return expression (arguments substituted), where that expression is
    a single tree (no join of several definitions) - lets key/comparator rules see through small helpers"""
    if not isinstance(e, tuple) or depth > 3:
        return e
    if e and e[0] == "call" and isinstance(e[1], str) and e[1] in facts.bodies:
        cb = facts.bodies[e[1]]
        args = tuple(inline_expr(facts, a, depth + 1) for a in e[2])
        cdu = DefUse(cb)
        ret = expr_place(cdu, {"local": 0, "proj": []})
        if not _has_multi(ret):
            return inline_expr(facts, _subst_args(ret, args), depth + 1)
        return ("call", e[1], args)
    return tuple(inline_expr(facts, x, depth) if isinstance(x, tuple) else x for x in e)


def _has_multi(e):
    if isinstance(e, tuple):
        if e and e[0] in ("multi", "deep"):
            return True
        return any(_has_multi(x) for x in e if isinstance(x, tuple))
    return False


def _subst_args(e, args):
    if not isinstance(e, tuple):
        return e
    if e and e[0] == "arg" and isinstance(e[1], int) and 1 <= e[1] <= len(args):
        a = args[e[1] - 1]
        path = tuple(e[2])
        if not path:
            return a
        if a[0] == "arg":
            return ("arg", a[1], tuple(a[2]) + path)
        if a[0] == "path":
            return ("path", a[1], tuple(a[2]) + path)
        return ("path", a, path)
    return tuple(_subst_args(x, args) if isinstance(x, tuple) else x for x in e)
