"""MIR query helpers shared by the structural rules (E1): field stores/reads,
intra-body def-use slices, operand roots."""
from .facts import span_loc


def place_fields(place):
    """list of (adt, field name) along a place's projection"""
    return [(p.get("adt"), p.get("name")) for p in place["proj"] if p["k"] == "field"]


def place_last_field(place):
    for p in reversed(place["proj"]):
        if p["k"] == "field":
            return p.get("adt"), p.get("name")
        if p["k"] in ("index", "cindex", "subslice", "deref", "downcast"):
            continue
    return None, None


def is_adt(adt, suffix):
    return adt is not None and (adt == suffix or adt.endswith("::" + suffix))


def iter_stmts(body, include_cleanup=False):
    for bi, blk in enumerate(body.blocks):
        if blk["cleanup"] and not include_cleanup:
            continue
        for si, s in enumerate(blk["stmts"]):
            yield bi, si, s


def field_stores(facts, adt_suffix, field=None, bodies=None):
    """All MIR stores `<place>.<field> = ...` into a field of the ADT (any depth: the first
    projection field that belongs to the ADT decides), plus call destinations writing it.
    Returns list of dict(body, bb, si, field, stmt|term, via)."""
    out = []
    for b in (bodies or facts.bodies.values()):
        if b.kind == "promoted":
            continue
        for bi, si, s in iter_stmts(b):
            if s["k"] != "assign":
                continue
            fs = [(a, n) for a, n in place_fields(s["place"]) if is_adt(a, adt_suffix)]
            if fs and (field is None or fs[0][1] == field):
                out.append({"body": b, "bb": bi, "si": si, "field": fs[0][1], "stmt": s, "via": "assign"})
        for bi, t in b.calls():
            fs = [(a, n) for a, n in place_fields(t["dest"]) if is_adt(a, adt_suffix)]
            if fs and (field is None or fs[0][1] == field):
                out.append({"body": b, "bb": bi, "si": None, "field": fs[0][1], "term": t, "via": "calldest"})
    return out


def adt_aggregates(facts, adt_suffix):
    out = []
    for b in facts.bodies.values():
        if b.kind == "promoted":
            continue
        for bi, si, s in iter_stmts(b):
            if s["k"] == "assign" and s["rv"]["k"] == "agg" and s["rv"].get("agg") == "adt" and is_adt(
                s["rv"].get("adt"), adt_suffix
            ):
                out.append({"body": b, "bb": bi, "si": si, "stmt": s})
    return out


def operand_place(op):
    return op.get("copy") or op.get("move")


def field_reads(facts, adt_suffix, field=None):
    """All reads of ADT fields (operands and ref-takings whose place goes through the field)."""
    out = []

    def visit_place(b, bi, where, pl, node):
        fs = [(a, n) for a, n in place_fields(pl) if is_adt(a, adt_suffix)]
        if fs and (field is None or fs[0][1] == field):
            out.append({"body": b, "bb": bi, "field": fs[0][1], "where": where, "node": node})

    def visit_op(b, bi, where, op, node):
        pl = operand_place(op)
        if pl:
            visit_place(b, bi, where, pl, node)

    for b in facts.bodies.values():
        if b.kind == "promoted":
            continue
        for bi, blk in enumerate(b.blocks):
            if blk["cleanup"]:
                continue
            for s in blk["stmts"]:
                if s["k"] != "assign":
                    continue
                rv = s["rv"]
                k = rv["k"]
                if k in ("use", "cast", "un", "repeat"):
                    visit_op(b, bi, "stmt", rv["x"], s)
                elif k == "bin":
                    visit_op(b, bi, "stmt", rv["l"], s)
                    visit_op(b, bi, "stmt", rv["r"], s)
                elif k in ("ref", "discr", "copy_for_deref", "rawptr"):
                    visit_place(b, bi, "stmt", rv["place"], s)
                elif k == "agg":
                    for o in rv["ops"]:
                        visit_op(b, bi, "stmt", o, s)
            t = blk["term"]
            if t["k"] == "call":
                for a in t["args"]:
                    visit_op(b, bi, "call", a, t)
            elif t["k"] == "switch":
                visit_op(b, bi, "switch", t["discr"], t)
            elif t["k"] == "assert":
                visit_op(b, bi, "assert", t["cond"], t)
    return out


class DefUse:
    """Intra-body definitions of locals (whole-local assignments and call destinations)."""

    def __init__(self, body):
        self.body = body
        self.defs = {}
        for bi, blk in enumerate(body.blocks):
            if blk["cleanup"]:
                continue
            for si, s in enumerate(blk["stmts"]):
                if s["k"] == "assign":
                    self.defs.setdefault(s["place"]["local"], []).append(("stmt", bi, si, s))
            t = blk["term"]
            if t["k"] == "call":
                self.defs.setdefault(t["dest"]["local"], []).append(("call", bi, None, t))

    def whole_defs(self, local):
        return [d for d in self.defs.get(local, []) if not (d[3].get("place") or d[3].get("dest"))["proj"]]

    def root(self, op, depth=0):
        """Follow copies/moves/casts/refs back to the originating thing.
        Returns ('const', c) | ('arg', n, proj) | ('call', term, proj) | ('rv', stmt, proj) | ('multi', local, proj)"""
        if "const" in op:
            return ("const", op["const"], [])
        pl = operand_place(op)
        return self.root_place(pl, depth)

    def root_place(self, pl, depth=0):
        proj = list(pl["proj"])
        local = pl["local"]
        while depth < 64:
            depth += 1
            if 1 <= local <= self.body.arg_count and not self.whole_defs(local):
                return ("arg", local, proj)
            ds = self.whole_defs(local)
            if len(ds) != 1:
                return ("multi", local, proj)
            kind, bi, si, node = ds[0]
            if kind == "call":
                return ("call", node, proj)
            rv = node["rv"]
            if rv["k"] == "use" or (rv["k"] == "cast" and rv["kind"].startswith("IntToInt")):
                x = rv["x"]
                if "const" in x:
                    return ("const", x["const"], proj)
                p2 = operand_place(x)
                local = p2["local"]
                proj = list(p2["proj"]) + proj
                continue
            if rv["k"] in ("ref", "copy_for_deref"):
                p2 = rv["place"]
                # &(*x) / &x.f : follow the place; deref cancels the ref
                np = list(p2["proj"])
                if proj and proj[0]["k"] == "deref" and rv["k"] == "ref":
                    proj = proj[1:]
                elif rv["k"] == "ref":
                    # value is a reference to p2; keep marker
                    np = np + [{"k": "addr"}]
                local = p2["local"]
                proj = np + proj
                # cancel addr+deref pairs
                proj = _cancel(proj)
                continue
            return ("rv", node, proj)
        return ("multi", local, proj)


def _cancel(proj):
    out = []
    for p in proj:
        if p["k"] == "deref" and out and out[-1]["k"] == "addr":
            out.pop()
        else:
            out.append(p)
    return out


def proj_fields(proj):
    return [p.get("name") if p.get("name") is not None else p.get("i") for p in proj if p["k"] == "field"]


def stmt_loc(s):
    return span_loc(s.get("span"))
