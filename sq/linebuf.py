"""Line-buffer discipline of a `read_until`-style reader loop (shared by C13 R13.2 and C18 R18.7).

A reader that reuses one byte buffer for every line is only equivalent to "one fresh line per iteration" if the buffer is
empty at every read:
 (a) around the loop - no path from one read to the next avoids a `clear()` of that buffer;
 (b) at the first read of a call - the buffer is created in the function, or cleared before the read (a buffer that outlives
     the call keeps the partial last line of a connection that was reset and glues it in front of the next connection's
     first line).
Reading the next line IS the line source: the reader calls themselves and the clears that satisfy (a) are not "mutations of
loop-carried state before the accept gates".
"""
from .mirq import operand_place

READERS = ("read_until", "read", "skip_until", "fill_buf")


def _mut_base(pdu, a):
    """the local variable a `&mut` argument ultimately borrows (through reborrows and field projections)"""
    pl = operand_place(a)
    if pl is None:
        return None
    l = pl["local"]
    for _ in range(8):
        ds = pdu.whole_defs(l)
        if len(ds) != 1 or ds[0][0] != "stmt":
            return l
        rv = ds[0][3]["rv"]
        if rv["k"] == "ref":
            l = rv["place"]["local"]
            if not any(p["k"] == "deref" for p in rv["place"]["proj"]):
                return l
            continue
        if rv["k"] == "use" and operand_place(rv["x"]):
            l = operand_place(rv["x"])["local"]
            continue
        return l
    return l


def analyse(reg, pdu, pure_io):
    """-> (exempt call blocks, {buffer local: [read blocks]}, [(key, title, detail, loc)])"""
    proc = reg.proc
    exempt = set()
    problems = []
    buffers = {}
    for bi in sorted(reg.blocks):
        t = proc.blocks[bi]["term"]
        p = (t.get("callee") or {}).get("path") or ""
        if t["k"] == "call" and p in pure_io and p.split("::")[-1] in READERS:
            exempt.add(bi)
            for a in t["args"][1:]:
                l = _mut_base(pdu, a)
                if l is not None:
                    buffers.setdefault(l, []).append(bi)
    clears = {}
    for bi in sorted(reg.blocks):
        t = proc.blocks[bi]["term"]
        if t["k"] == "call" and t["callee"].get("name") == "clear" and t["args"]:
            l = _mut_base(pdu, t["args"][0])
            if l in buffers:
                clears.setdefault(l, set()).add(bi)
    for l, reads in buffers.items():
        cl = clears.get(l, set())
        name = proc.locals[l].get("name") or "_%d" % l
        # (a) no read-to-read path without a clear
        ok = bool(cl)
        for rb in reads:
            seen = set()
            stack = [x for x in reg.cfg.succ[rb] if x in reg.blocks and x not in cl]
            while stack:
                x = stack.pop()
                if x in seen or x in cl:
                    continue
                seen.add(x)
                for y in reg.cfg.succ[x]:
                    if y in reg.blocks and y not in cl:
                        stack.append(y)
            if any(r2 in seen for r2 in reads):
                ok = False
        # (b) empty at the first read of the call
        fresh = False
        if l > proc.arg_count:
            ds = pdu.whole_defs(l)
            if len(ds) == 1 and ds[0][0] == "call" and ds[0][3]["callee"].get("name") in ("new", "with_capacity", "default"):
                fresh = True
        if ok and not fresh and not any(all(reg.cfg.dominates(c, rb) for rb in reads) for c in cl):
            problems.append((("buffer-fresh", l), "line buffer outlives the reader call",
                             "the read buffer (`%s`) is neither created in %s nor cleared before its first read: bytes left over from an "
                             "earlier call (a connection that ended in the middle of a line) are glued in front of the first line"
                             % (name, proc.name.split("::")[-1]), reg.loc(sorted(reads)[0])))
        if ok:
            exempt |= cl
        elif cl:
            problems.append((("buffer-reset", l), "line buffer not reset on every path",
                             "the read buffer `%s` can reach the next read without being cleared: the bytes of one line are glued in front "
                             "of the next" % name, reg.loc(sorted(reads)[0])))
            exempt |= cl
    return exempt, buffers, problems
