"""The per-line loop of the reader (E1): found by role, not by name.

* the *line loop* = the natural loop (in any crate body) that contains the call to the
  public `get_message`, or — if that call sits in a helper without a loop — the loop that
  contains the call to that helper (one level of helper extraction is tolerated);
* gates = the `Some` edges of the results of get_message / get_downlink_format / get_icao;
* effect sites = calls inside the region whose callee (transitively) mutates the table,
  a row, or the counters.
"""
from .cfg import CFG
from .facts import Broken, callee_name, span_loc
from .mirq import DefUse, operand_place
from .inline import inline_call

GATE_FNS = ["get_message", "get_downlink_format", "get_icao"]


class GateBypassed(Broken):
    """the reader does not call the analysed line gate `get_message` at all (it accepts lines some other way)"""


def _calls_to(body, suffix):
    out = []
    for bb, t in body.calls():
        n = callee_name(t) or ""
        if n == suffix or n.endswith("::" + suffix):
            out.append((bb, t))
    return out


def _reach_names(facts, start):
    """names of all functions transitively called from body `start` (crate-local bodies are followed)"""
    seen, st = set(), [start]
    while st:
        n = st.pop()
        b = facts.bodies.get(n)
        if b is None:
            continue
        for _, t in b.calls():
            c = callee_name(t)
            if c and c not in seen:
                seen.add(c)
                st.append(c)
    return seen


class Region:
    def __init__(self, facts, effects):
        self.facts = facts
        self.eff = effects
        holders = []
        for b in facts.bodies.values():
            if b.kind == "promoted":
                continue
            if "::tests::" in b.name:
                continue
            if _calls_to(b, "get_message"):
                holders.append(b)
        holders = [b for b in holders if not b.name.endswith("get_message")]
        if not holders:
            raise GateBypassed("line-loop anchor: get_message is called from 0 bodies: the reader accepts lines without the public gate")
        if len(holders) != 1:
            raise Broken("line-loop anchor: get_message is called from %d bodies (%s)" % (len(holders), [b.name for b in holders]))
        cur = holders[0]
        self.inlined = []
        # climb to the body whose loop contains the (inlined) call of get_message
        for depth in range(5):
            cfg = CFG(cur)
            gm = [bb for bb, _ in _calls_to(cur, "get_message")]
            if len(gm) != 1:
                raise Broken("line-loop anchor: %d calls to get_message in %s" % (len(gm), cur.name))
            inside = [(h, blks) for h, blks in cfg.loops().items() if gm[0] in blks]
            if inside:
                break
            callers = []
            for b in facts.bodies.values():
                if b.kind == "promoted" or "::tests::" in b.name:
                    continue
                for bb, t in b.calls():
                    if callee_name(t) == cur.name:
                        callers.append((b, bb))
            if len(callers) != 1:
                raise Broken("line-loop anchor: helper %s has %d call sites" % (cur.name, len(callers)))
            lb, cbb = callers[0]
            self.inlined.append(cur.name)
            cur = inline_call(lb, cbb, cur)
        else:
            raise Broken("line-loop anchor: no loop around the per-line processing")
        # the other gates may sit in helpers called from the loop: inline those too
        for g in GATE_FNS[1:]:
            for depth in range(4):
                cfg = CFG(cur)
                gm = [bb for bb, _ in _calls_to(cur, "get_message")][0]
                h, blks = min([(h, blks) for h, blks in cfg.loops().items() if gm in blks], key=lambda x: len(x[1]))
                if [bb for bb, _ in _calls_to(cur, g) if bb in blks]:
                    break
                cands = []
                for bb in sorted(blks):
                    t = cur.blocks[bb]["term"]
                    if t["k"] != "call" or not t["callee"].get("local"):
                        continue
                    cb = facts.bodies.get(callee_name(t))
                    if cb is None or cb.name.split("::")[-1] in GATE_FNS:
                        continue
                    reachb = facts.reachable_from(cb.name) if hasattr(facts, "reachable_from") else _reach_names(facts, cb.name)
                    if any(n == g or n.endswith("::" + g) for n in reachb):
                        cands.append((bb, cb))
                if len(cands) != 1:
                    break
                self.inlined.append(cands[0][1].name)
                cur = inline_call(cur, cands[0][0], cands[0][1])
        self._finish(cur)
        # helpers that fetch the next line from the input (`fn next_line(&mut reader, &mut buf) -> bool`) belong to the loop
        READ = ("std::io::BufRead::read_until", "std::io::Read::read", "std::io::BufRead::skip_until", "std::io::BufRead::read_line")
        self.inline_calls(lambda b: any(n in READ for n in _reach_names(self.facts, b.name)) and not self.eff.of(b.name), max_n=2)

    def inline_calls_with_arg(self, field, max_n=4):
        """inline calls in the region that are handed (a reference to) Args.<field>"""
        from .mirq import expr, show
        for _ in range(max_n):
            cand = None
            for bb in sorted(self.blocks):
                t = self.proc.blocks[bb]["term"]
                if t["k"] != "call" or not t["callee"].get("local"):
                    continue
                cb = self.facts.bodies.get(callee_name(t))
                if cb is None or cb.name.split("::")[-1] in GATE_FNS or cb.name == self.proc.name or cb.kind == "closure":
                    continue
                for a in t["args"]:
                    e = expr(self.du, a)
                    if e[0] == "arg" and e[2] and e[2][-1] == field:
                        cand = (bb, cb)
                if cand:
                    break
            if cand is None:
                return self
            self.inlined.append(cand[1].name)
            self._finish(inline_call(self.proc, cand[0], cand[1]))
        return self

    def inline_calls(self, pred, max_n=4):
        """inline (in place) calls inside the per-line region to crate-local helpers whose body satisfies `pred`
        (e.g. "reads Args.filter"): the rule that asks for it then sees one control-flow graph"""
        for _ in range(max_n):
            cand = None
            for bb in sorted(self.blocks):
                t = self.proc.blocks[bb]["term"]
                if t["k"] != "call" or not t["callee"].get("local"):
                    continue
                cb = self.facts.bodies.get(callee_name(t))
                if cb is None or cb.name.split("::")[-1] in GATE_FNS or cb.name == self.proc.name:
                    continue
                if pred(cb):
                    cand = (bb, cb)
                    break
            if cand is None:
                return self
            self.inlined.append(cand[1].name)
            self._finish(inline_call(self.proc, cand[0], cand[1]))
        return self

    def _finish(self, cur):
        self.proc = cur
        self.cfg = CFG(self.proc)
        gm_bb = _calls_to(self.proc, "get_message")[0][0]
        loops = self.cfg.loops()
        inside = [(h, blks) for h, blks in loops.items() if gm_bb in blks]
        h, blks = min(inside, key=lambda x: len(x[1]))
        self.helper = None
        self.loop_body = self.proc
        self.loop_cfg = self.cfg
        self.header = h
        self.blocks = set(blks)
        self.entry = h
        self.loop_blocks = self.blocks
        self.du = DefUse(self.proc)

    # -- region graph: successors inside the region, back edges to the header cut
    def rsucc(self, bb, cut=()):
        out = []
        for s in self.cfg.succ[bb]:
            if s not in self.blocks:
                continue
            if self.helper is None and s == self.header:
                continue  # back edge
            if (bb, s) in cut:
                continue
            out.append(s)
        return out

    def reach(self, start=None, cut=(), avoid=()):
        start = self.entry if start is None else start
        avoid = set(avoid)
        if start in avoid:
            return set()
        seen = {start}
        st = [start]
        while st:
            x = st.pop()
            if x in avoid:
                continue
            for s in self.rsucc(x, cut):
                if s not in seen:
                    seen.add(s)
                    st.append(s)
        return seen

    # -- gates
    def some_edge_of_call(self, call_bb):
        """edges (switch_bb -> target) taken when the Option/Result returned by the call at call_bb is Some/Ok"""
        t = self.proc.blocks[call_bb]["term"]
        dest = t["dest"]["local"]
        return self.some_edges_of_local(dest, 1)

    def some_edges_of_local(self, dest, some_val):
        edges = []
        # `call()?` : the result is handed to Try::branch, whose Continue (variant 0) arm is the Some/Ok edge
        for bi in self.blocks:
            tt = self.proc.blocks[bi]["term"]
            if tt["k"] == "call" and tt["callee"].get("name") == "branch" and tt["args"]:
                pl = operand_place(tt["args"][0])
                if pl and pl["local"] == dest and not pl["proj"] and not tt["dest"]["proj"]:
                    edges.extend(self.some_edges_of_local(tt["dest"]["local"], 0))
        for bi in self.blocks:
            blk = self.proc.blocks[bi]
            dl = None
            for s in blk["stmts"]:
                if s["k"] == "assign" and s["rv"]["k"] == "discr" and s["rv"]["place"]["local"] == dest and not s["rv"]["place"]["proj"]:
                    dl = s["place"]["local"]
            tt = blk["term"]
            if dl is not None and tt["k"] == "switch":
                pl = operand_place(tt["discr"])
                if pl and pl["local"] == dl:
                    some_t = None
                    for v, b in tt["targets"]:
                        if int(v) == some_val:
                            some_t = b
                    if some_t is None:
                        # `switch [0: none] otherwise some`
                        vals = [int(v) for v, _ in tt["targets"]]
                        if vals == [1 - some_val]:
                            some_t = tt["otherwise"]
                    if some_t is not None:
                        edges.append((bi, some_t, tt))
        return edges

    def gates(self):
        """name -> (call bb, [(switch bb, some target)])"""
        out = {}
        for g in GATE_FNS:
            cs = [(bb, t) for bb, t in _calls_to(self.proc, g) if bb in self.blocks]
            if len(cs) != 1:
                raise Broken("gate anchor: %d calls to %s in the per-line region" % (len(cs), g))
            bb = cs[0][0]
            edges = self.some_edge_of_call(bb)
            if not edges:
                raise Broken("gate anchor: no Some/None decision on the result of %s" % g)
            out[g] = (bb, [(a, b) for a, b, _ in edges])
        return out

    def dominated_by_gate(self, site_bb, gate):
        """True iff every path from the region entry to site_bb takes a Some-edge of the gate."""
        call_bb, edges = gate
        sw_blocks = {a for a, _ in edges}
        # cut all non-Some out-edges of the gate's switches, then the site must be reachable;
        # and with the Some edges cut instead, it must be unreachable.
        cut = set(edges)
        r = self.reach(cut=cut)
        return site_bb not in r

    def effect_sites(self):
        out = []
        for bi in sorted(self.blocks):
            t = self.proc.blocks[bi]["term"]
            if t["k"] != "call":
                continue
            e = self.eff.of_call(t)
            if e:
                out.append((bi, t, e))
        return out

    def state_effects(self, e, counters=True):
        """the part of an effect set that touches the table, a row, or (optionally) the counters; fields that only
        drive the display clock (effects.display_only_fields) are not state"""
        if not hasattr(self, "_display_only"):
            from .effects import display_only_fields
            self._display_only = display_only_fields(self.facts, self.eff, "AppCounters")
        adts = ("Plane", "Planes", "AppCounters") if counters else ("Plane", "Planes")
        return [x for x in e if x[0] in ("table", "btree") or (
            x[0] == "field" and x[1].split("::")[-1] in adts and not (x[1].split("::")[-1] == "AppCounters" and x[2] in self._display_only))]

    def loc(self, bb):
        return span_loc(self.proc.blocks[bb]["term"].get("span"))
