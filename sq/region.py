"""The per-line loop of the reader (E1): found by role, not by name.

* the *line loop* = the natural loop (in any crate body) that contains the call to the
  public `get_message`, or — if that call sits in a helper without a loop — the loop that
  contains the call to that helper (one level of helper extraction is tolerated);
* gates = the `Some` edges of the results of get_message / get_downlink_format / get_icao;
* effect sites = calls inside the region whose callee (transitively) mutates the table,
  a row, or the counters.
"""
from .cfg import CFG
from .facts import Broken, callee_name, span_loc
from .mirq import DefUse, operand_place

GATE_FNS = ["get_message", "get_downlink_format", "get_icao"]


def _calls_to(body, suffix):
    out = []
    for bb, t in body.calls():
        n = callee_name(t) or ""
        if n == suffix or n.endswith("::" + suffix):
            out.append((bb, t))
    return out


class Region:
    def __init__(self, facts, effects):
        self.facts = facts
        self.eff = effects
        holders = []
        for b in facts.bodies.values():
            if b.kind == "promoted":
                continue
            if "::tests::" in b.name:
                continue
            if _calls_to(b, "get_message"):
                holders.append(b)
        holders = [b for b in holders if not b.name.endswith("get_message")]
        if len(holders) != 1:
            raise Broken("line-loop anchor: get_message is called from %d bodies (%s)" % (len(holders), [b.name for b in holders]))
        self.proc = holders[0]
        self.cfg = CFG(self.proc)
        gm_bb = _calls_to(self.proc, "get_message")[0][0]
        loops = self.cfg.loops()
        inside = [(h, blks) for h, blks in loops.items() if gm_bb in blks]
        self.helper = None
        if inside:
            # innermost loop containing the call
            h, blks = min(inside, key=lambda x: len(x[1]))
            self.loop_body = self.proc
            self.loop_cfg = self.cfg
            self.header = h
            self.blocks = set(blks)
            self.entry = h
        else:
            # helper extraction: the whole body is the per-line region; the loop is in its caller
            callers = []
            for b in facts.bodies.values():
                if b.kind == "promoted":
                    continue
                for bb, t in b.calls():
                    if callee_name(t) == self.proc.name:
                        callers.append((b, bb))
            if len(callers) != 1:
                raise Broken("line-loop anchor: helper %s has %d call sites" % (self.proc.name, len(callers)))
            lb, cbb = callers[0]
            lcfg = CFG(lb)
            ins = [(h, blks) for h, blks in lcfg.loops().items() if cbb in blks]
            if not ins:
                raise Broken("line-loop anchor: no loop around the per-line processing")
            h, blks = min(ins, key=lambda x: len(x[1]))
            self.helper = self.proc
            self.loop_body = lb
            self.loop_cfg = lcfg
            self.header = h
            self.blocks = set(self.cfg.reach)  # region = whole helper body
            self.loop_blocks = set(blks)
            self.entry = 0
        if self.helper is None:
            self.loop_blocks = self.blocks
        self.du = DefUse(self.proc)

    # -- region graph: successors inside the region, back edges to the header cut
    def rsucc(self, bb, cut=()):
        out = []
        for s in self.cfg.succ[bb]:
            if s not in self.blocks:
                continue
            if self.helper is None and s == self.header:
                continue  # back edge
            if (bb, s) in cut:
                continue
            out.append(s)
        return out

    def reach(self, start=None, cut=(), avoid=()):
        start = self.entry if start is None else start
        avoid = set(avoid)
        if start in avoid:
            return set()
        seen = {start}
        st = [start]
        while st:
            x = st.pop()
            if x in avoid:
                continue
            for s in self.rsucc(x, cut):
                if s not in seen:
                    seen.add(s)
                    st.append(s)
        return seen

    # -- gates
    def some_edge_of_call(self, call_bb):
        """edges (switch_bb -> target) taken when the Option/Result returned by the call at call_bb is Some/Ok"""
        t = self.proc.blocks[call_bb]["term"]
        dest = t["dest"]["local"]
        edges = []
        for bi in self.blocks:
            blk = self.proc.blocks[bi]
            dl = None
            for s in blk["stmts"]:
                if s["k"] == "assign" and s["rv"]["k"] == "discr" and s["rv"]["place"]["local"] == dest and not s["rv"]["place"]["proj"]:
                    dl = s["place"]["local"]
            tt = blk["term"]
            if dl is not None and tt["k"] == "switch":
                pl = operand_place(tt["discr"])
                if pl and pl["local"] == dl:
                    some_t = None
                    for v, b in tt["targets"]:
                        if int(v) == 1:
                            some_t = b
                    if some_t is None:
                        # `switch [0: none] otherwise some`
                        vals = [int(v) for v, _ in tt["targets"]]
                        if vals == [0]:
                            some_t = tt["otherwise"]
                    if some_t is not None:
                        edges.append((bi, some_t, tt))
        return edges

    def gates(self):
        """name -> (call bb, [(switch bb, some target)])"""
        out = {}
        for g in GATE_FNS:
            cs = [(bb, t) for bb, t in _calls_to(self.proc, g) if bb in self.blocks]
            if len(cs) != 1:
                raise Broken("gate anchor: %d calls to %s in the per-line region" % (len(cs), g))
            bb = cs[0][0]
            edges = self.some_edge_of_call(bb)
            if not edges:
                raise Broken("gate anchor: no Some/None decision on the result of %s" % g)
            out[g] = (bb, [(a, b) for a, b, _ in edges])
        return out

    def dominated_by_gate(self, site_bb, gate):
        """True iff every path from the region entry to site_bb takes a Some-edge of the gate."""
        call_bb, edges = gate
        sw_blocks = {a for a, _ in edges}
        # cut all non-Some out-edges of the gate's switches, then the site must be reachable;
        # and with the Some edges cut instead, it must be unreachable.
        cut = set(edges)
        r = self.reach(cut=cut)
        return site_bb not in r

    def effect_sites(self):
        out = []
        for bi in sorted(self.blocks):
            t = self.proc.blocks[bi]["term"]
            if t["k"] != "call":
                continue
            e = self.eff.of_call(t)
            if e:
                out.append((bi, t, e))
        return out

    def loc(self, bb):
        return span_loc(self.proc.blocks[bb]["term"].get("span"))
