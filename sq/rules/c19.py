"""C19 — presentation options never change what is decoded; -U is decode-neutral.

R19.1 option non-interference [proof, structural]: the presentation/logging options (-i -o -c -u -M -D -l, --format) are
      read only outside the code that updates the table; no argument of a table-updating call and no branch that decides
      whether such a call runs is computed from them (one whitelisted exception: the `?` on the -D log write, an I/O failure);
R19.2 -O only feeds the distance column [proof]: the observer coordinates flow into the distance_from_observer store and
      nothing else (data and control), in every context; they are set only from main;
R19.3 -U neutrality [proof per step]: for every DF4/5/11/17 context the values stored for callsign, altitude, squawk, CPR
      slots, position, ground speed, track, vertical rate, category and surveillance status are structurally identical on
      the two update paths whenever the frame carries a valid value.
"""
from ..absint.batch import k2_results
from ..absint.domain import EnumV
from ..absint.query import accepted, ctl_other_deps, other_deps, sel, stores_of, summary
from ..cfg import call_graph, reachable_bodies
from ..effects import Effects
from ..facts import Broken, callee_name, span_loc
from ..mirq import DefUse, controlling_decisions, expr, field_reads, show
from ..region import Region
from ..report import Finding

LEVEL = "other"

PRESENTATION = {"display_info", "order_by", "count_df", "update", "log_messages", "downlink_log", "error_log", "format"}
NEUTRAL_FIELDS = ["ais", "altitude", "squawk", "cpr_lat", "cpr_lon", "lat", "lon", "grspeed", "track", "vrate", "category", "surveillance_status"]


def _walk(e):
    if isinstance(e, tuple):
        if e and isinstance(e[0], str):
            yield e
        for x in e:
            if isinstance(x, tuple):
                for y in _walk(x):
                    yield y


def pres_reads(e):
    out = set()
    for x in _walk(e):
        if x[0] in ("arg", "capture") and x[2]:
            for p in x[2]:
                if p in PRESENTATION:
                    out.add(p)
    return out


def run(facts, rep, tier):
    rep.explanation = (
        "R19.1/R19.2 are structural: inventory of every read of an `Args` field over the resolved MIR, reachability from the "
        "table-updating calls, def-use expression trees of their arguments and of the branch conditions that control them; "
        "observer-coordinate labels propagated by E2 through every context. R19.3 compares, context by context, the abstract "
        "values the two sibling update paths store."
    )
    rep.trusted = ["rustc MIR", "E2 transfer functions", "option classification table in sq/rules/c19.py (from the property)"]
    rep.rule("R19.1", "presentation options are not read by, passed to, or in control of table updates", "P")
    rep.rule("R19.2", "observer coordinates reach only the distance column", "P")
    rep.rule("R19.3", "-U on/off store the same values for DF4/5/11/17", "P")
    rep.rule("R19.5", "both update paths receive the same inputs: this line's digits and the frame decoded from them alone", "P")
    rep.rule("R19.4", "state written by the presentation path (display clock) never feeds table updates or expiry", "P")
    eff = Effects(facts)
    reg = Region(facts, eff)
    cg = call_graph(facts)
    # table-effect call sites of the region
    sites = [(bi, t, e) for bi, t, e in reg.effect_sites() if Effects.has_table(e) or Effects.fields(e, "Plane")]
    if len(sites) < 2:
        raise Broken("C19 anchor: table-updating calls not found in the per-line region")
    roots = [callee_name(t) for _, t, _ in sites]
    reach = reachable_bodies(facts, roots, cg)
    reads = field_reads(facts, "Args")
    n = 0
    inv = {}
    for r in reads:
        inv.setdefault(r["field"], set()).add(r["body"].name)
        n += 1
        if r["field"] in PRESENTATION and r["body"].name in reach:
            rep.oblige(False, ("read", r["field"], r["body"].name))
            rep.add(Finding("R19.1", "%s reads presentation option %s" % (r["body"].name, r["field"]),
                            "option `%s` is read inside code that updates the table (%s)" % (r["field"], r["body"].name),
                            span_loc(r["node"].get("span"))))
        else:
            rep.oblige(True, ("read", r["field"], r["body"].name))
    rep.extra["args_reads"] = {k: sorted(v) for k, v in sorted(inv.items())}
    # arguments and controlling branches of the table-updating calls
    for bi, t, e in sites:
        for a in t["args"]:
            ex = expr(reg.du, a)
            bad = pres_reads(ex)
            if bad and ex[0] == "call" and ex[1] in facts.bodies:
                # a struct built by a crate constructor from an option (AppCounters from -u): field-sensitive check —
                # the callee must not read any field that was initialised from a presentation option
                bad = _tainted_fields_read(facts, ex[1], callee_name(t), cg) if _struct_of(facts, ex[1]) else bad
            n += 1
            rep.oblige(not bad, ("arg", callee_name(t)))
            if bad:
                rep.add(Finding("R19.1", "%s receives a value computed from %s" % (callee_name(t), ",".join(sorted(bad))),
                                "an argument of %s is derived from presentation option(s) %s: %s" % (callee_name(t), sorted(bad), show(ex)[:160]),
                                reg.loc(bi)))
        for s, vals, live in controlling_decisions(reg.proc, reg.cfg, bi):
            if s not in reg.blocks:
                continue
            ex = expr(reg.du, reg.proc.blocks[s]["term"]["discr"])
            bad = pres_reads(ex)
            n += 1
            if bad:
                # whitelisted: `?` on the io::Result of the -D log write
                calls = [x for x in _walk(ex) if x[0] == "call"]
                io_try = any(c[1].endswith("Try>::branch") or c[1].endswith("::branch") for c in calls) and \
                    any(c[1] in facts.bodies and "io::Error" in facts.bodies[c[1]].locals[0]["ty"]["s"] for c in calls)
                if io_try:
                    rep.oblige(True, ("ctl-io", callee_name(t)))
                    rep.sample({"rule": "R19.1", "whitelisted": "`?` on the -D log write controls %s (I/O failure only)" % callee_name(t)})
                    continue
                rep.oblige(False, ("ctl", callee_name(t), s))
                rep.add(Finding("R19.1", "%s runs depending on %s" % (callee_name(t), ",".join(sorted(bad))),
                                "whether %s runs depends on presentation option(s) %s: %s" % (callee_name(t), sorted(bad), show(ex)[:160]),
                                reg.loc(s)))
            else:
                rep.oblige(True, ("ctl", callee_name(t), s))
    # R19.5: R19.3 compares the two paths on (message, DF::from_message(message)); the reader must hand the updater exactly
    # that - a decoded frame that carries anything from earlier lines is seen by the default path only
    from ..lineexpr import df_of_line, downlink_of_line, icao_of_line, message_of_line
    from ..mirq import expr as _expr, show as _show
    ups = [(bi, t) for bi, t, e in reg.effect_sites() if Effects.has_table(e) and callee_name(t) in facts.bodies
           and any(tt["callee"].get("name") == "entry" for _, tt in facts.bodies[callee_name(t)].calls())]
    n5 = 0
    for bi, t in ups:
        for a in t["args"]:
            e = _expr(reg.du, a)
            n5 += 1
            ok = e[0] in ("arg", "const") or icao_of_line(e) or df_of_line(e) or message_of_line(e) or downlink_of_line(e)
            rep.oblige(ok, ("updater-input", bi))
            if not ok:
                rep.add(Finding("R19.5", "updater input not derived from the current line alone",
                                "%s receives %s: the two update paths are only comparable when both get this line's digits and "
                                "DF::from_message of exactly those digits" % (callee_name(t), _show(e)[:120]), reg.loc(bi)))
    rep.instances("R19.5", n5, floor=4, what="arguments of the table updater in the per-line region")
    # R19.4: counters fields written by code that prints (display_planes -> reset_timestamp) or initialised from -u are
    # presentation state; each must be display-only (effects.display_only_fields: read only by pure predicates whose result
    # controls nothing but output) - otherwise -i/-u leak into the table through shared state
    from ..effects import display_only_fields
    donly = display_only_fields(facts, eff, "AppCounters")
    def _pure_presentation(e):
        # prints, and touches neither the table nor a row (fields of the counters or of a session struct holding them are what
        # this rule is about)
        return ("stdout",) in e and all(x[0] in ("stdout", "iowrite") or (x[0] == "field" and x[1].split("::")[-1] not in ("Plane", "Planes")) for x in e)
    printers = [nm for nm in eff.trans if _pure_presentation(eff.of(nm))]
    pres_written = set()
    for nm in printers:
        if "::tests::" in nm:
            continue
        for x in eff.of(nm):
            if x[0] == "field" and x[1].split("::")[-1] == "AppCounters":
                pres_written.add(x[2])
    n4 = 0
    for f in sorted(pres_written):
        n4 += 1
        ok = f in donly
        rep.oblige(ok, ("display-state", f))
        if not ok:
            rep.add(Finding("R19.4", "AppCounters.%s written by the display path and read by table code" % f,
                            "AppCounters.%s is updated when the table is drawn (so it depends on -i Q / -u) and is read outside pure "
                            "display predicates: presentation options change what happens to the table through this field" % f, None))
    rep.sample({"rule": "R19.4", "presentation_written": sorted(pres_written), "display_only": sorted(donly)})
    rep.instances("R19.4", n4, floor=1, what="counters fields written on the display path")
    rep.instances("R19.1", n, floor=20, what="Args field reads + arguments/controlling branches of table-updating calls")

    # ---- R19.2
    setters = []
    getters = []
    for nm, b in list(facts.bodies.items()) + list(facts.bin_bodies.items()):
        if b.kind == "promoted":
            continue
        for bb, t in b.calls():
            cn = callee_name(t) or ""
            if cn.endswith("set_observer_coords_from_str"):
                setters.append(nm)
            if cn.endswith("get_observer_coords"):
                getters.append(nm)
    ok = setters == ["main"]
    if not ok and setters:
        # a set-up helper of the binary called by main before the reader thread exists does the same
        from ..cfg import CFG as _CFG
        mainb = facts.bin_bodies.get("main")
        ok = mainb is not None
        if ok:
            mcfg = _CFG(mainb)
            spawn = [bb for bb, t in mainb.calls() if (callee_name(t) or "").endswith("spawn_reader_thread")]
            ok = len(spawn) == 1
            for nm in setters:
                if nm == "main":
                    sites_ = [bb for bb, t in mainb.calls() if (callee_name(t) or "").endswith("set_observer_coords_from_str")]
                elif nm in facts.bin_bodies:
                    sites_ = [bb for bb, t in mainb.calls() if callee_name(t) == nm]
                else:
                    sites_ = []
                if not sites_ or not ok or not all(mcfg.dominates(bb, spawn[0]) for bb in sites_):
                    ok = False
    rep.oblige(ok, ("observer-set",))
    if not ok:
        rep.add(Finding("R19.2", "observer coordinates set from %s" % setters, "the observer position is set outside main: %s" % setters, None))
    ok = len(getters) == 1
    rep.oblige(ok, ("observer-get",))
    if not ok:
        rep.add(Finding("R19.2", "observer coordinates read in %d places" % len(getters), "the observer position is read in %s" % getters, None))
    out = k2_results(facts, tier)
    results = out["results"]
    n2 = 0
    for r in results:
        if not accepted(r):
            continue
        for path, v, pc, ctl in r.stores:
            f = path[0][1]
            od = {d for d in other_deps(v) if isinstance(d, tuple) and d and d[0] == "observer"}
            cd = {d for d in ctl if isinstance(d, tuple) and d and d[0] == "observer"} | \
                {d for d in ctl_other_deps(v) if isinstance(d, tuple) and d and d[0] == "observer"}
            if od or cd:
                n2 += 1
                ok = f == "distance_from_observer"
                rep.oblige(ok, ("obs", r.ctx["label"], f))
                if not ok:
                    rep.add(Finding("R19.2", "%s depends on the observer position" % f,
                                    "context '%s': the value stored to %s depends on -O (%s)" % (r.ctx["label"], f, "data" if od else "control"), None))
    rep.instances("R19.2", n2 + 2, floor=10, what="stores depending on the observer position")

    # ---- R19.3
    groups = {}
    for r in results:
        if not accepted(r) or r.df not in (4, 5, 11, 17) or r.post_update is None:
            continue
        if r.df == 17 and "G" in r.ctx["tags"]:
            continue   # type code symbolic: decided per type code in the T/A/V families
        key = r.ctx["label"].rsplit(" U", 1)[0]
        groups.setdefault(key, {})[bool(r.ctx.get("U"))] = r
    n3 = 0
    for key, d in sorted(groups.items()):
        if True not in d or False not in d:
            continue
        ru, rd = d[True], d[False]
        for f in NEUTRAL_FIELDS:
            su, sd = stores_of(ru, f), stores_of(rd, f)
            vu = su[-1][1] if su else None
            vd = sd[-1][1] if sd else None
            n3 += 1
            if vu is None and vd is None:
                rep.oblige(True, ("U", key, f))
                continue
            pu, pd = _valid_payload(vu), _valid_payload(vd)
            if (vu is None) != (vd is None):
                # one path writes, the other does not: acceptable only if the writing path can only write "no value"
                w = vu if vu is not None else vd
                ok = isinstance(w, EnumV) and w.only("None") and f not in ("altitude",)
                ok = ok or (isinstance(w, EnumV) and w.only("None"))
                rep.oblige(ok, ("U", key, f))
                if not ok:
                    rep.add(Finding("R19.3", "%s written only %s -U: %s" % (f, "with" if vu is not None else "without", key.split(" U")[0]),
                                    "context '%s': %s is stored (%r) only %s -U" % (key, f, w, "with" if vu is not None else "without"), None))
                continue
            ok = summary(pu) == summary(pd)
            rep.oblige(ok, ("U", key, f))
            if ok:
                # ... and under the same conditions on what the row held before (a pairing guard that looks at a different
                # generation of the row's state on one path makes the two option sets diverge on some history)
                cu, cd_ = _row_conditions(ru, f), _row_conditions(rd, f)
                okc = cu == cd_
                rep.oblige(okc, ("U-cond", key, f))
                if not okc:
                    only_u = sorted(cu - cd_)[:3]
                    only_d = sorted(cd_ - cu)[:3]
                    rep.add(Finding("R19.3", "%s stored under different row conditions with/without -U: %s" % (f, key),
                                    "context '%s': the store to %s depends on the row's previous contents differently: only with -U %s; only "
                                    "without -U %s - some history of valid frames gives different tables" % (key, f, only_u, only_d), None))
            if n3 % 97 == 0:
                rep.sample({"rule": "R19.3", "context": key, "field": f, "with_U": repr(pu)[:120], "without_U": repr(pd)[:120]})
            if not ok:
                rep.add(Finding("R19.3", "%s differs with/without -U: %s" % (f, key),
                                "context '%s': with -U %s := %r, without -U %s := %r" % (key, f, vu, f, vd), None))
    rep.instances("R19.3", n3, floor=300, what="(context pair, field) comparisons")
    rep.assumptions += ["R19.3 compares valid carried values (the Some payloads); when a frame carries no valid value the default path keeps, the -U path blanks (allowed by C11)"]


def _row_conditions(r, f):
    """what the last store to field f depends on in the row's previous contents: path-condition atoms over pre-state terms
    and control dependences on pre-state fields"""
    from ..absint.domain import show_term
    last = None
    for path, v, pc, ctl in r.stores:
        if path and path[0][1] == f:
            last = (pc, ctl)
    if last is None:
        return frozenset()
    pc, ctl = last
    out = set()
    for t, tr in pc:
        s_ = show_term(t)
        if "pre(" in s_ and "ctl(" not in s_:        # (terms that merely list dependences are covered by the `depends on` entries)
            out.add("%s is %s" % (s_[:120], tr))
    for d in ctl or ():
        if isinstance(d, tuple) and d and d[0] == "pre":
            out.add("depends on %s" % (d[1],))
    return frozenset(out)


def _struct_of(facts, ctor):
    from ..mirq import adt_aggregates
    ret = facts.bodies[ctor].locals[0]["ty"]
    return ret.get("path") if ret.get("k") == "adt" and ret.get("path") in facts.adts else None


def _tainted_fields_read(facts, ctor, callee, cg):
    """fields of the struct returned by `ctor` that are initialised from presentation options AND read (transitively) by `callee`"""
    from ..mirq import adt_aggregates
    adt = _struct_of(facts, ctor)
    short = adt.split("::")[-1]
    tainted = set()
    for ag in adt_aggregates(facts, short):
        if ag["body"].name != ctor:
            continue
        du = DefUse(ag["body"])
        rv = ag["stmt"]["rv"]
        for fname, o in zip(rv["fields"], rv["ops"]):
            if pres_reads(expr(du, o)):
                tainted.add(fname)
    reach = reachable_bodies(facts, [callee], cg)
    read = {r["field"] for r in field_reads(facts, short) if r["body"].name in reach}
    return {"%s.%s" % (short, f) for f in (tainted & read)}


def _valid_payload(v):
    if isinstance(v, EnumV):
        if v.may("Some"):
            return v.payload("Some")
        return None
    return v
