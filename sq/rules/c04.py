"""C04 — squitters with failing parity never change the table.

R04.1 [exact detector] the accept decision of the line gate depends on every bit of a DF17/DF18 frame and, for DF11, on bits
      1-49 but not on the 7 interrogator-code bits 50-56 (dependency sets over-approximate real dependence, so a missing bit
      is a definite violation: a single-bit error there cannot be rejected); for every other DF the decision does not depend
      on the payload at all (address/parity formats cannot be checked);
R04.2 [proof] every table/counter effect of the per-line loop is dominated by the gate's accept edge (shared with C02/C13);
R04.3 [proof] the tested quantity is the Mode S CRC-24 syndrome: each of its 24 bits is the XOR-set given by polynomial
      division by 0x1FFF409 of the 88 (32) data bits, XOR the PI field; masked to the upper 17 bits for DF11; compared with 0.
"""
from ..absint.batch import k2_results
from ..absint.domain import BoolV, EnumV, IntV
from ..absint.query import sel
from ..effects import Effects
from ..facts import Broken, callee_name
from ..ref.crc import bit_as_set, expected_bit
from ..region import GateBypassed, Region
from ..report import Finding

LEVEL = "other"


def _some_guard(r):
    """what held on the path(s) on which get_message returned Some (the gate may be spread over helpers: the facts travel with
    the variant guards of the Option / Result values handed up)"""
    g = r.gate
    if isinstance(g, EnumV) and g.may("Some") and g.may("None"):
        return g.variants["Some"][1] or {}
    return {}


def decision_deps(r):
    d = set()
    for p in r.gate_preds:
        if isinstance(p, BoolV) and p.val is None:
            d |= {x for x in p.deps if isinstance(x, int)}
            d |= {x[1] for x in p.deps if isinstance(x, tuple) and len(x) == 2 and x[0] == "ctl" and isinstance(x[1], int)}
    for x in _some_guard(r).get("deps", ()):
        if isinstance(x, int):
            d.add(x)
        elif isinstance(x, tuple) and len(x) == 2 and x[0] == "ctl" and isinstance(x[1], int):
            d.add(x[1])
    return d


def syndrome_of(r):
    """the IntV compared with 0 by the undecided gate predicate, if it has that shape"""
    for p in r.gate_preds:
        if isinstance(p, BoolV) and p.val is None and p.origin and p.origin[0] == "cmp" and p.origin[1] == "Eq":
            a, b = p.origin[2], p.origin[3]
            if isinstance(b, IntV) and b.is_const() and b.lo == 0 and isinstance(a, IntV):
                return a
            if isinstance(a, IntV) and a.is_const() and a.lo == 0 and isinstance(b, IntV):
                return b
    av = getattr(r, "atom_vals", {}) or {}
    for t, tr in _some_guard(r).get("pc", ()):
        from ..absint.domain import show_term
        if isinstance(t, tuple) and t and ((t[0] == "Eq" and tr) or (t[0] == "Ne" and not tr)) and show_term(t) in av:
            a, b = av[show_term(t)]
            if isinstance(b, IntV) and b.is_const() and b.lo == 0 and isinstance(a, IntV) and not a.is_const() and a.bits is not None:
                return a
            if isinstance(a, IntV) and a.is_const() and a.lo == 0 and isinstance(b, IntV) and not b.is_const() and b.bits is not None:
                return b
    return None


def run(facts, rep, tier):
    try:
        return _run(facts, rep, tier)
    except GateBypassed as e:
        _bypassed(facts, rep, e)


def _bypassed(facts, rep, e):
    """the reader thread never calls the analysed gate: what the proofs about get_message establish does not apply to it"""
    from ..cfg import call_graph, reachable_bodies
    roots = [b.name for b in facts.bodies.values() if b.kind == 'closure' and b.parent and b.parent.endswith('spawn_reader_thread')]
    reach = reachable_bodies(facts, roots, call_graph(facts)) if roots else set()
    parts = sorted(n.split('::')[-1] for n in reach if n.split('::')[-1] in ('clean_squitter', 'parity_ok', 'length_matches_format', 'get_frame', 'get_crc'))
    rep.rule('R04.2', 'effects dominated by the accept gates', 'P')
    rep.oblige(False, ('gate-bypassed',))
    rep.add(Finding('R04.2', 'the reader does not accept lines through get_message', 'frames reach the table without passing the parity check of get_message: the reader thread calls %s itself; the accept decision proven for get_message (digits, length, DF/length agreement, parity) is not the one that guards the table' % (parts or 'no part of the gate'), None))
    rep.instances('R04.2', 1, floor=1)


def _run(facts, rep, tier):
    rep.explanation = (
        "E2 abstract interpretation of get_message on a symbolic line for every DF: the predicates evaluated by the gate are "
        "collected; their dependency sets decide which frame bits can influence acceptance, and the compared value - kept "
        "as a vector of XOR-sets through the bit-serial CRC loop (guarded join) - is compared bit by bit with the "
        "independently computed CRC-24 syndrome. Equality of two GF(2)-linear maps on a basis is equality for all 2^112 frames."
    )
    rep.trusted = ["rustc MIR", "E2 XOR-linear domain and guarded join", "reference CRC-24 division sq/ref/crc.py"]
    rep.rule("R04.1", "accept decision depends on all of a squitter's bits (DF11: not on the low 7 PI bits); payload-independent otherwise", "N")
    rep.rule("R04.2", "effects dominated by the accept gates", "P")
    rep.rule("R04.3", "the tested value is CRC-24(data) xor PI (upper 17 bits for DF11), compared with zero", "P")
    out = k2_results(facts, tier)
    results = out["results"]
    G = [r for r in sel(results, "G") if r.ctx.get("via_line")]
    if len(G) < 40:
        raise Broken("C04: only %d gate contexts" % len(G))
    n1 = n3 = 0
    seen_df = set()
    for r in G:
        df = None
        for t in r.ctx["tags"]:
            if t.startswith("df"):
                df = int(t[2:])
        if df in seen_df:
            continue
        seen_df.add(df)
        n1 += 1
        L = r.ctx["L"]
        fixed = r.ctx["fixed"]
        deps = decision_deps(r)
        sym = set(range(1, 4 * L + 1)) - set(fixed)
        if df in (17, 18):
            missing = sorted(sym - deps)
            ok = not missing
            rep.oblige(ok, ("deps", df))
            if not ok:
                rep.add(Finding("R04.1", "DF%d accept decision ignores frame bits" % df,
                                "DF%d: acceptance does not depend on frame bits %s: errors there are never rejected"
                                % (df, _ranges(missing)), None, {"bits": missing}))
        elif df == 11:
            need = sym - set(range(50, 57))
            missing = sorted(need - deps)
            extra = sorted(deps & set(range(50, 57)))
            ok = not missing and not extra
            rep.oblige(ok, ("deps", df))
            if missing:
                rep.add(Finding("R04.1", "DF11 accept decision ignores frame bits", "DF11: acceptance does not depend on bits %s" % _ranges(missing), None))
            if extra:
                rep.add(Finding("R04.1", "DF11 accept decision depends on the interrogator-code bits",
                                "DF11: acceptance depends on PI bits %s, which carry the interrogator code (valid replies to an interrogator would be dropped)" % _ranges(extra), None))
        else:
            ok = not deps and isinstance(r.gate, EnumV) and r.gate.only("Some")
            rep.oblige(ok, ("deps", df))
            if not ok:
                rep.add(Finding("R04.1", "DF%d replies are filtered by payload" % df,
                                "DF%d (address/parity or other format): acceptance depends on payload bits %s / gate result %r"
                                % (df, _ranges(sorted(deps)), r.gate), None))
        # R04.3
        if df in (11, 17, 18):
            n3 += 1
            syn = syndrome_of(r)
            ok = syn is not None and syn.bits is not None
            why = "the gate does not compare a 24-bit syndrome with zero"
            if ok:
                nb = 4 * L
                for k in range(24):
                    got = bit_as_set(syn.bits[k])
                    if df == 11 and k < 7:
                        want = (set(), 0)
                    else:
                        want = expected_bit(k, nb, fixed)
                    if got is None or (got[0], got[1]) != (want[0], want[1]):
                        ok = False
                        why = "syndrome bit %d is %s, expected XOR of %d frame bits%s" % (
                            k, "not GF(2)-linear" if got is None else "XOR%s^%d" % (sorted(got[0])[:12], got[1]), len(want[0]), " ^1" if want[1] else "")
                        break
                if ok and any(b != 0 for b in syn.bits[24:]):
                    ok, why = False, "syndrome has bits above 24"
            rep.oblige(ok, ("syndrome", df))
            if n3 == 1 and ok:
                rep.sample({"rule": "R04.3", "df": df, "syndrome_bit0_xor_of": sorted(bit_as_set(syn.bits[0 if df != 11 else 7])[0])[:20]})
            if not ok:
                rep.add(Finding("R04.3", "DF%d parity test is not CRC-24 remainder == 0" % df, "DF%d: %s" % (df, why), None))
    rep.instances("R04.1", n1, floor=32, what="downlink formats through the line gate")
    rep.instances("R04.3", n3, floor=3)
    # R04.2
    eff = Effects(facts)
    reg = Region(facts, eff)
    gates = reg.gates()
    n2 = 0
    for bi, t, e in reg.effect_sites():
        st = [x for x in e if x[0] in ("table", "btree") or (x[0] == "field" and x[1].split("::")[-1] in ("Plane", "Planes"))]
        if not st:
            continue
        n2 += 1
        ok = reg.dominated_by_gate(bi, gates["get_message"])
        rep.oblige(ok, ("gate", callee_name(t)))
        if not ok:
            rep.add(Finding("R04.2", "%s not under the parity gate" % callee_name(t),
                            "%s can run for a line get_message rejects" % callee_name(t), reg.loc(bi)))
    rep.instances("R04.2", n2, floor=3)
    rep.extra["exhaustive"] = True
    rep.assumptions += ["'error patterns the CRC detects' are exactly those with a non-zero syndrome; the rule proves the syndrome is the standard one"]


def _ranges(bits):
    out = []
    s = sorted(bits)
    i = 0
    while i < len(s):
        j = i
        while j + 1 < len(s) and s[j + 1] == s[j] + 1:
            j += 1
        out.append("%d-%d" % (s[i], s[j]) if j > i else "%d" % s[i])
        i = j + 1
    return ",".join(out)
