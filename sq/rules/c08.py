"""C08 — airborne position is the correct global CPR decode or is left unchanged.

NOT decided (no sound static argument in reach): the numeric decode itself - j, m, NL use, accuracy within 20 m, hemisphere /
antimeridian wrapping - and the value of the great-circle distance: floating point over 2^34 field pairs.
Decided, each a genuine necessary condition of the property:

R08.1 commit discipline [proof of 'never displayed without a valid pair']: every store to lat / lon / distance / position
      time stamp happens only under: all four CPR slot fields non-zero, the time-window test, the decoder returning a
      position, and the range test lat in [-90,90], lon in [-180,180] (path-condition atoms of the store);
R08.2 the time window is |num_seconds(t_slot0 - t_slot1)| < 10;
R08.3 the slot of the current frame carries a receive time taken during THIS update (Utc::now), the other slot its old time;
R08.4 the slot index is the CPR format bit 54, the stored fields are bits 55-71 / 72-88;
R08.5 the NL table equals the closed form of DO-260B (58 boundaries), is strictly increasing and is used with `<`, default 1;
R08.6 a position is produced only if the two latitude zones agree (NL(lat0) == NL(lat1));
R08.8 the distance is stored under exactly the conditions of the position store (+ observer configured);
R08.9 slot coherence: cpr_lat[F], cpr_lon[F] and cpr_time[F] are written under one condition that does not depend on the row's
      previous contents (the time of a slot is the receive time of the fields in it);
R08.7 observer: distance = haversine(row lat, row lon, observer lat, observer lon) with R = 6371; 'lat,lon' parsed in order.
"""
import math

from ..absint.batch import k2_results
from ..absint.domain import Aff, IntV, OpaqueV, show_term
from ..absint.query import accepted, int_aff, sel, stores_of, term_find
from ..facts import Broken, callee_name, span_loc
from ..mirq import DefUse, adt_aggregates, expr, field_stores, iter_stmts, show
from ..report import Finding

LEVEL = "other"
POS_FIELDS = ("lat", "lon", "distance_from_observer", "position_timestamp")


def nl_boundary(nl):
    return (180.0 / math.pi) * math.acos(math.sqrt((1 - math.cos(math.pi / 30.0)) / (1 - math.cos(2 * math.pi / nl))))


_NEG = {"Ne": "Eq", "Eq": "Ne", "Lt": "Ge", "Ge": "Lt", "Gt": "Le", "Le": "Gt"}


def _zone_operands(facts, rep, nlf):
    """R08.6 (structural half): the zone test compares NL of the EVEN latitude with NL of the ODD latitude. E2's path condition
    only shows that two results of the NL function are compared; here the comparison itself is read: after resolving constant
    array indices, the two arguments of the NL function must be two different expressions, neither selected by a run-time
    index (`nl(rlat[0]) != nl(rlat[form])` compares a latitude with itself for one of the two formats)."""
    import re
    n = 0
    for b in facts.bodies.values():
        if b.kind == "promoted" or "::tests::" in b.name or not any(callee_name(t) == nlf.name for _, t in b.calls()):
            continue
        du = DefUse(b)

        def const_index(tok):
            m = re.fullmatch(r"\[_(\d+)\]", tok) if isinstance(tok, str) else None
            if m is None:
                return tok if isinstance(tok, int) else None
            r = du.root_place({"local": int(m.group(1)), "proj": []})
            if r[0] == "const" and isinstance(r[1], dict) and "int" in r[1]:
                return int(r[1]["int"])
            return None

        def resolve(e, depth=0):
            if not isinstance(e, tuple) or depth > 40:
                return e
            if e and e[0] == "path" and isinstance(e[1], tuple) and e[1][:2] == ("agg", "array") and e[2]:
                k = const_index(e[2][0])
                if k is not None and 0 <= k < len(e[1][2]):
                    inner = e[1][2][k]
                    return resolve(inner if len(e[2]) == 1 else ("path", inner, e[2][1:]), depth + 1)
                return ("select-at-run-time", tuple(resolve(x, depth + 1) for x in e[1][2]))
            return tuple(resolve(x, depth + 1) if isinstance(x, tuple) else x for x in e)

        from ..cfg import CFG
        cfg = CFG(b)
        for bi in sorted(cfg.reach):
            t = b.blocks[bi]["term"]
            if t["k"] != "switch":
                continue
            e = expr(du, t["discr"])
            if not (e[0] == "bin" and e[1] in ("Eq", "Ne")):
                continue
            l, r = resolve(e[2]), resolve(e[3])
            if not (l[0] == "call" and r[0] == "call" and l[1] == nlf.name and r[1] == nlf.name):
                continue
            n += 1
            la, ra = l[2][0], r[2][0]
            ok = "select-at-run-time" not in str(la) and "select-at-run-time" not in str(ra) and la != ra
            rep.oblige(ok, ("zone-operands", b.name, bi))
            if not ok:
                rep.add(Finding("R08.6", "%s : zone test does not compare the even with the odd latitude" % b.name,
                                "the two latitudes whose NL zones are compared are %s: for some format bit a latitude is compared with "
                                "itself and a zone-straddling pair is decoded" % ("the same expression" if la == ra else "picked by a run-time index"),
                                span_loc(t.get("span"))))
    rep.extra["zone_tests_read"] = n


def atoms(pc, head):
    """path-condition atoms with this comparison head; `x >= k is false` is reported as `x < k is true` etc."""
    out = []
    for t, tr in pc:
        if not (isinstance(t, tuple) and t):
            continue
        if t[0] == head:
            out.append((t, tr))
        elif _NEG.get(t[0]) == head and len(t) == 3:
            out.append(((head,) + tuple(t[1:]), not tr))
    return out


def run(facts, rep, tier):
    rep.explanation = (
        "Only necessary conditions are decided (see the module text for what is not). E2 records, for every store to the "
        "position fields, the path-condition atoms (symbolic terms of the branch conditions that dominate it); the rule "
        "requires the pairing guards among them. The CPR slot stores are exact (index = bit 54, affine values). The NL table "
        "is read from MIR constants and compared with the closed form. Observer handling is checked on def-use trees."
    )
    rep.trusted = ["rustc MIR", "E2 path-condition terms", "chrono model (signed_duration_since/num_seconds)", "DO-260B NL closed form (in the rule)"]
    for rid, txt, k in [("R08.1", "position stores only under the pairing / range guards", "P"), ("R08.2", "10 s window term", "P"),
                        ("R08.3", "slot time = receive time of this update", "P"), ("R08.4", "slot index = bit 54; fields 55-71 / 72-88", "P"),
                        ("R08.5", "NL table == closed form", "P"), ("R08.6", "zone equality guards the result", "N"), ("R08.7", "observer / haversine wiring", "N"),
                        ("R08.8", "distance stored whenever the position is (given an observer)", "N"),
                        ("R08.9", "a slot's fields and its receive time are written together, whatever the row held before", "N"),
                        ("R08.10", "the position depends on earlier row state only through the other CPR half", "N")]:
        rep.rule(rid, txt, k)
    out = k2_results(facts, tier)
    results = out["results"]
    P = sel(results, "P")
    if len(P) < 8:
        raise Broken("C08: position contexts missing")
    n1 = n2 = n3 = n4 = n8 = n9 = n10 = 0
    for r in P:
        if not accepted(r):
            raise Broken("C08: %s not accepted" % r.ctx["label"])
        lab = r.ctx["label"]
        F = 0 if "F0" in r.ctx["tags"] else 1
        path_ = "U" if r.ctx.get("U") else "D"
        for f in POS_FIELDS:
            sts = stores_of(r, f)
            if not sts:
                rep.oblige(False, ("pos-store", lab, f))
                rep.add(Finding("R08.1", "%s never stored by a position squitter (%s path)" % (f, path_), "context '%s' stores no %s" % (lab, f), None))
                continue
            for pth, v, pc in sts:
                n1 += 1
                why = []
                ne = [t for t, tr in atoms(pc, "Ne") if tr and t[2] == 0]
                slots = set()
                from ..absint.query import term_bits
                for t in ne:
                    s_ = show_term(t)
                    tb = term_bits(t)
                    for nm in ("cpr_lat[0]", "cpr_lat[1]", "cpr_lon[0]", "cpr_lon[1]"):
                        if "pre(%s)" % nm in s_:
                            slots.add(nm)
                    # the slot just written holds the frame's own field
                    if tb and tb <= set(range(55, 72)):
                        slots.add("cpr_lat[%d]" % F)
                    if tb and tb <= set(range(72, 89)):
                        slots.add("cpr_lon[%d]" % F)
                if len(slots) < 4:
                    why.append("CPR slots tested non-zero: %s" % sorted(slots))
                if len(ne) < 4:
                    why.append("%d non-zero tests (4 expected)" % len(ne))
                win = [t for t, tr in atoms(pc, "Lt") if tr and t[2] == 10 and term_find(t, "num_seconds")]
                if not win:
                    why.append("no time-window test")
                rng = [t for t, tr in atoms(pc, "in_range") if tr]
                bounds = sorted((t[2], t[3]) for t in rng)
                # `x.abs() <= K` is the same test as `(-K..=K).contains(&x)`
                for t, tr in atoms(pc, "Le"):
                    if tr and isinstance(t[1], tuple) and t[1] and t[1][0] == "abs" and isinstance(t[2], (int, float)):
                        bounds.append((-float(t[2]), float(t[2])))
                bounds = sorted(bounds)
                if bounds != [(-180.0, 180.0), (-90.0, 90.0)]:
                    why.append("range tests %s (expected lat [-90,90], lon [-180,180])" % bounds)
                dis = [t for t, tr in atoms(pc, "Eq") if tr and term_find(t, "discr")]
                if not dis:
                    why.append("not under 'decoder returned a position'")
                ok = not why
                rep.oblige(ok, ("commit", lab, f))
                if not ok:
                    rep.add(Finding("R08.1", "%s stored without the pairing guards (%s path)" % (f, path_),
                                    "context '%s': %s is stored although: %s" % (lab, f, "; ".join(why)), None))
                # R08.2 / R08.3 on one representative store
                if f == "lat":
                    n2 += 1
                    okw = False
                    okn = False
                    for t in win:
                        ab = term_find(t, "abs")
                        sd = term_find(t, "sds")
                        if ab and sd and t[1][0] == "abs":
                            a, b = sd[0][1], sd[0][2]
                            sa, sb = show_term(a), show_term(b)
                            if ("cpr_time[0]" in sa or "now" in sa) and ("cpr_time[1]" in sb or "now" in sb) and sa != sb:
                                okw = True
                            cur, oth = (a, b) if F == 0 else (b, a)
                            if isinstance(cur, tuple) and cur and cur[0] == "now" and "pre(cpr_time[%d])" % (1 - F) in show_term(oth):
                                okn = True
                    rep.oblige(okw, ("window", lab))
                    if not okw:
                        rep.add(Finding("R08.2", "time window is not |t0 - t1| < 10 s (%s path)" % path_,
                                        "context '%s': window atoms %s" % (lab, [show_term(t)[:120] for t in win]), None))
                    n3 += 1
                    rep.oblige(okn, ("slot-now", lab))
                    if n3 <= 2:
                        rep.sample({"rule": "R08.3", "context": lab, "window": [show_term(t)[:140] for t in win]})
                    if not okn:
                        rep.add(Finding("R08.3", "CPR slot time is not this frame's receive time (%s path)" % path_,
                                        "context '%s' (format bit %d): the time of slot %d is not Utc::now() of this update: %s - the 10 s window cannot work"
                                        % (lab, F, F, [show_term(t)[:140] for t in win]), None))
                    # R08.6
                    eqs = [t for t, tr in atoms(pc, "Eq") if tr and len(term_find(t, "ret")) >= 2]
                    ok6 = any(term_find(t, "ret")[0] == term_find(t, "ret")[1] for t in eqs)
                    rep.oblige(ok6, ("zones", lab))
                    if not ok6:
                        rep.add(Finding("R08.6", "position not guarded by zone equality (%s path)" % path_,
                                        "context '%s': no NL(lat_even) == NL(lat_odd) test dominates the position" % lab, None))
        # R08.8: the distance follows the position: it is stored under the conditions of the lat/lon store plus, at most,
        # "an observer is configured" - never under a further test (moved-enough thresholds, "only if still unknown", ...)
        lat_sts = [(pth, v, pc, ctl) for pth, v, pc, ctl in r.stores if pth and pth[0][1] == "lat"]
        for pth, v, pc, ctl in r.stores:
            if not (pth and pth[0][1] == "distance_from_observer"):
                continue
            n8 += 1
            best = None
            for _, _, lpc, lctl in lat_sts:
                extra = [(t, tr) for t, tr in pc if (t, tr) not in lpc]
                cextra = sorted(str(d[1] if d and d[0] == "ctl" else d) for d in (ctl or ()) if d not in (lctl or ())
                                and "observer" not in str(d))
                if best is None or len(extra) + len(cextra) < len(best[0]) + len(best[1]):
                    best = (extra, cextra)
            extra, cextra = best or ([], [])
            bad = [show_term(t)[:100] + ("" if tr else " is false") for t, tr in extra if not (t[0] == "Eq" and tr and term_find(t, "discr"))]
            ndis = len([1 for t, tr in extra if t[0] == "Eq" and tr and term_find(t, "discr")])
            ok = not bad and ndis <= 1 and bool(lat_sts) and not cextra
            rep.oblige(ok, ("distance-follows", lab))
            if not ok:
                what = bad or (["control-dependent on %s" % ", ".join(cextra[:4])] if cextra else ["%d option tests" % ndis])
                rep.add(Finding("R08.8", "distance not refreshed with every position (%s path)" % path_,
                                "context '%s': distance_from_observer is stored only under extra conditions (%s) beyond those of the position itself: "
                                "the distance column can lag behind the shown position" % (lab, "; ".join(what[:3])), None))
        # R08.4
        for f, sb, eb in (("cpr_lat", 55, 71), ("cpr_lon", 72, 88)):
            sts = stores_of(r, f)
            n4 += 1
            ok = False
            for pth, v, pc in sts:
                if len(pth) == 2 and pth[1][0] == "index" and pth[1][1] == F and isinstance(v, IntV):
                    n = eb - sb + 1
                    want = Aff(0, {("b", sb + i): 1 << (n - 1 - i) for i in range(n)})
                    if int_aff(v) == want:
                        ok = True
            rep.oblige(ok, ("slot", lab, f))
            if not ok:
                rep.add(Finding("R08.4", "%s slot store (%s path)" % (f, path_),
                                "context '%s': %s[%d] is not set to frame bits %d-%d: %s" % (lab, f, F, sb, eb, [(p[1:], repr(v)[:80]) for p, v, _ in sts]), None))
        sts = stores_of(r, "cpr_time")
        ok = any(len(pth) == 2 and pth[1][1] == F and isinstance(v, OpaqueV) and v.term and v.term[0] == "now" for pth, v, pc in sts)
        rep.oblige(ok, ("slot-time", lab))
        if not ok:
            rep.add(Finding("R08.3", "cpr_time slot store (%s path)" % path_, "context '%s': cpr_time[%d] := %s" % (lab, F, [repr(v)[:60] for _, v, _ in sts]), None))
        # R08.10: what is shown depends on the row's previous contents only through the other CPR half (its fields and its
        # receive time): a decode steered by anything else the row remembered - the type code of an earlier frame, a flag set
        # by another message - pairs or scales the halves by something that is not this frame
        from ..absint.domain import deps_of as _deps_of
        for f in POS_FIELDS:
            for pth, v, pc, ctl in r.stores:
                if not (pth and pth[0][1] == f):
                    continue
                n10 += 1
                pre = set()
                for d in list(_deps_of(v)) + list(ctl or ()):
                    if isinstance(d, tuple) and d and d[0] == "ctl":
                        d = d[1]
                    if isinstance(d, tuple) and d and d[0] == "pre":
                        pre.add(str(d[1]))
                for t, tr in pc:
                    st_ = show_term(t)
                    if "pre(" in st_ and "ctl(" not in st_:
                        import re as _re
                        pre |= set(_re.findall(r"pre\(([^)]*)\)", st_))
                bad10 = sorted(x for x in pre if x.split("[")[0] not in ("cpr_lat", "cpr_lon", "cpr_time"))
                rep.oblige(not bad10, ("pos-pre", lab, f))
                if bad10:
                    rep.add(Finding("R08.10", "%s depends on earlier row state other than the CPR halves (%s path)" % (f, path_),
                                    "context '%s': the store to %s depends on the row's previous %s - the position shown is not decided by "
                                    "this frame and the other CPR half alone" % (lab, f, bad10), None))
        # R08.9 slot coherence: the receive time of a slot is the receive time of the fields in it.  The three stores to
        # slot F (fields 55-71, 72-88 and the time) happen under one and the same condition, and that condition does not
        # look at what the row held before (a frame that repeats the stored fields still refreshes the slot's time; a frame
        # whose fields are not stored must not refresh it)
        n9 += 1
        conds = {}
        for pth, v, pc, ctl in r.stores:
            if pth and pth[0][1] in ("cpr_lat", "cpr_lon", "cpr_time") and len(pth) == 2 and pth[1][0] == "index" and pth[1][1] == F:
                conds.setdefault(pth[0][1], []).append((frozenset(pc), frozenset(ctl or ())))
        why9 = []
        if len(conds) == 3:
            cs = {k: sorted(v, key=repr) for k, v in conds.items()}
            if not (cs["cpr_lat"] == cs["cpr_lon"] == cs["cpr_time"]):
                def _sh(c):
                    return ["; ".join([show_term(t)[:60] + ("" if tr else " is false") for t, tr in sorted(pc_, key=repr)] +
                                      ["ctl " + str(d) for d in sorted(map(str, ct_))][:4]) or "always" for pc_, ct_ in c]
                why9.append("slot %d: fields stored %s / %s but time stored %s" % (F, _sh(cs["cpr_lat"]), _sh(cs["cpr_lon"]), _sh(cs["cpr_time"])))
            pre = set()
            for k, v in conds.items():
                for pc_, ct_ in v:
                    for d in ct_:
                        if isinstance(d, tuple) and d and d[0] == "pre":
                            pre.add(str(d[1]))
                    for t, tr in pc_:
                        if "pre(" in show_term(t):
                            pre.add(show_term(t)[:60])
            if pre:
                why9.append("whether slot %d is written depends on what the row held before (%s)" % (F, ", ".join(sorted(pre)[:4])))
        rep.oblige(not why9, ("slot-coherent", lab))
        if why9:
            rep.add(Finding("R08.9", "CPR slot fields and slot time not written together (%s path)" % path_,
                            "context '%s': %s - the 10 s window is then measured from a time that is not the receive time of the stored fields"
                            % (lab, "; ".join(why9)), None))
    rep.instances("R08.9", n9, floor=8)
    rep.instances("R08.10", n10, floor=30)
    rep.instances("R08.1", n1, floor=30)
    rep.instances("R08.2", n2, floor=8)
    rep.instances("R08.3", n3, floor=8)
    rep.instances("R08.4", n4, floor=16)
    rep.instances("R08.8", n8, floor=8)
    rep.instances("R08.6", n2, floor=8)

    # ---- R08.5 NL table (E4)
    table = None
    holder = None
    for b in facts.bodies.values():
        if b.kind == "promoted" and False:
            continue
        for bi, si, s in iter_stmts(b):
            if s["k"] == "assign" and s["rv"]["k"] == "agg" and s["rv"].get("agg") == "array" and len(s["rv"]["ops"]) >= 50:
                du = DefUse(b)
                rows = []
                for o in s["rv"]["ops"]:
                    e = expr(du, o)
                    if e[0] == "agg" and len(e[2]) == 2 and e[2][0][0] == "const" and e[2][1][0] == "const":
                        rows.append((e[2][0][1], e[2][1][1]))
                if len(rows) == len(s["rv"]["ops"]) and all(isinstance(x, float) for x, _ in rows):
                    table, holder = rows, b
    # (a) semantic: the latitude -> NL function evaluated abstractly on every zone interval (covers all latitudes except a
    #     1e-6 degree neighbourhood of each boundary), whatever its implementation (scan, binary search, ...)
    from ..absint import k3 as K3
    from ..absint.domain import FloatV
    from ..cfg import call_graph, reachable_bodies
    upd = [b for b in facts.bodies.values() if b.name.endswith("update_position") and b.kind != "promoted"]
    reach = reachable_bodies(facts, [b.name for b in upd], call_graph(facts)) if upd else set()
    nlf = [facts.bodies[n] for n in reach if facts.bodies[n].arg_count == 1 and facts.bodies[n].locals[1]["ty"]["s"] == "f64"
           and facts.bodies[n].locals[0]["ty"]["s"] == "i32"]
    if len(nlf) != 1:
        raise Broken("C08 anchor: latitude->NL function not unique (%d candidates)" % len(nlf))
    nlf = nlf[0]
    _zone_operands(facts, rep, nlf)
    bnds = [(nl_, 87.0 if nl_ == 2 else nl_boundary(nl_)) for nl_ in range(59, 1, -1)]
    zones = []
    lo = 0.0
    for nl_, b in bnds:
        zones.append((nl_, lo, b))
        lo = b
    zones.append((1, 87.0, 90.0))
    eps = 1e-6
    badz = []
    nz = 0
    for nl_, zlo, zhi in zones:
        for sgn in (1, -1):
            a, b = (zlo + eps, zhi - eps) if sgn == 1 else (-(zhi - eps), -(zlo + eps))
            if nl_ == 59 and sgn == 1:
                a = 0.0
            I, v, st = K3.run_fn(facts, nlf.name, lambda I, st, a=a, b=b: [FloatV(a, b, frozenset(), ("lat",))], "K3 NL zone %d" % nl_)
            nz += 1
            ok = isinstance(v, IntV) and v.is_const() and v.lo == nl_
            rep.oblige(ok, ("zone", nl_, sgn))
            if not ok:
                badz.append((nl_, a, b, v, sorted(set(w[1] for w in I.warnings))[:2]))
    rep.instances("R08.5", nz, floor=118, what="latitude zone intervals evaluated abstractly (59 zones x 2 hemispheres)")
    rep.sample({"rule": "R08.5", "fn": nlf.name, "zones": nz, "bad": len(badz)})
    for nl_, a, b, v, w in badz[:3]:
        rep.add(Finding("R08.5", "NL(lat) wrong or not decidable in zone NL=%d" % nl_,
                        "for every latitude in [%.6f, %.6f] NL must be %d; the function yields %r %s" % (a, b, nl_, v, ("(unmodelled: %s)" % w) if w else ""), nlf.loc()))
    # (b) table audit, when the function keeps its boundaries as a constant (boundary, NL) table
    bad = []
    if table is not None:
        for i, (bnd, nl) in enumerate(table):
            exp_nl = 59 - i
            if nl != exp_nl:
                bad.append("row %d has NL %s (expected %d)" % (i, nl, exp_nl))
                continue
            want = 87.0 if nl == 2 else nl_boundary(nl)
            if abs(bnd - want) > 1e-7:
                bad.append("NL %d boundary %.8f (expected %.8f)" % (nl, bnd, want))
        if len(table) != 58:
            bad.append("%d rows (expected 58)" % len(table))
        rep.oblige(not bad, ("nl-table",))
        for x in bad[:4]:
            rep.add(Finding("R08.5", "NL table: %s" % x.split("(")[0].strip(), "NL table of %s: %s" % (holder.name, x), holder.loc()))
    # ---- R08.7 observer wiring
    n7 = 0
    for st in field_stores(facts, "Plane", "distance_from_observer"):
        b = st["body"]
        du = DefUse(b)
        if st["via"] != "assign":
            continue
        e = expr(du, st["stmt"]["rv"]["x"]) if st["stmt"]["rv"]["k"] == "use" else expr(du, st["stmt"]["rv"]["ops"][0]) if st["stmt"]["rv"]["k"] == "agg" else None
        if e is None:
            continue
        if e[0] == "agg":
            e = e[2][0]
        n7 += 1
        s_ = show(e)
        # the first two arguments are the row's lat / lon - read back from the row, or the very expressions stored there
        stored = {}
        for f in ("lat", "lon"):
            for s2 in field_stores(facts, "Plane", f, [b]):
                if s2["via"] == "assign" and s2["stmt"]["rv"]["k"] == "use":
                    stored.setdefault(f, []).append(expr(du, s2["stmt"]["rv"]["x"]))

        def is_row(x, f):
            return (x[0] == "arg" and x[2][-1:] == (f,)) or x in stored.get(f, [])
        obs_e = [show(e[2][i]) for i in (2, 3)] if e[0] == "call" and len(e[2]) == 4 else ["", ""]
        ok = e[0] == "call" and len(e[2]) == 4 and is_row(e[2][0], "lat") and is_row(e[2][1], "lon") \
            and all("get_observer_coords" in x for x in obs_e) and obs_e[0].rstrip().endswith(".0") and obs_e[1].rstrip().endswith(".1")
        rep.oblige(ok, ("haversine-args",))
        rep.sample({"rule": "R08.7", "distance": s_[:200]})
        if not ok:
            rep.add(Finding("R08.7", "distance computed as %s" % s_[:80], "distance_from_observer := %s; expected haversine(row lat, row lon, observer lat, observer lon)" % s_[:200],
                            span_loc(st["stmt"].get("span"))))
        if e[0] == "call" and e[1] in facts.bodies:
            hb = facts.bodies[e[1]]
            fl = []
            for _, _, s in iter_stmts(hb):
                if s["k"] == "assign":
                    for o in ([s["rv"].get("x")] if s["rv"].get("x") else []) + [s["rv"].get("l"), s["rv"].get("r")]:
                        if o and "const" in o and "float_bits" in o["const"]:
                            fl.append(expr(DefUse(hb), o)[1])
            ok = 6371.0 in fl
            rep.oblige(ok, ("radius",))
            if not ok:
                rep.add(Finding("R08.7", "earth radius literal", "haversine does not use R = 6371 km (float constants: %s)" % sorted(set(fl))[:6], hb.loc()))
    for ag in adt_aggregates(facts, "Coordinates"):
        du = DefUse(ag["body"])
        rv = ag["stmt"]["rv"]
        d = dict(zip(rv["fields"], [show(expr(du, o)) for o in rv["ops"]]))
        n7 += 1
        ok = "[0]" in d.get("lat", "") and "[1]" in d.get("lon", "") and "[1]" not in d.get("lat", "") and "[0]" not in d.get("lon", "")
        if not ok:
            # index projections through Vec::index calls
            ok = ("index(" in d.get("lat", "") and ", 0)" in d.get("lat", "")) and ("index(" in d.get("lon", "") and ", 1)" in d.get("lon", ""))
        if not ok:
            # split_once / destructured forms: the last tuple index applied to the split result selects the part
            from ..lineexpr import walk as _walk

            def part_index(e):
                best = None
                for x in _walk(e):
                    cand = None
                    if x[0] == "path" and "split" in repr(x[1]):
                        ints = [p_ for p_ in x[2] if isinstance(p_, int) and not isinstance(p_, bool)]
                        if ints:
                            cand = (len(repr(x[1])), ints[-1])
                    if x[0] == "call" and x[1].split("::")[-1] in ("index", "get", "nth") and len(x[2]) == 2 and x[2][1][0] == "const" \
                            and "split" in repr(x[2][0]):
                        cand = (len(repr(x[2][0])), x[2][1][1])
                    if cand is not None and (best is None or cand[0] < best[0]):
                        best = cand        # the projection sitting directly on the split result
                return best[1] if best else None
            fe = dict(zip(rv["fields"], [expr(du, o) for o in rv["ops"]]))
            ok = part_index(fe.get("lat", ("?",))) == 0 and part_index(fe.get("lon", ("?",))) == 1
        rep.oblige(ok, ("coords-order",))
        if not ok:
            rep.add(Finding("R08.7", "observer 'lat,lon' parse order", "Coordinates{lat: %s, lon: %s}" % (d.get("lat", "")[:80], d.get("lon", "")[:80]), ag["body"].loc()))
    rep.instances("R08.7", n7, floor=2)
    rep.assumptions += [
        "NOT decided: numeric correctness of the CPR decode (20 m, all zones, antimeridian, hemispheres) and the haversine value",
        "a CPR field that is exactly 0 counts as not received (as the property states)",
    ]
