"""C07 — callsign and emitter category are decoded character-exactly.

R07.1 [proof] in TC 1-4 contexts (both paths, creation) and BDS 2,0 contexts the stored callsign is a sequence of 8 optional
      characters, the i-th depending exactly on frame bits 41+6i..46+6i, in order, each removable (blank filter);
R07.2 [proof, exhaustive] the character mapping: frames whose 8 characters all carry code c (c = 0..63) decode to 8 x the
      IA5 character (1-26 -> A-Z, 48-57 -> 0-9) or to the empty string; a frame with codes 1..8 decodes to "ABCDEFGH";
R07.3 [proof] category := (type code, 3-bit subtype field) in TC 1-4 contexts; wake class table over all 32x8 pairs:
      (4,1)L (4,2)S (4,3)M (4,4)H (4,5)J (4,7)R, anything else none;
R07.5 [proof] in every other decode context (all DFs, all other type codes, every Comm-B register) category is not written;
R07.4 [proof] BDS 2,0: the callsign is stored from a DF20/21 reply iff its BDS selector is 2,0 and the capability gate holds.
"""
from ..absint import k3 as K3
from ..absint.batch import k2_results
from ..absint.ctx import field_bits, frame, ref_to
from ..absint.domain import EnumV, IntV, StrV, TupleV
from ..absint.query import accepted, frame_deps, int_aff, sel, stores_of, summary
from ..facts import Broken, callee_name
from ..mirq import DefUse, expr, field_stores
from ..report import Finding

LEVEL = "other"


def char_fields():
    return [set(range(41 + 6 * i, 47 + 6 * i)) for i in range(8)]


def check_chars(v):
    """-> list of problems for a stored callsign value"""
    if not (isinstance(v, EnumV) and v.may("Some")):
        return ["no Some value"]
    s = v.payload("Some")
    if not (isinstance(s, StrV) and s.skind == "chars"):
        return ["callsign is not a character sequence: %r" % (s,)]
    probs = []
    if len(s.chars) != 8:
        probs.append("%d characters instead of 8" % len(s.chars))
    for i, (cond, ch) in enumerate(s.chars[:8]):
        fd = frame_deps(ch)
        if fd != char_fields()[i]:
            probs.append("character %d depends on bits %s (expected %d-%d)" % (i + 1, sorted(fd), 41 + 6 * i, 46 + 6 * i))
        if cond != "maybe":
            probs.append("character %d is never omitted (blank filter missing)" % (i + 1))
    return probs


def ia5_expected(c):
    if 1 <= c <= 26:
        return chr(64 + c)
    if 48 <= c <= 57:
        return chr(c)
    return None


def run(facts, rep, tier):
    rep.explanation = (
        "E2 abstract interpretation: in TC1-4 / BDS2,0 contexts the stored callsign is a symbolic character sequence whose "
        "per-character bit dependencies, order and optionality are read off; the character mapping and the wake table are "
        "finite functions evaluated abstractly on every argument (64 codes, 8 positions, 32x8 category pairs)."
    )
    rep.trusted = ["rustc MIR", "E2 iterator/collect models", "Annex 10 6-bit character subset and ADS-B emitter category table (in the rule)"]
    rep.rule("R07.1", "8 characters from bits 41-88 in order, blanks removed", "P")
    rep.rule("R07.2", "IA5 subset mapping for all 64 codes and all 8 positions", "P")
    rep.rule("R07.3", "category = (TC, subtype); wake table", "P")
    rep.rule("R07.4", "BDS2,0 callsign iff selector 2,0 and gate", "P")
    rep.rule("R07.5", "category is written by identification squitters only (never by a Comm-B reply or any other format)", "P")
    out = k2_results(facts, tier)
    results = out["results"]
    n1 = 0
    for r in [x for x in sel(results, "T") if any(t in x.ctx["tags"] for t in ("tc1", "tc2", "tc3", "tc4")) and "df17" in x.ctx["tags"]]:
        if not accepted(r):
            raise Broken("C07: %s not accepted" % r.ctx["label"])
        tc = int([t for t in r.ctx["tags"] if t.startswith("tc")][0][2:])
        vals = [("update", r.post_update.fields.get("ais"))]
        if r.post_create is not None:
            vals.append(("create", r.post_create.fields.get("ais")))
        for which, v in vals:
            n1 += 1
            probs = check_chars(v)
            if isinstance(v, EnumV) and v.may("None"):
                probs.append("the callsign may stay/go blank although the squitter carries one")
            rep.oblige(not probs, ("ais", r.ctx["label"], which))
            if not probs and n1 <= 2:
                rep.sample({"rule": "R07.1", "context": r.ctx["label"], "chars": [sorted(frame_deps(c)) for _, c in v.payload("Some").chars]})
            if probs:
                rep.add(Finding("R07.1", "callsign decode TC%d %s%s" % (tc, which, " -U" if r.ctx.get("U") else ""),
                                "context '%s' (%s): %s" % (r.ctx["label"], which, "; ".join(probs[:4])), None))
        # category
        for which, row in (("update", r.post_update), ("create", r.post_create)):
            if row is None:
                continue
            cat = row.fields.get("category")
            ok = isinstance(cat, TupleV) and len(cat.items) == 2 and isinstance(cat.items[0], IntV) and cat.items[0].is_const() and cat.items[0].lo == tc \
                and int_aff(cat.items[1]) is not None and int_aff(cat.items[1]).show() == "4*b38 + 2*b39 + b40"
            rep.oblige(ok, ("cat", r.ctx["label"], which))
            if not ok:
                rep.add(Finding("R07.3", "category of TC%d %s%s" % (tc, which, " -U" if r.ctx.get("U") else ""),
                                "context '%s': category is %r, expected (%d, 4*b38+2*b39+b40)" % (r.ctx["label"], cat, tc), None))
    rep.instances("R07.1", n1, floor=12, what="callsign values in TC1-4 contexts")
    # other TCs must not touch callsign/category
    for r in sel(results, "T"):
        if not accepted(r):
            continue
        tc = int([t for t in r.ctx["tags"] if t.startswith("tc")][0][2:])
        if not (1 <= tc <= 4):
            for f in ("ais", "category"):
                ok = not stores_of(r, f)
                rep.oblige(ok, ("no-ais", r.ctx["label"], f))
                if not ok:
                    rep.add(Finding("R07.3", "%s written by TC%d" % (f, tc), "context '%s' stores %s" % (r.ctx["label"], f), None))

    # ---- R07.5: the emitter category belongs to the identification squitter alone.  A Comm-B reply decoded as BDS 2,0 carries
    # the callsign but no category (its first ME byte is the BDS code 0x20); no other format carries either
    n5 = 0
    for r in results:
        if not accepted(r) or r.df is None:
            continue
        tcs = [int(t[2:]) for t in r.ctx["tags"] if t.startswith("tc") and t[2:].isdigit()]
        if r.df in (17, 18) and (not tcs or 1 <= tcs[0] <= 4):
            continue            # identification squitters (or a symbolic type code that includes them)
        n5 += 1
        sts = stores_of(r, "category")
        created = r.post_create.fields.get("category") if r.post_create is not None else None
        bad_create = created is not None and not (isinstance(created, TupleV) and all(isinstance(x, IntV) and x.is_const() and x.lo == 0 for x in created.items))
        ok = not sts and not bad_create
        rep.oblige(ok, ("cat-only-ident", r.ctx["label"]))
        if not ok:
            what = "stores category = %s" % (repr(sts[-1][1] if sts else created)[:120],)
            rep.add(Finding("R07.5", "category written by a frame that is not an identification squitter (DF%d)" % r.df,
                            "context '%s' %s: the emitter category / wake class shown afterwards is not the one the aircraft's "
                            "identification squitter gave" % (r.ctx["label"], what), None))
    rep.instances("R07.5", n5, floor=100, what="decode contexts other than DF17/18 TC1-4")

    # ---- R07.2: the callsign function, found by role (root callee of the stores into `ais` fields)
    roots = set()
    for adt in ("Plane", "Ext", "Mds"):
        for st in field_stores(facts, adt, "ais"):
            if st["via"] == "calldest":
                roots.add(callee_name(st["term"]))
            elif st["via"] == "assign" and st["stmt"]["rv"]["k"] == "use":
                e = expr(DefUse(st["body"]), st["stmt"]["rv"]["x"])
                if e[0] == "call" and e[1] in facts.bodies:
                    roots.add(e[1])
    roots = {x for x in roots if x in facts.bodies and facts.bodies[x].arg_count == 1}
    if len(roots) != 1:
        raise Broken("C07 anchor: callsign decoder not unique: %s" % sorted(roots))
    aisfn = roots.pop()
    n2 = 0
    bad = []
    for c in range(64):
        fx = {}
        for i in range(8):
            field_bits(fx, 41 + 6 * i, 46 + 6 * i, c)
        I, v, st = K3.run_fn(facts, aisfn, lambda I, st, fx=fx: [ref_to(I, st, frame(28, fx))], "K3 callsign code %d" % c)
        n2 += 1
        got = _concrete_string(v)
        e = ia5_expected(c)
        want = (e * 8) if e else ""
        ok = got == want
        rep.oblige(ok, ("ia5", c))
        if not ok:
            bad.append((c, got, want))
    fx = {}
    for i in range(8):
        field_bits(fx, 41 + 6 * i, 46 + 6 * i, i + 1)
    I, v, st = K3.run_fn(facts, aisfn, lambda I, st: [ref_to(I, st, frame(28, fx))], "K3 callsign positions")
    got = _concrete_string(v)
    n2 += 1
    rep.oblige(got == "ABCDEFGH", ("positions",))
    if got != "ABCDEFGH":
        rep.add(Finding("R07.2", "character order/positions", "codes 1..8 in positions 1..8 decode to %r, expected 'ABCDEFGH'" % (got,), facts.bodies[aisfn].loc()))
    for c, got, want in bad[:6]:
        rep.add(Finding("R07.2", "character code %d" % c, "8 characters of code %d decode to %r, expected %r" % (c, got, want), facts.bodies[aisfn].loc()))
    rep.instances("R07.2", n2, floor=65, what="abstract evaluations of the callsign function (64 codes + position test)")
    rep.sample({"rule": "R07.2", "fn": aisfn, "codes": 64, "mismatches": len(bad)})

    # ---- R07.3 wake table: the fn applied to Plane.category in the row renderer
    wake = None
    for b in facts.bodies.values():
        if b.kind == "promoted":
            continue
        du = None
        for bb, t in b.calls():
            tgt = callee_name(t)
            if tgt in facts.bodies and len(t["args"]) == 1:
                du = du or DefUse(b)
                e = expr(du, t["args"][0])
                if e[0] == "arg" and e[2][-1:] == ("category",) and "display" in b.name:
                    wake = tgt
    if wake is None:
        raise Broken("C07 anchor: wake-class function (applied to Plane.category in the renderer) not found")
    exp = {(4, 1): "L", (4, 2): "S", (4, 3): "M", (4, 4): "H", (4, 5): "J", (4, 7): "R"}
    wbad = []
    n3 = 0
    for tcv in range(32):
        for ca in range(8):
            I, v, st = K3.run_fn(facts, wake, lambda I, st, tcv=tcv, ca=ca: [ref_to(I, st, TupleV([IntV.const("u32", tcv), IntV.const("u32", ca)]))],
                                 "K3 wake (%d,%d)" % (tcv, ca))
            n3 += 1
            got = None
            if isinstance(v, EnumV) and v.only("Some") and isinstance(v.payload("Some"), IntV) and v.payload("Some").is_const():
                got = chr(v.payload("Some").lo)
            elif isinstance(v, EnumV) and v.only("None"):
                got = None
            else:
                got = "?%r" % (v,)
            ok = got == exp.get((tcv, ca))
            rep.oblige(ok, ("wake", tcv, ca))
            if not ok:
                wbad.append(((tcv, ca), got, exp.get((tcv, ca))))
    for k, got, want in wbad[:6]:
        rep.add(Finding("R07.3", "wake class of category %s" % (k,), "category %s shows wake class %r, expected %r" % (k, got, want), facts.bodies[wake].loc()))
    rep.instances("R07.3", n3, floor=256, what="(type code, category) pairs")

    # ---- R07.4
    n4 = 0
    for r in sel(results, "B"):
        if not accepted(r):
            continue
        tags = r.ctx["tags"]
        sts = stores_of(r, "ais")
        if "bds20" in tags:
            n4 += 1
            gate = "ca4" in tags
            if gate:
                probs = check_chars(sts[-1][1]) if sts else ["no callsign stored"]
                rep.oblige(not probs, ("bds20", r.ctx["label"]))
                if probs:
                    rep.add(Finding("R07.4", "BDS2,0 callsign decode (%s)" % ("DF21" if "df21" in tags else "DF20"),
                                    "context '%s': %s" % (r.ctx["label"], "; ".join(probs[:3])), None))
            else:
                ok = not sts
                rep.oblige(ok, ("bds20-gate", r.ctx["label"]))
                if not ok:
                    rep.add(Finding("R07.4", "BDS2,0 callsign stored without capability", "context '%s' stores a callsign although CA<4 and -R is off" % r.ctx["label"], None))
        elif "bds30" in tags or "bds10" in tags or "valid" in tags:
            n4 += 1
            ok = not sts
            rep.oblige(ok, ("not-bds20", r.ctx["label"]))
            if not ok:
                rep.add(Finding("R07.4", "callsign stored from a register other than 2,0", "context '%s' stores a callsign" % r.ctx["label"], None))
    rep.instances("R07.4", n4, floor=8)
    rep.extra["exhaustive"] = True
    rep.assumptions += ["C10 decides the Comm-B gating in general; here only the 2,0 selector and the CA gate for the callsign"]


def _concrete_string(v):
    if not (isinstance(v, EnumV) and v.only("Some")):
        return "?%r" % (v,)
    s = v.payload("Some")
    if isinstance(s, StrV) and s.skind == "chars":
        out = ""
        for cond, ch in s.chars:
            if cond != "always" or not (isinstance(ch, IntV) and ch.is_const()):
                return "?%r" % (s.chars,)
            out += chr(ch.lo)
        return out
    if isinstance(s, StrV) and s.skind == "lit":
        return s.text
    return "?%r" % (s,)
