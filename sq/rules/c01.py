"""C01 — no input line or option set can crash or wedge the decoder.

R01.1 panic / overflow obligations [proof by abstract interpretation]: every MIR `Assert` terminator (bounds, overflow,
      division, shift amount, negation) and every call to a panicking API (expect/unwrap, Index::index, chrono
      constructors) reached by the decode pipeline is an obligation, evaluated in every context of the partition
      (all 32 DF x both lengths through the line gate, every digit count 0..64, type codes/subtypes, altitude and
      velocity field classes, Comm-B gating/validation classes, both update paths, -R) with the payload symbolic;
      plus the options / presentation units (-u, -d any i64; counters; sweep; sort keys; row rendering).
      It is discharged iff the abstract condition is definitely true in every context that reaches it.
R01.2 termination: the call graph from the entries is acyclic and every loop iterates a finite source.
R01.3 a file source is read to EOF and main maps the thread's Ok(()) to exit status 0.
"""
from ..absint.batch import k2_results
from ..absint.domain import BoolV, EnumV, IntV, OpaqueV, RefV, StructV, TupleV, fresh_sid
from ..absint import k3 as K3
from ..absint.ctx import ref_to
from ..cfg import CFG, call_graph, reachable_bodies
from ..facts import Broken, callee_name, span_loc
from ..mirq import expr, DefUse, operand_place
from ..report import Finding

LEVEL = "other"

FINITE_SOURCES = ("iter::range", "slice::Iter", "slice::iter", "Enumerate", "str::Chars", "Chars", "array::", "btree_map::Iter",
                  "hash_map::Iter", "vec::IntoIter", "MapWhile", "io::Split", "io::Lines", "Map<", "Filter<", "FilterMap<")


def run(facts, rep, tier):
    rep.explanation = (
        "Abstract interpretation of the crate's MIR (E2: intervals x per-bit provenance x affine forms, joins at merges, "
        "exact unrolling of constant-trip loops, reviewed std models) over a partition of the input space in which the "
        "selector fields are enumerated and all payload bits are symbolic: every Assert terminator and panicking call "
        "reached is an obligation that must be definitely safe in every context. Structural rules add termination "
        "(acyclic call graph, loops over finite sources) and the EOF/exit-0 path."
    )
    rep.trusted = ["rustc MIR (dev profile: overflow checks and debug assertions on)", "std/chrono model table sq/absint/models.py",
                   "single reader thread (C18 R18.6): lock poisoning unreachable"]
    rep.rule("R01.1", "every panic/overflow obligation reached by any context is definitely safe", "P")
    rep.rule("R01.4", "no lock is requested while a guard of the same lock is alive (no self-deadlock)", "P")
    rep.rule("R01.2", "call graph acyclic; every reachable loop iterates a finite source", "P")
    rep.rule("R01.3", "file source: loop ends only at EOF / I/O error; main returns the thread's result", "P")
    rep.rule("R01.5", "no input is thrown away unseen: nothing on the reader thread skips bytes or lines of the source", "N")
    rep.rule("R01.6", "the obligation inventory is complete: reader-thread code outside the analysed contexts has no panic site of its own", "P")

    out = k2_results(facts, tier)
    results = out["results"]
    sites = {}
    nctx = 0
    ENTERED.clear()
    for r in results:
        nctx += 1
        ENTERED.update(getattr(r, "entered", None) or ())
        for o in r.obligations:
            s = sites.setdefault(o["site"], {"n": 0, "bad": 0, "ctx": None, "ops": None, "loc": o["loc"], "kind": o["kind"]})
            s["n"] += 1
            if not o["ok"]:
                s["bad"] += 1
                if s["ctx"] is None:
                    s["ctx"] = o["ctx"]
                    s["ops"] = o["ops"]
    _k3(facts, rep, sites, out)
    for site, s in sorted(sites.items()):
        rep.oblige(s["bad"] == 0, site)
        if s["bad"]:
            rep.add(Finding("R01.1", site,
                            "possible panic: %s not provably safe in %d of %d contexts reaching it (e.g. context '%s', operands %s)"
                            % (s["kind"], s["bad"], s["n"], s["ctx"], s["ops"]), s["loc"], {"context": s["ctx"], "operands": s["ops"]}))
    rep.instances("R01.1", len(sites), floor=120, what="distinct obligation sites reached (Assert terminators + panicking calls)")
    # definite panics, unmodelled callees, interpreter limits
    e2_broken = []
    for r in results:
        if r.diverged and "panic" in r.diverged:
            bad = [o["site"] for o in r.obligations if not o["ok"]]
            rep.add(Finding("R01.1", "definite panic : %s" % (bad[-1] if bad else r.ctx["label"]),
                            "every frame of context '%s' panics (%s)" % (r.ctx["label"], r.diverged), None, {"context": r.ctx["label"]}))
        if r.diverged and r.diverged.startswith("imprecise"):
            rep.add(Finding("R01.1", "analysis lost the frame : %s" % r.diverged.split("(")[0].strip(),
                            "context '%s': %s - the obligations behind it cannot be discharged" % (r.ctx["label"], r.diverged[:200]), None))
        if r.diverged and "E2 broken" in r.diverged:
            e2_broken.append("E2 could not analyse context %s: %s" % (r.ctx["label"], r.diverged))
        for w in r.warnings:
            if w[0] == "unmodelled":
                rep.add(Finding("R01.1", "unmodelled callee : %s" % w[1],
                                "the decode path calls %s, which has no reviewed model: its panics/effects are not analysed "
                                "(context '%s')" % (w[1], w[2]), None))
            elif w[0] in ("switch", "store", "stmt", "terminator"):
                rep.add(Finding("R01.1", "imprecise : %s %s" % (w[0], w[1]),
                                "analysis lost precision (%s: %s) in context '%s'" % (w[0], w[1], w[2]), None))
    rep.extra["contexts"] = nctx
    rep.extra["k2_wall_s"] = out["wall"]
    rep.extra["obligation_evaluations"] = sum(s["n"] for s in sites.values())
    rep.sample({"rule": "R01.1", "site": sorted(sites)[0], "evaluations": sites[sorted(sites)[0]]["n"]})
    for r in results[:400:97]:
        rep.sample({"rule": "R01.1", "context": r.ctx["label"], "obligations": len(r.obligations), "steps": r.steps,
                    "accepted": not r.diverged})
    _termination(facts, rep)
    _eof(facts, rep)
    _locks(facts, rep)
    _discards(facts, rep)
    _completeness(facts, rep)
    if e2_broken and not rep.findings:
        raise Broken(e2_broken[0])
    for m in sorted(set(x.split(": ", 1)[-1] for x in e2_broken))[:3]:
        rep.add(Finding("R01.1", "analysis limit : %s" % m.split(" at ")[-1][:80], "the abstract interpreter gave up (%s): the obligations behind it are not discharged" % m, None))
    rep.assumptions += [
        "stdout closed (EPIPE makes print! panic), out-of-memory on huge lines and -D/-l file-system failures are environment exits, not decided",
        "release profile: the same MIR without overflow asserts; a wrapping operation there is the same site flagged here",
    ]


ENTERED = set()


def _merge(sites, I):
    ENTERED.update(I.entered)
    for o in I.obligations:
        s = sites.setdefault(o["site"], {"n": 0, "bad": 0, "ctx": None, "ops": None, "loc": o["loc"], "kind": o["kind"]})
        s["n"] += 1
        if not o["ok"]:
            s["bad"] += 1
            if s["ctx"] is None:
                s["ctx"] = o["ctx"]
                s["ops"] = o["ops"]
    return [w for w in I.warnings if w[0] == "unmodelled"]


def _k3(facts, rep, sites, out):
    """options and presentation units"""
    warns = []
    hulls = out["hulls"]["ranges"]
    # -u : AppCounters::from_update_interval(any i64)
    I, v, st = K3.run_fn(facts, "from_update_interval", lambda I, st: [K3.any_int("i64", "update")], "K3 -u any i64")
    warns += _merge(sites, I)
    if v is None:
        rep.add(Finding("R01.1", "definite panic : from_update_interval", "AppCounters::from_update_interval panics for every -u", None))
    # is_time_to_refresh
    def a_refresh(I, st):
        c = K3.counters_value(facts, IntV("u32", None, 0, 11))
        now = ref_to(I, st, OpaqueV("chrono::DateTime<chrono::Utc>", ("now", 0)))
        return [ref_to(I, st, c), now, K3.any_int("i64", "update")]
    I, v, st = K3.run_fn(facts, "is_time_to_refresh", a_refresh, "K3 refresh any -u")
    warns += _merge(sites, I)
    # update_count
    def a_count(I, st):
        c = K3.counters_value(facts, IntV("u32", None, 0, 11))
        return [ref_to(I, st, c, True), IntV("u32", None, 0, 31)]
    I, v, st = K3.run_fn(facts, "update_count", a_count, "K3 update_count any history")
    warns += _merge(sites, I)
    # sweep: inductive invariant of the cleanup counter, -d any i64
    maxc = 0
    reach = {0}
    frontier = [0]
    seen_ok = True
    while frontier:
        c0 = frontier.pop()
        def a_sweep(I, st, c0=c0):
            cnt = K3.counters_value(facts, IntV.const("u32", c0))
            planes_adt = [n for n in facts.adts if n.endswith("::Planes")][0]
            planes = StructV(planes_adt, {"aircrafts": OpaqueV("table", ("table",))})
            I.side["row_cell"] = I.new_cell(st, K3.row_with_hulls(facts, hulls))
            cref = ref_to(I, st, cnt, True)
            I.side["_cref"] = cref
            return [ref_to(I, st, planes, True), cref, OpaqueV("chrono::DateTime<chrono::Utc>", ("now", 0)), K3.any_int("i64", "delete_after")]
        I, v, st = K3.run_fn(facts, "cleanup", a_sweep, "K3 sweep counter=%d" % c0)
        warns += _merge(sites, I)
        if st is None:
            seen_ok = False
            continue
        cv = I.get_path(st, I.side["_cref"].cell, (("field", "cleanup_count"),))
        if isinstance(cv, IntV) and cv.hi - cv.lo < 64:
            for nv in range(cv.lo, cv.hi + 1):
                if nv not in reach and nv < 4096:
                    reach.add(nv)
                    frontier.append(nv)
        else:
            seen_ok = False
    rep.extra["cleanup_counter_reachable"] = sorted(reach)[:40]
    rep.oblige(seen_ok and max(reach) < 4096, "cleanup counter bounded")
    if not (seen_ok and max(reach) < 4000):
        rep.add(Finding("R01.1", "sweep counter unbounded", "the sweep counter can grow without bound (reachable values up to %s): its increment eventually overflows"
                        % max(reach), None))
    # sort keys / comparators: the -o sort function as a whole, on an unknown -o string and an unknown row vector (the sort
    # contracts call every key / comparator closure on arbitrary rows); the closures one by one if that run is imprecise
    sort_fn = facts.one("sort_printed_planes")

    def a_sortfn(I, st):
        from ..absint.domain import StrV, Top, VecV
        from ..absint.k2 import args_value
        av = args_value(facts, {})
        av = av.set("order_by", VecV(None, IntV("usize", None, 0, 1 << 20), StrV("opaque")))
        row = K3.row_with_hulls(facts, hulls)
        out = []
        for i in range(1, sort_fn.arg_count + 1):
            ty = sort_fn.locals[i]["ty"]["s"]
            if ty.endswith("Args"):
                out.append(ref_to(I, st, av))
            elif "Plane" in ty:
                rr = ref_to(I, st, row)
                elem = TupleV([ref_to(I, st, IntV("u32", None, 1, (1 << 24) - 1)), rr]) if "(&" in ty else rr
                out.append(ref_to(I, st, VecV(None, IntV("usize", None, 0, 1 << 30), elem), True))
            else:
                out.append(Top(why="arg %d" % i))
        return out
    try:
        I, v, st = K3.run_fn(facts, sort_fn.name, a_sortfn, "K3 -o sort, any letters")
        whole_ok = st is not None and not any(w[0] in ("unmodelled", "switch", "terminator") for w in I.warnings)
    except Broken:
        whole_ok = False
    if whole_ok:
        warns += _merge(sites, I)
    for cb in (facts.closures_of(sort_fn.name) if not whole_ok else []):
        nargs = cb.arg_count
        def a_key(I, st, nargs=nargs):
            row = K3.row_with_hulls(facts, hulls)
            args = [I_env(I, st, cb)]
            for i in range(nargs - 1):
                rr = ref_to(I, st, row)
                kk = ref_to(I, st, IntV("u32", None, 1, (1 << 24) - 1))
                tup = TupleV([kk, rr])
                args.append(ref_to(I, st, tup))
            return args
        I, v, st = K3.run_fn(facts, cb.name, a_key, "K3 sort key %s" % cb.name.split("::")[-1])
        warns += _merge(sites, I)
    # row rendering, every flag set
    sd = [b for b in facts.bodies.values() if b.name.endswith("::simple_display") and b.kind == "assoc"]
    for b in sd:
        def a_disp(I, st):
            row = K3.row_with_hulls(facts, hulls)
            flags_adt = [n for n in facts.adts if n.endswith("::DisplayFlags")][0]
            flags = StructV(flags_adt, {"bits": IntV("u8", None, 0, 63)})
            return [ref_to(I, st, row), ref_to(I, st, OpaqueV("fmt::Formatter"), True), ref_to(I, st, flags)]
        I, v, st = K3.run_fn(facts, b.name, a_disp, "K3 row rendering, any flags")
        warns += _merge(sites, I)
    # display flags from an -i list of any length and content
    try:
        from ..optexpr import eval_option_arg, find_flags_site
        from ..absint.domain import TBIT, VecV
        from ..absint.models2 import charset
        fb, fbi, ft = find_flags_site(facts)
        fdu = DefUse(fb)
        anystr = charset({l: TBIT for l in "wasAeQ"})
        lst = VecV(None, IntV("usize", None, 0, 1 << 20), anystr)
        I, v, st = K3.run_fn(facts, callee_name(ft), lambda I, st: [eval_option_arg(I, st, expr(fdu, a), lst) for a in ft["args"]],
                             "K3 display flags, any -i list")
        warns += _merge(sites, I)
        if v is None:
            rep.add(Finding("R01.1", "definite panic : display flags", "building the display flags panics for every -i list", None))
    except Broken:
        pass      # unrecognised construction shape: C14 R14.7 reports it
    for w in warns:
        rep.add(Finding("R01.1", "unmodelled callee : %s" % w[1], "the options/presentation path calls %s, which has no reviewed model (context '%s')" % (w[1], w[2]), None))


def I_env(I, st, cb):
    from ..absint.domain import ClosureV
    envty = cb.locals[1]["ty"]
    clos = ClosureV(cb.name, ())
    if envty["k"] == "ref":
        return ref_to(I, st, clos)
    return clos


def _termination(facts, rep):
    cg = call_graph(facts)
    roots = [b.name for b in facts.bodies.values() if b.kind == "closure" and b.parent and b.parent.endswith("spawn_reader_thread")]
    if not roots:
        raise Broken("C01 anchor: reader thread closure not found")
    reach = reachable_bodies(facts, roots, cg)
    # cycles
    color = {}
    cyc = []

    def dfs(n, stack):
        color[n] = 1
        for _, _, t in cg.get(n, []):
            if t and t in reach:
                if color.get(t) == 1:
                    cyc.append((n, t))
                elif t not in color:
                    dfs(t, stack + [t])
        color[n] = 2
    import sys
    sys.setrecursionlimit(10000)
    for r in roots:
        if r not in color:
            dfs(r, [r])
    rep.oblige(not cyc, "call graph acyclic")
    for a, b in cyc[:3]:
        rep.add(Finding("R01.2", "recursion : %s -> %s" % (a, b), "recursive call cycle through %s -> %s: termination not evident" % (a, b), facts.bodies[a].loc()))
    nloops = 0
    # the connect loop may sit above a helper that makes the connection (`connect_once(addr)?`): every body from which
    # TcpStream::connect is reachable counts as part of the TCP side
    direct = [b.name for b in facts.bodies.values() if b.kind != "promoted"
              and any((t["callee"].get("path") or "").endswith("net::TcpStream::connect") for _, t in b.calls())]
    tcp = [n for n in cg if n in facts.bodies and set(direct) & reachable_bodies(facts, [n], cg)]
    for n in sorted(reach):
        b = facts.bodies[n]
        cfg = CFG(b)
        du = DefUse(b)
        for h, blks in cfg.loops().items():
            nloops += 1
            # every cycle must pass an Iterator::next whose receiver type is a finite source, and whose None edge leaves the loop
            nexts = []
            for bi in blks:
                t = b.blocks[bi]["term"]
                if t["k"] == "call" and t["callee"].get("name") == "next":
                    nexts.append((bi, t))
            ok = False
            why = "no Iterator::next in the loop"
            for bi, t in nexts:
                ty = (t["callee"].get("arg0_ty") or {}).get("s", "") + " " + (t["callee"].get("instance") or "")
                if any(s in ty for s in FINITE_SOURCES):
                    # the call must dominate the back edges (be on every cycle)
                    if all(cfg.dominates(bi, a) for a, hh in cfg.back_edges() if hh == h):
                        ok = True
                else:
                    why = "iterates %s (not a known finite source)" % ty.strip()[:80]
            if not ok and _counted_loop(b, cfg, du, h, blks):
                ok = True
            if not ok and _read_count_loop(b, cfg, du, h, blks):
                ok = True
            if not ok and _reader_helper_loop(facts, b, cfg, du, h, blks):
                ok = True
            if not ok and _zero_read_leaves(b, cfg, du, h, blks):
                ok = True
            in_loop_calls = [b.blocks[bi]["term"] for bi in blks if b.blocks[bi]["term"]["k"] == "call"]
            connects_here = any((t["callee"].get("path") or "").endswith("net::TcpStream::connect") for t in in_loop_calls) or any(
                set(direct) & reachable_bodies(facts, [x], cg)
                for x in [callee_name(t) for t in in_loop_calls] + [e[2] for e in cg.get(n, []) if e[1] is None and e[0] in blks] if x in facts.bodies)
            if n in tcp and not ok and connects_here:
                # the reconnect loop is the one permitted non-terminating loop; it must be unreachable without --tcp (C18)
                rep.oblige(True, ("loop", n, "tcp"))
                continue
            rep.oblige(ok, ("loop", n, h))
            if not ok:
                rep.add(Finding("R01.2", "%s : loop without finite source" % n, "a loop in %s may not terminate: %s" % (n, why),
                                span_loc(b.blocks[h]["term"].get("span")) if b.blocks[h]["term"].get("span") else b.loc()))
    rep.instances("R01.2", nloops, floor=3, what="natural loops in bodies reachable from the reader thread")
    # the TCP loop is only entered when args.tcp is non-empty
    for r in roots:
        b = facts.bodies[r]
        calls = {callee_name(t): bi for bi, t in b.calls()}
        ok = any(n in tcp for n in calls if n != r) and any("is_empty" in (n or "") for n in calls)
        rep.oblige(ok, "tcp dispatch")
        if not ok:
            rep.add(Finding("R01.2", "%s : TCP loop not guarded by tcp.is_empty()" % r, "the endless reconnect loop is not confined to the --tcp source", b.loc()))


# calls that drop input without showing it to the line gate: what they drop may be a well-formed line
DISCARDING_IO = ("std::io::BufRead::skip_until", "std::io::Seek::seek", "std::io::Seek::seek_relative", "std::io::Seek::rewind",
                 "std::io::BufReader::<R>::seek_relative")
DISCARDING_ITER = ("skip", "step_by", "nth", "skip_while", "filter", "last", "advance_by", "nth_back")
LINE_ITERS = ("std::io::Split<", "std::io::Lines<")


def _discards(facts, rep):
    """R01.5: 'every well-formed line after a hostile one is still processed' - on the reader thread nothing may skip part of
    the source: no skip_until / seek on the reader, no skipping adaptor on the line iterator.  (Ending the stream at an I/O
    error - map_while(Result::ok) - is R01.3's business; splitting an over-long line is C13's.)"""
    cg = call_graph(facts)
    roots = [b.name for b in facts.bodies.values() if b.kind == "closure" and b.parent and b.parent.endswith("spawn_reader_thread")]
    reach = reachable_bodies(facts, roots, cg)
    n = 0
    for name in sorted(reach):
        b = facts.bodies[name]
        for bi, t in b.calls():
            c = t["callee"]
            p = c.get("path") or ""
            self_ty = " ".join([(c.get("arg0_ty") or {}).get("s", "")] + list(c.get("generic_args") or []) + [c.get("instance") or ""])
            on_source = p.startswith("std::io::") or any(x in self_ty for x in LINE_ITERS)
            if not on_source:
                continue
            n += 1
            bad = None
            if p in DISCARDING_IO:
                bad = "%s discards input up to a delimiter / position without looking at it" % p
            elif any(x in self_ty for x in LINE_ITERS) and p.startswith("std::iter::Iterator::") and p.split("::")[-1] in DISCARDING_ITER:
                bad = "%s on the line iterator skips lines" % p
            rep.oblige(bad is None, ("discard", name, bi))
            if bad:
                rep.add(Finding("R01.5", "%s : %s" % (name, p.split("::")[-1]),
                                "%s: %s - a well-formed line that follows (or is part of) what is dropped is never processed" % (name, bad),
                                span_loc(t.get("span")) if t.get("span") else b.loc()))
    rep.instances("R01.5", n, floor=3, what="calls on the input source / line iterator on the reader thread")


# Result::unwrap/expect outside the analysed contexts is accepted only on these environment results (documented assumptions:
# lock poisoning is unreachable with a single reader thread, file-system failures are environment exits, writing into a String
# cannot fail)
ENV_RESULTS = ("sync::Mutex::<T>::lock", "sync::RwLock::<T>::read", "sync::RwLock::<T>::write", "sync::poison::mutex::Mutex::<T>::lock",
               "sync::poison::rwlock::RwLock::<T>::read", "sync::poison::rwlock::RwLock::<T>::write", "fs::File::create", "fs::File::open",
               "fs::OpenOptions::open", "fmt::Write::write_fmt", "fmt::Write::write_str", "fmt::Write::write_char")
POINTER_CHECKS = ("misaligned", "nullptr", "invalid_enum")      # compiler-inserted validity checks (debug builds) on pointers made by safe std macros
PANIC_PATHS = ("core::panicking::", "std::rt::begin_panic", "std::rt::panic_fmt", "core::option::unwrap_failed", "core::option::expect_failed",
               "core::result::unwrap_failed", "core::slice::index::", "core::str::slice_error_fail")


def _small_step_counter(t):
    """`x + c` / `x - c`.. is not what this accepts - only a 64-bit counter stepped by a small constant: 2^48 loop iterations
    are outside any finite input that can be fed"""
    if t["kind"] not in ("overflow:Add",):
        return False
    ops = t.get("ops") or []
    if len(ops) != 2:
        return False
    c = [o["const"] for o in ops if "const" in o]
    if len(c) != 1 or c[0].get("ty") not in ("u64", "usize", "i64", "isize", "u128", "i128"):
        return False
    try:
        return 0 <= int(c[0].get("int")) <= 65536
    except (TypeError, ValueError):
        return False


_BITS = {"u8": 8, "i8": 8, "u16": 16, "i16": 16, "u32": 32, "i32": 32, "u64": 64, "i64": 64, "usize": 64, "isize": 64, "u128": 128, "i128": 128}


def _const_safe(b, t):
    """the assert's own operands are constants and the checked operation is in range (`1 << 5` on a u8)"""
    ops = t.get("ops") or []
    kind = t["kind"]
    if len(ops) != 2 or "const" not in ops[1]:
        return False
    try:
        r = int(ops[1]["const"].get("int"))
    except (TypeError, ValueError):
        return False
    if "const" in ops[0]:
        lty = ops[0]["const"].get("ty")
    else:
        pl = operand_place(ops[0])
        lty = b.locals[pl["local"]]["ty"]["s"] if pl is not None and not pl["proj"] else None
    if lty not in _BITS:
        return False
    if kind in ("overflow:Shl", "overflow:Shr"):
        return 0 <= r < _BITS[lty]
    if "const" in ops[0] and kind in ("overflow:Add", "overflow:Sub", "overflow:Mul"):
        try:
            l = int(ops[0]["const"].get("int"))
        except (TypeError, ValueError):
            return False
        v = l + r if kind.endswith("Add") else l - r if kind.endswith("Sub") else l * r
        lo, hi = (-(1 << (_BITS[lty] - 1)), (1 << (_BITS[lty] - 1)) - 1) if lty[0] == "i" else (0, (1 << _BITS[lty]) - 1)
        return lo <= v <= hi
    return False


def panic_sites(b):
    """-> [(terminator, description of the panic site or None if it is an accepted environment result, source callee)] of one
    body, by inspection only (for code that no E2 context interprets)"""
    out = []
    du = None
    for bi, blk in enumerate(b.blocks):
        if blk["cleanup"]:
            continue
        t = blk["term"]
        bad = None
        if t["k"] == "assert":
            if t["kind"] in POINTER_CHECKS or _small_step_counter(t) or _const_safe(b, t):
                continue
            bad = "%s check" % t["kind"]
        elif t["k"] == "call":
            c = t["callee"]
            nm, p = c.get("name"), (c.get("path") or "")
            if nm in ("unwrap", "expect", "unwrap_err", "expect_err", "unwrap_unchecked") and ("option::Option" in p or "result::Result" in p):
                du = du or DefUse(b)
                r = du.root(t["args"][0])
                src = callee_name(r[1]) if r[0] == "call" else None
                if "result::Result" in p and src and any(src.endswith(e) for e in ENV_RESULTS):
                    out.append((t, None, src))
                    continue
                bad = "%s of %s" % (nm, "the result of %s" % src if src else "a computed %s" % ("Option" if "Option" in p else "Result"))
            elif any(p.startswith(x) for x in PANIC_PATHS):
                bad = "explicit panic (%s)" % p.split("::")[-1]
            elif nm in ("index", "index_mut") and "ops::Index" in p:
                if any("RangeFull" in g for g in (c.get("generic_args") or [])) or "RangeFull" in (c.get("ty") or ""):
                    continue            # `&a[..]`: the full range is always in bounds
                bad = "indexing call"
            elif nm in ("div", "rem", "add", "sub", "mul", "shl", "shr", "neg") and p.startswith("std::ops::") and c.get("instance") is None:
                bad = "operator %s on a library type" % nm
        if bad is not None:
            out.append((t, bad, None))
    return out


def _completeness(facts, rep):
    """R01.6: R01.1 discharges the obligations E2 meets in the contexts it runs (line gate, decode and update path, option and
    presentation units). The rest of the reader thread - the line loop, the connect loop, set-up and printing glue - is not
    interpreted; this rule makes that split explicit and checks that such a body has no panic site of its own: no Assert
    terminator (overflow, bounds, division), no Option unwrap, no indexing call, no explicit panic, and Result::unwrap/expect
    only on the environment results listed in ENV_RESULTS."""
    cg = call_graph(facts)
    roots = [b.name for b in facts.bodies.values() if b.kind == "closure" and b.parent and b.parent.endswith("spawn_reader_thread")]
    reach = reachable_bodies(facts, roots, cg)
    n = 0
    nsite = 0
    for name in sorted(reach):
        if name in ENTERED:
            continue
        b = facts.bodies[name]
        if b.kind == "promoted" or "::tests::" in name:
            continue
        n += 1
        for t, bad, src in panic_sites(b):
            nsite += 1
            if bad is None:
                rep.oblige(True, ("env-result", name, src))
                continue
            rep.oblige(False, ("uncovered", name, bad))
            rep.add(Finding("R01.6", "%s : %s outside the analysed contexts" % (name, bad),
                            "%s is on the reader thread but is not part of any analysed context, and it contains a panic site (%s): "
                            "nothing shows it safe for every input" % (name, bad), span_loc(t.get("span"))))
    rep.extra["bodies_outside_contexts"] = n
    rep.instances("R01.6", n, floor=5, what="reader-thread bodies outside the analysed contexts, scanned for panic sites (%d accepted environment results)" % nsite)


def _locks(facts, rep):
    """R01.4: std locks are not re-entrant - requesting a lock whose guard the same thread still holds wedges the decoder"""
    from .. import locks
    summ = locks.summaries(facts)
    n = 0
    for name, b in sorted(facts.bodies.items()):
        if b.kind == "promoted" or "::tests::" in name:
            continue
        k, fs = locks.check_body(facts, b, summ)
        n += k
        for bb, what, loc in fs:
            rep.oblige(False, ("lock", name, bb))
            rep.add(Finding("R01.4", "%s : %s" % (name, what.split(" while ")[0]),
                            "%s: %s - std::sync locks are not re-entrant, the thread blocks forever (no panic, no output)" % (name, what), loc))
    rep.oblige(True, ("locks-examined",))
    rep.instances("R01.4", n, floor=4, what="lock requests followed through the may-hold dataflow")


def _reader_helper_loop(facts, b, cfg, du, h, blks):
    """`while let Some(line) = next_line(&mut reader, ..)`: every cycle calls a crate helper that reads from the input
    (read_until / read inside it) and the loop is left when that helper's Option/Result says so"""
    from ..mirq import expr
    from ..region import _reach_names
    blks = set(blks)
    backs = [a for a, hh in cfg.back_edges() if hh == h]
    helpers = []
    for bi in blks:
        t = b.blocks[bi]["term"]
        if t["k"] == "call" and callee_name(t) in facts.bodies and all(cfg.dominates(bi, a) for a in backs):
            names = _reach_names(facts, callee_name(t))
            if any(n in ("std::io::BufRead::read_until", "std::io::Read::read") or n.endswith("BufRead::read_until") for n in names):
                helpers.append((bi, t))
    for hb, ht in helpers:
        for bi in sorted(blks):
            t = b.blocks[bi]["term"]
            if t["k"] != "switch":
                continue
            succ = [x for _, x in t["targets"]] + [t["otherwise"]]
            if all(x in blks for x in succ):
                continue
            e = expr(du, t["discr"])
            if e[0] == "discr" and e[1][0] == "call" and e[1][1] == callee_name(ht):
                return True
            if e[0] == "call" and e[1] == callee_name(ht):          # the helper answers "is there another line" as a bool
                return True
    return False


def _read_count_loop(b, cfg, du, h, blks):
    """`loop { if reader.read_until(..)? == 0 { break } .. }`: every cycle reads from the (finite or blocking) input and the
    loop is left when the reader reports end of input"""
    from ..mirq import expr
    blks = set(blks)
    backs = [a for a, hh in cfg.back_edges() if hh == h]
    reads = [bi for bi in blks if b.blocks[bi]["term"]["k"] == "call" and (b.blocks[bi]["term"]["callee"].get("path") or "") in
             ("std::io::BufRead::read_until", "std::io::Read::read", "std::io::BufRead::skip_until")]
    reads = [bi for bi in reads if all(cfg.dominates(bi, a) for a in backs)]
    if not reads:
        return False
    for bi in sorted(blks):
        t = b.blocks[bi]["term"]
        if t["k"] != "switch":
            continue
        succ = [x for _, x in t["targets"]] + [t["otherwise"]]
        if all(x in blks for x in succ) or not all(cfg.dominates(bi, a) for a in backs):
            continue
        e = expr(du, t["discr"])
        if isinstance(e, tuple) and e[0] == "bin" and e[1] in ("Eq", "Ne") and ("const", 0) in (e[2], e[3]):
            o = e[3] if e[2] == ("const", 0) else e[2]
            if o[0] == "path":
                o = o[1]
            if o[0] == "call" and o[1].split("::")[-1] in ("read_until", "read", "skip_until"):
                return True
    return False


def _zero_read_leaves(b, cfg, du, h, blks):
    """`while matches!(r.read_until(..), Ok(n) if n > 0) { .. }` and friends: every cycle reads from the input, and when the
    read reports 0 bytes (end of input) control leaves the loop.  Decided by following, from each comparison of the count
    with a constant, the outcome for count = 0 through blocks that only move constants around (the bool temporary of
    `matches!` / `&&`)."""
    from ..lineexpr import walk
    from ..mirq import expr
    blks = set(blks)
    backs = [a for a, hh in cfg.back_edges() if hh == h]
    reads = [bi for bi in blks if b.blocks[bi]["term"]["k"] == "call" and (b.blocks[bi]["term"]["callee"].get("path") or "") in
             ("std::io::BufRead::read_until", "std::io::Read::read", "std::io::BufRead::read_line")]
    reads = [bi for bi in reads if all(cfg.dominates(bi, a) for a in backs)]
    if not reads:
        return False

    def is_count(x):
        return any(y[0] == "call" and isinstance(y[1], str) and y[1].split("::")[-1] in ("read_until", "read", "read_line") for y in walk(x))

    def eval0(e):
        """value of a comparison tree when the byte count is 0"""
        if e[0] == "const" and isinstance(e[1], (int, bool)):
            return e[1]
        if e[0] in ("path", "call") and is_count(e):
            return 0
        if e[0] == "cast":
            return eval0(e[2])
        if e[0] == "un" and e[1] == "Not":
            v = eval0(e[2])
            return None if v is None else (not v)
        if e[0] == "bin":
            l, r = eval0(e[2]), eval0(e[3])
            if l is None or r is None:
                return None
            f = {"Eq": lambda: l == r, "Ne": lambda: l != r, "Lt": lambda: l < r, "Le": lambda: l <= r, "Gt": lambda: l > r, "Ge": lambda: l >= r}.get(e[1])
            return f() if f else None
        return None

    def walk_out(start, env):
        cur = start
        for _ in range(40):
            if cur not in blks:
                return True
            if cur == h:
                return False
            blk = b.blocks[cur]
            for s in blk["stmts"]:
                if s["k"] == "assign" and not s["place"]["proj"]:
                    rv = s["rv"]
                    if rv["k"] == "use" and "const" in rv["x"] and "int" in rv["x"]["const"]:
                        env[s["place"]["local"]] = int(rv["x"]["const"]["int"])
                    elif rv["k"] == "use" and operand_place(rv["x"]) and not operand_place(rv["x"])["proj"] and operand_place(rv["x"])["local"] in env:
                        env[s["place"]["local"]] = env[operand_place(rv["x"])["local"]]
                    else:
                        env.pop(s["place"]["local"], None)
            t = blk["term"]
            if t["k"] == "goto":
                cur = t["target"]
            elif t["k"] in ("drop", "assert") or (t["k"] == "call" and (t["callee"].get("path") or "").startswith("std::")
                                                   and t["callee"].get("name") in ("drop", "drop_in_place")):
                cur = t.get("target")
                if cur is None:
                    return False
            elif t["k"] == "switch":
                pl = operand_place(t["discr"])
                if pl is None or pl["proj"] or pl["local"] not in env:
                    return False
                v = env[pl["local"]]
                nxt = t["otherwise"]
                for val, bb2 in t["targets"]:
                    if int(val) == v:
                        nxt = bb2
                cur = nxt
            else:
                return False
        return False

    for bi in sorted(blks):
        t = b.blocks[bi]["term"]
        if t["k"] != "switch":
            continue
        e = expr(du, t["discr"])
        if not (isinstance(e, tuple) and e[0] == "bin" and is_count(e)):
            continue
        v = eval0(e)
        if v is None:
            continue
        v = int(v)
        nxt = t["otherwise"]
        for val, bb2 in t["targets"]:
            if int(val) == v:
                nxt = bb2
        if walk_out(nxt, {}):
            return True
    return False


def _counted_loop(b, cfg, du, h, blks):
    """`while i < N { ...; i += k }` (or the decrementing mirror): an exit decision compares a local that every cycle
    moves by a positive constant towards a loop-invariant bound, and nothing else in the loop writes that local."""
    from ..mirq import expr, operand_place
    blks = set(blks)
    backs = [a for a, hh in cfg.back_edges() if hh == h]
    for bi in sorted(blks):
        t = b.blocks[bi]["term"]
        if t["k"] != "switch":
            continue
        succ = [x for _, x in t["targets"]] + [t["otherwise"]]
        if all(x in blks for x in succ):
            continue                      # not an exit decision
        if not all(cfg.dominates(bi, a) for a in backs):
            continue                      # the test is not on every cycle
        e = expr(du, t["discr"])
        if not (isinstance(e, tuple) and e[0] == "bin" and e[1] in ("Lt", "Le", "Gt", "Ge", "Ne")):
            continue
        for side, other, up_ops in ((e[2], e[3], ("Lt", "Le", "Ne")), (e[3], e[2], ("Gt", "Ge", "Ne"))):
            if not (isinstance(side, tuple) and side[0] == "multi" and not side[2]):
                continue
            L = side[1]
            # the bound must be loop-invariant: a constant, an argument, or a local not written inside the loop
            if other[0] == "multi" and any(d[1] in blks for d in du.defs.get(other[1], [])):
                continue
            if other[0] not in ("const", "arg", "multi", "call", "path", "cast"):
                continue
            inside = [d for d in du.defs.get(L, []) if d[1] in blks]
            if len(inside) != 1 or inside[0][0] != "stmt":
                continue
            kind, dbb, si, node = inside[0]
            if node["place"]["proj"] or node["rv"]["k"] != "use":
                continue
            ie = expr(du, node["rv"]["x"])
            if ie[0] == "path":
                ie = ie[1]
            if not (ie[0] == "bin" and ie[2] == ("multi", L, ()) and ie[3][0] == "const" and isinstance(ie[3][1], int) and ie[3][1] > 0):
                continue
            step_up = ie[1] in ("Add", "AddWithOverflow")
            step_down = ie[1] in ("Sub", "SubWithOverflow")
            going_up = e[1] in up_ops
            if e[1] == "Ne" and ie[3][1] != 1:
                continue
            if not ((step_up and going_up) or (step_down and (not going_up or e[1] == "Ne"))):
                continue
            if all(cfg.dominates(dbb, a) for a in backs):
                return True
    return False


def _eof(facts, rep):
    main = facts.bin_bodies.get("main")
    if main is None:
        raise Broken("C01 anchor: main")
    cfg = CFG(main)
    # main must not exit/abort/panic on its own after spawning except via the thread result
    bad = []
    for bi, t in main.calls():
        p = t["callee"].get("path") or ""
        if p in ("std::process::exit", "std::process::abort"):
            bad.append(p)
    rep.oblige(not bad, "main exits only by returning")
    for p in bad:
        rep.add(Finding("R01.3", "main : %s" % p, "main calls %s" % p, main.loc()))
    # read_from_file returns the line loop's result unchanged
    rff = [b for b in facts.bodies.values() if any((t["callee"].get("path") or "").endswith("fs::File::open") for _, t in b.calls())]
    ok = len(rff) == 1
    if ok:
        b = rff[0]
        du = DefUse(b)
        from ..mirq import expr_place, show
        cases = []
        for bi, blk in enumerate(b.blocks):
            for s in blk["stmts"]:
                if s["k"] == "assign" and s["place"]["local"] == 0:
                    cases.append(s)
        # the result of the line reader (the crate call that is handed the table) must flow into the returned value: directly,
        # through Result combinators (`.map(|_| ())`), or through `?` (branch -> from_residual). Dropping it (`let _ =`,
        # `.ok()`, logging the error) makes an I/O error look like a clean end of file.
        def _locals_of(j, acc):
            if isinstance(j, dict):
                if "local" in j and isinstance(j["local"], int):
                    acc.add(j["local"])
                for v in j.values():
                    _locals_of(v, acc)
            elif isinstance(j, list):
                for v in j:
                    _locals_of(v, acc)
            return acc
        tainted = set()
        for _, t in b.calls():
            if callee_name(t) in facts.bodies and any("Planes" in b.locals[pl["local"]]["ty"]["s"] for pl in (operand_place(a) for a in t["args"]) if pl):
                tainted.add(t["dest"]["local"])
        changed = bool(tainted)
        while changed:
            changed = False
            for bi, blk in enumerate(b.blocks):
                if blk["cleanup"]:
                    continue
                for s_ in blk["stmts"]:
                    if s_["k"] == "assign" and s_["place"]["local"] not in tainted and _locals_of(s_["rv"], set()) & tainted:
                        tainted.add(s_["place"]["local"])
                        changed = True
                t = blk["term"]
                if t["k"] == "call" and t["dest"]["local"] not in tainted and _locals_of(t["args"], set()) & tainted:
                    p_ = t["callee"].get("path") or ""
                    # a conversion that forgets the error (`.ok()`, `.is_ok()`, `.unwrap_or_default()`..) does not carry the result on
                    if t["callee"].get("name") in ("ok", "err", "is_ok", "is_err", "unwrap_or", "unwrap_or_default", "unwrap_or_else", "drop"):
                        continue
                    tainted.add(t["dest"]["local"])
                    changed = True
        ok = 0 in tainted
    rep.oblige(ok, "file reader returns the loop result")
    if not ok:
        rep.add(Finding("R01.3", "file reader does not return the line loop's result", "read_from_file does not hand back the result of the line loop", None))
    rep.instances("R01.3", 2, floor=2)
