"""C10 — Comm-B data are shown only when valid, advertised and correctly decoded.

R10.1 capability gate: for every CA value and -R setting, MB-derived fields are stored only if CA >= 4 or -R;
R10.2 register advertisement: fields of BDS 4,0 / 5,0 / 6,0 are stored only if the row's BDS1,7 flag for that register is set, or -R;
R10.3 validation: with one status bit of a register cleared, or one of its reserved bits set, none of that register's fields is stored;
R10.4 precedence: an MB field that satisfies both the 1,7 and the 4,0 rules is taken as 1,7;
R10.5 converse / plausible range [necessary]: with all status bits set and only that register advertised, each field's accepted
      range (per sign context) includes the plausible range the property names (|roll|<=50, GS<=600, TAS<=500, Mach<=1,
      |rates|<=6000, either direction of turn/climb), and BDS5,0 stores are guarded by |GS-TAS| < 200 over the right fields;
R10.6 decoding: exact affine forms for the linear fields (selected altitude 16f, GS/TAS 2f, IAS f, track-angle rate), bit
      provenance and range for the truncating ones (roll, angles, pressure setting, rates).
"""
from ..absint.batch import k2_results
from ..absint.domain import Aff, EnumV, FloatV, IntV, show_term
from ..absint.query import accepted, frame_deps, int_aff, option_some_payload, sel, stored_fields, stores_of, term_bits, term_find
from ..facts import Broken
from ..report import Finding

LEVEL = "other"

F40 = {"selected_altitude", "target_altitude_source", "barometric_pressure_setting"}
F50 = {"roll_angle", "track", "track_angle_rate", "grspeed", "true_airspeed", "bds_5_0_timestamp", "track_source", "track_timestamp"}
F60 = {"heading", "indicated_airspeed", "mach_number", "vrate", "vrate_source", "heading_source", "heading_timestamp"}
F17 = {"capability"}
FMET = {"temperature", "wind", "humidity", "turbulence", "pressure"}
MB_FIELDS = F40 | F50 | F60 | F17 | FMET | {"ais", "threat_encounter"}
REG_FIELDS = {"bds40": F40, "bds50": F50, "bds60": F60, "bds17": F17}


def field_aff(sb, eb, scale=1):
    n = eb - sb + 1
    return Aff(0, {("b", sb + i): scale * (1 << (n - 1 - i)) for i in range(n)})


def aff_matches(got, want, hi):
    """got == want, except that terms of `want` too large for the accepted range may be missing (bit forced to 0 by a filter)"""
    if got is None:
        return False
    if got.c != want.c:
        return False
    for a, c in got.t.items():
        if want.t.get(a) != c:
            return False
    for a, c in want.t.items():
        if a not in got.t and not (c > hi):
            return False
    return True


def run(facts, rep, tier):
    rep.explanation = (
        "E2 abstract interpretation of DF20/21 contexts: capability value, -R and the BDS1,7 flags of the row are enumerated, "
        "the 56-bit MB field is symbolic except for the status / reserved / sign bits a context fixes. The store inventory "
        "of each context decides gating, advertisement, validation and precedence; the stored abstract values (exact affine "
        "forms, refined intervals, float terms) and their path-condition atoms decide decoding and the accepted ranges."
    )
    rep.trusted = ["rustc MIR", "E2 transfer functions", "ICAO Doc 9871 register layouts (in the rule / sq/absint/contexts.py)"]
    for rid, txt, k in [("R10.1", "CA>=4 or -R gates every MB-derived store", "P"), ("R10.2", "BDS1,7 flag or -R gates 4,0/5,0/6,0", "P"),
                        ("R10.3", "status bit 0 / reserved bit 1 => register not decoded", "P"), ("R10.4", "1,7 before 4,0", "P"),
                        ("R10.5", "accepted ranges include the plausible ranges; |GS-TAS|<200 guard", "N"),
                        ("R10.6", "field decoding (affine forms / provenance / ranges)", "P")]:
        rep.rule(rid, txt, k)
    out = k2_results(facts, tier)
    results = out["results"]
    B = sel(results, "B")
    for r in B:
        if not accepted(r):
            raise Broken("C10: context %s not accepted: %s" % (r.ctx["label"], r.diverged))
    # ---- R10.1
    n = 0
    for r in sel(B, "gate"):
        n += 1
        ca, R = r.ctx["CA"], r.ctx["R"]
        allowed = ca >= 4 or R
        st = set(stored_fields(r)) & MB_FIELDS
        if not allowed:
            ok = not st
            rep.oblige(ok, ("gate", r.ctx["label"]))
            if not ok:
                rep.add(Finding("R10.1", "MB data stored with CA=%d and no -R (DF%d)" % (ca, r.df),
                                "context '%s': fields %s are written although the recorded capability is %d (<4) and -R is off"
                                % (r.ctx["label"], sorted(st), ca), None))
        else:
            # the gate must not be stricter than the property: something MB-derived is reachable
            ok = bool(st)
            rep.oblige(ok, ("gate-open", r.ctx["label"]))
            if not ok:
                rep.add(Finding("R10.1", "no MB data decoded with CA=%d R=%d (DF%d)" % (ca, R, r.df),
                                "context '%s': nothing is decoded from MB although the gate (CA>=4 or -R) holds" % r.ctx["label"], None))
    rep.instances("R10.1", n, floor=8, what="(CA, -R, DF) contexts")
    rep.sample({"rule": "R10.1", "contexts": [r.ctx["label"] for r in sel(B, "gate")][:6]})
    # ---- R10.2
    n = 0
    for r in sel(B, "adv") + sel(B, "adv-relaxed"):
        n += 1
        st = set(stored_fields(r))
        relaxed = "adv-relaxed" in r.ctx["tags"]
        offs = [t[3:] for t in r.ctx["tags"] if t.startswith("no-")]
        if "nocaps" in r.ctx["tags"]:
            offs = ["bds40", "bds50", "bds60"]
        for off in offs:
            hit = st & REG_FIELDS[off]
            if not relaxed:
                ok = not hit
                rep.oblige(ok, ("adv", r.ctx["label"], off))
                if not ok:
                    rep.add(Finding("R10.2", "%s decoded although not advertised" % off,
                                    "context '%s': %s written although the row's BDS1,7 report does not advertise %s and -R is off"
                                    % (r.ctx["label"], sorted(hit), off), None))
            else:
                ok = bool(hit)
                rep.oblige(ok, ("adv-relaxed", r.ctx["label"], off))
                if not ok:
                    rep.add(Finding("R10.2", "%s never decoded under -R" % off, "context '%s': -R should lift the advertisement requirement" % r.ctx["label"], None))
    # ... and what a 1,7 report advertised stays recorded until the next 1,7 report: no other frame rewrites the adverts
    from ..absint.k2 import changed_fields
    seen_lab = set()
    for r in results:
        if not accepted(r) or r.df is None or r.post_update is None:
            continue
        if r.df in (20, 21):
            continue          # a Comm-B reply may be a 1,7 report itself
        n += 1
        ch = changed_fields(r.pre, r.post_update)
        ok = "capability.1" not in ch
        rep.oblige(ok, ("adverts-persist", r.ctx["label"]))
        key = (r.df, bool(r.ctx.get("U")))
        if not ok and key not in seen_lab:
            seen_lab.add(key)
            rep.add(Finding("R10.2", "register adverts rewritten by a DF%d frame (%s path)" % (r.df, "U" if r.ctx.get("U") else "D"),
                            "context '%s': a DF%d frame changes the row's BDS 1,7 register adverts: registers that were advertised stop being "
                            "decoded (or the reverse) until the next 1,7 report" % (r.ctx["label"], r.df), None))
    rep.instances("R10.2", n, floor=6)
    # ---- R10.3
    n = 0
    for r in sel(B, "invalid"):
        n += 1
        reg = [t for t in r.ctx["tags"] if t in REG_FIELDS][0]
        what = [t for t in r.ctx["tags"] if t.startswith("status") or t.startswith("reserved")][0]
        hit = set(stored_fields(r)) & REG_FIELDS[reg]
        ok = not hit
        rep.oblige(ok, ("invalid", r.ctx["label"]))
        if not ok:
            rep.add(Finding("R10.3", "%s decoded with %s" % (reg, "a status bit cleared" if what.startswith("status") else "a reserved bit set"),
                            "context '%s': %s written although %s" % (r.ctx["label"], sorted(hit), what), None, {"bit": what}))
    rep.instances("R10.3", n, floor=15, what="single-bit invalidations")
    # ---- R10.4
    n = 0
    for r in sel(B, "prec"):
        n += 1
        st = set(stored_fields(r))
        if "bds17>bds40" in r.ctx["tags"]:
            ok = "capability" in st and not (st & F40)
            rep.oblige(ok, ("prec", r.ctx["label"]))
            if not ok:
                rep.add(Finding("R10.4", "precedence 1,7 over 4,0", "context '%s': stored %s; expected the capability report and no 4,0 field"
                                % (r.ctx["label"], sorted(st & (F40 | F17))), None))
        if "bds50>bds60" in r.ctx["tags"]:
            ok = F50 <= st and not (st & (F60 | FMET | F40))
            rep.oblige(ok, ("prec", r.ctx["label"]))
            if not ok:
                rep.add(Finding("R10.4", "first match wins: 5,0 over 6,0 / meteo", "context '%s' (an MB field valid as 5,0 and as 6,0): stored %s; "
                                "expected all 5,0 fields and nothing of 6,0 / 4,4 / 4,5" % (r.ctx["label"], sorted(st & (F50 | F60 | FMET | F40))), None))
    rep.instances("R10.4", n, floor=2)
    # ---- R10.5 (converse clause at the sign/magnitude edge): sign bit set, magnitude zero is still a non-zero value field
    for r in sel(B, "edge"):
        reg = "bds50" if "bds50" in r.ctx["tags"] else "bds60"
        need = (F50 if reg == "bds50" else F60) - {"bds_5_0_timestamp", "track_timestamp", "heading_timestamp", "track_source", "heading_source", "vrate_source"}
        st = set(stored_fields(r))
        ok = need <= st
        rep.oblige(ok, ("edge", r.ctx["label"]))
        if not ok:
            rep.add(Finding("R10.5", "%s not recognised when a signed field is exactly -2^n (sign set, magnitude zero)" % reg,
                            "context '%s': a valid, advertised %s register whose %s is not decoded (missing %s): a value field with only "
                            "its sign bit set is non-zero" % (r.ctx["label"], reg, r.ctx["tags"][-1], sorted(need - st)), None))
    # ---- R10.5 / R10.6 on the forced-valid contexts
    n5 = n6 = 0

    def last(r, f):
        s = stores_of(r, f)
        return s[-1] if s else None

    def need(r, f, lo, hi, rule="R10.5"):
        s = last(r, f)
        lab = r.ctx["label"]
        if s is None:
            rep.oblige(False, (rule, lab, f))
            rep.add(Finding(rule, "%s never stored in a valid %s" % (f, lab.split()[1]), "context '%s': %s is not decoded" % (lab, f), None))
            return None
        only, p = option_some_payload(s[1])
        if p is None:
            p = s[1] if isinstance(s[1], (IntV, FloatV)) else None
        if p is not None and not isinstance(p, (IntV, FloatV)):
            p = None
        if p is None:
            rep.oblige(False, (rule, lab, f))
            rep.add(Finding(rule, "%s has no value in a valid %s" % (f, lab.split()[1]), "context '%s': %s = %r" % (lab, f, s[1]), None))
            return None
        ok = p.lo <= lo and p.hi >= hi
        rep.oblige(ok, (rule, lab, f))
        if not ok:
            rep.add(Finding(rule, "%s accepted range in %s" % (f, " ".join(lab.split()[1:])),
                            "context '%s': %s is accepted only in [%s, %s]; the plausible range [%s, %s] must be accepted" % (lab, f, p.lo, p.hi, lo, hi), None))
        return p

    for r in sel(B, "valid"):
        tags = r.ctx["tags"]
        lab = r.ctx["label"]
        fx = r.ctx["fixed"]
        if "bds40" in tags:
            n5 += 1
            p = need(r, "selected_altitude", 16, 65520)
            if p is not None:
                n6 += 1
                ok = aff_matches(int_aff(p), field_aff(34, 45, 16), p.hi)
                rep.oblige(ok, ("dec", lab, "selected_altitude"))
                if not ok:
                    rep.add(Finding("R10.6", "selected altitude decode", "context '%s': stored %r, expected 16 * bits 34-45" % (lab, p), None))
            p = need(r, "barometric_pressure_setting", 800, 1209)
            if p is not None:
                n6 += 1
                ok = frame_deps(p, control=False) <= set(range(60, 72)) and p.lo >= 800
                rep.oblige(ok, ("dec", lab, "baro"))
                if not ok:
                    rep.add(Finding("R10.6", "pressure setting decode", "context '%s': stored %r (bits %s), expected bits 60-71 / 10 + 800"
                                    % (lab, p, sorted(frame_deps(p, control=False))), None))
        if "bds50" in tags:
            n5 += 1
            s_roll, s_trk, s_rate = fx[34], fx[45], fx[68]
            p = need(r, "roll_angle", (-50 if s_roll else 0), (-1 if s_roll else 50))
            if p is not None:
                n6 += 1
                ok = frame_deps(p, control=False) <= set(range(35, 44)) and -90 <= p.lo and p.hi <= 89
                rep.oblige(ok, ("dec", lab, "roll"))
                if not ok:
                    rep.add(Finding("R10.6", "roll angle decode", "context '%s': %r over bits %s" % (lab, p, sorted(frame_deps(p, control=False))), None))
            p = need(r, "track", (180 if s_trk else 0), (359 if s_trk else 179))
            if p is not None:
                n6 += 1
                ok = frame_deps(p, control=False) <= set(range(46, 56))
                rep.oblige(ok, ("dec", lab, "track"))
                if not ok:
                    rep.add(Finding("R10.6", "true track decode", "context '%s': %r over bits %s" % (lab, p, sorted(frame_deps(p, control=False))), None))
            p = need(r, "track_angle_rate", (-16 if s_rate else 0), (-1 if s_rate else 15))
            if p is not None:
                n6 += 1
                want = Aff(-16 if s_rate else 0, {("b", 69): 8, ("b", 70): 4, ("b", 71): 2, ("b", 72): 1})
                ok = int_aff(p) == want
                rep.oblige(ok, ("dec", lab, "rate"))
                if not ok:
                    rep.add(Finding("R10.6", "track angle rate decode (sign %d)" % s_rate, "context '%s': stored %r, expected %s" % (lab, p, want.show()), None))
            for f, sb, eb, hi in (("grspeed", 57, 66, 600), ("true_airspeed", 79, 88, 500)):
                p = need(r, f, 2, hi)
                if p is not None:
                    n6 += 1
                    ok = aff_matches(int_aff(p), field_aff(sb, eb, 2), p.hi)
                    rep.oblige(ok, ("dec", lab, f))
                    if not ok:
                        rep.add(Finding("R10.6", "%s decode" % f, "context '%s': stored %r, expected 2 * bits %d-%d" % (lab, p, sb, eb), None))
            # relational guard
            s = last(r, "roll_angle")
            if s is not None:
                atoms = [t for t, tr in s[2] if isinstance(t, tuple) and t and t[0] == "Lt" and tr is True and term_find(t, "abs_diff")]
                ok = False
                for t in atoms:
                    ad = term_find(t, "abs_diff")[0]
                    b0, b1 = term_bits(ad[1]), term_bits(ad[2])
                    if t[2] == 200 and ((b0 <= set(range(57, 67)) and b1 <= set(range(79, 89))) or (b1 <= set(range(57, 67)) and b0 <= set(range(79, 89)))) and b0 and b1:
                        ok = True
                rep.oblige(ok, ("rel", lab))
                if not ok:
                    rep.add(Finding("R10.5", "BDS5,0 |GS-TAS| < 200 guard", "context '%s': the 5,0 stores are not guarded by |GS - TAS| < 200 (found %s)"
                                    % (lab, [show_term(t)[:80] for t in atoms]), None))
        if "bds60" in tags:
            n5 += 1
            s_hdg, s_baro, s_ivv = fx[34], fx[68], fx[79]
            p = need(r, "heading", (180 if s_hdg else 0), (359 if s_hdg else 179))
            if p is not None:
                n6 += 1
                ok = frame_deps(p, control=False) <= set(range(35, 45))
                rep.oblige(ok, ("dec", lab, "heading"))
                if not ok:
                    rep.add(Finding("R10.6", "magnetic heading decode", "context '%s': %r over bits %s" % (lab, p, sorted(frame_deps(p, control=False))), None))
            p = need(r, "indicated_airspeed", 1, 1023)
            if p is not None:
                n6 += 1
                ok = aff_matches(int_aff(p), field_aff(46, 55, 1), p.hi)
                rep.oblige(ok, ("dec", lab, "ias"))
                if not ok:
                    rep.add(Finding("R10.6", "indicated airspeed decode", "context '%s': stored %r, expected bits 46-55" % (lab, p), None))
            p = need(r, "mach_number", 0.004, 1.0)
            if p is not None:
                n6 += 1
                tb = term_bits(p.term) if isinstance(p, FloatV) else set()
                mul = term_find(p.term, "Mul") if isinstance(p, FloatV) else []
                ok = tb and tb <= set(range(57, 67)) and any(0.004 in m for m in mul)
                rep.oblige(ok, ("dec", lab, "mach"))
                if not ok:
                    rep.add(Finding("R10.6", "Mach decode", "context '%s': term %s" % (lab, show_term(getattr(p, "term", None))[:120]), None))
            # vertical rate: barometric rate preferred, either direction
            # with the barometric sign bit clear the validity gate (status set and sign|value != 0) makes the barometric value
            # non-zero, so the barometric rate is always the one shown; with it set, a zero barometric value falls back to the
            # inertial rate (either sign)
            if not s_baro:
                want_lo, want_hi = 32, 6000 - 16
            else:
                want_lo, want_hi = -6000 + 16, (-32 if s_ivv else 5984)
            p = need(r, "vrate", want_lo, want_hi)
            if p is not None:
                n6 += 1
                ok = frame_deps(p, control=False) <= set(range(68, 89))
                rep.oblige(ok, ("dec", lab, "vrate60"))
                if not ok:
                    rep.add(Finding("R10.6", "BDS6,0 vertical rate decode", "context '%s': %r over bits %s" % (lab, p, sorted(frame_deps(p, control=False))), None))
        if "bds17" in tags:
            n5 += 1
            st = set(stored_fields(r))
            ok = "capability" in st
            rep.oblige(ok, ("bds17", lab))
            if not ok:
                rep.add(Finding("R10.5", "valid BDS1,7 not recorded", "context '%s' does not store the capability report" % lab, None))
            else:
                cap = r.post_update.fields["capability"].items[1]
                exp = {"bds40": 41, "bds50": 48, "bds60": 56, "bds44": 45}
                for k, bit in exp.items():
                    n6 += 1
                    v = cap.fields.get(k)
                    fd = frame_deps(v, control=False) if v is not None else None
                    ok = fd == {bit}
                    rep.oblige(ok, ("cap", k))
                    if not ok:
                        rep.add(Finding("R10.6", "BDS1,7 flag %s" % k, "capability flag %s is taken from bits %s, expected bit %d" % (k, sorted(fd) if fd is not None else None, bit), None))
    # ---- R10.7: the gate reads the capability the row has recorded; that record must come from a frame that carries a
    # transponder capability (the CA field of DF11 / DF17) - a DF18 control field or any other format writing it opens or
    # closes the Comm-B gate on data that is not a capability report
    rep.rule("R10.7", "the recorded capability the gate reads is written only by DF11 / DF17 frames (CA field)", "N")
    from ..absint.query import unchanged
    n7 = 0
    seen7 = set()
    for r in sel(results, "G") + sel(results, "GR"):
        if r.df is None or r.df in (11, 17) or r.post_update is None or r.pre is None:
            continue
        n7 += 1
        ok = unchanged(r, "capability")
        rep.oblige(ok, ("capability-writer", r.ctx["label"]))
        if not ok and (r.df, bool(r.ctx.get("U"))) not in seen7:
            seen7.add((r.df, bool(r.ctx.get("U"))))
            rep.add(Finding("R10.7", "capability recorded from a DF%d frame (%s path)" % (r.df, "U" if r.ctx.get("U") else "D"),
                            "context '%s': a DF%d frame changes the capability the Comm-B gate reads (to %r); DF%d has no CA field, so "
                            "the gate opens or closes without a capability report and without -R"
                            % (r.ctx["label"], r.df, r.post_update.fields.get("capability"), r.df), None))
    rep.instances("R10.7", n7, floor=20, what="contexts of formats without a CA field")
    rep.instances("R10.5", n5, floor=5, what="forced-valid register contexts")
    rep.instances("R10.6", n6, floor=10, what="field decodes checked")
    rep.extra["contexts"] = len(B)
    rep.assumptions += [
        "BDS1,7: reserved bits are MB 29-56 (message bits 61-88), as coded and as in common decoders",
        "truncating scalings (roll 45f/256, angles 90f/512, pressure f/10+800) are decided for provenance and range only",
        "R10.5 is an interval-hull check (a predicate rejecting interior values is not excluded)",
    ]
