"""C11 — each parameter shows the latest value its own frames carried; no cross-talk.

Histories reduce to per-step facts: a row is modified only by frames of its own address (C03 R03.4) and one step is a
function of (frame, row).

R11.1 carrier matrix [proof]: for every accepted context (all DF, all type codes/subtypes, Comm-B classes, both update
      paths) the set of row fields whose abstract post-state differs from the symbolic pre-state is contained in the set
      the frame's format may carry (table below, one reason per entry); a surface squitter blanks the altitude;
R11.2 latest value wins [proof]: no stored value depends on the previous value of the same parameter (only the listed
      cross-field derivations do: GNSS altitude from altitude, position from the CPR slots);
R11.4 carried parameters are written [proof]: in every context, each parameter the frame's format carries (property
      text) is among the fields the update can store - a format silently losing a parameter under some option or
      row state (e.g. DF20 altitude only for capable transponders) is reported;
R11.3 idempotence [proof]: applying the same frame again to the row it just updated leaves every field unchanged
      (time stamps excepted).
"""
from ..absint.batch import k2_results
from ..absint.domain import EnumV
from ..absint.k2 import changed_fields
from ..absint.query import accepted, ctl_other_deps, other_deps, sel, stores_of, summary
from ..facts import Broken
from ..report import Finding

LEVEL = "other"

ALWAYS = {"timestamp", "last_df", "last_type_code"}
POSITION = {"cpr_lat", "cpr_lon", "cpr_time", "lat", "lon", "distance_from_observer", "position_timestamp"}
MB = {"ais", "threat_encounter", "selected_altitude", "target_altitude_source", "barometric_pressure_setting", "roll_angle", "track",
      "track_angle_rate", "grspeed", "true_airspeed", "bds_5_0_timestamp", "track_source", "track_timestamp", "heading",
      "indicated_airspeed", "mach_number", "vrate", "vrate_source", "heading_source", "heading_timestamp", "capability",
      "temperature", "wind", "humidity", "turbulence", "pressure"}
REG = {"bds17": {"capability"}, "bds20": {"ais"}, "bds30": {"threat_encounter"},
       "bds40": {"selected_altitude", "target_altitude_source", "barometric_pressure_setting"},
       "bds50": {"roll_angle", "track", "track_angle_rate", "grspeed", "true_airspeed", "bds_5_0_timestamp", "track_source", "track_timestamp"},
       "bds60": {"heading", "indicated_airspeed", "mach_number", "vrate", "vrate_source", "heading_source", "heading_timestamp"}}
METEO = {"temperature", "wind", "humidity", "turbulence", "pressure"}
# cross-field derivations the decoder is allowed to make (field -> previous values it may read)
DERIVED = {"altitude_gnss": {"altitude"}, "lat": {"cpr_lat", "cpr_lon"}, "lon": {"cpr_lat", "cpr_lon"},
           "distance_from_observer": {"cpr_lat", "cpr_lon", "lat", "lon"}, "position_timestamp": {"timestamp"},
           "cpr_time": {"timestamp"}, "bds_5_0_timestamp": {"timestamp"}, "track_timestamp": {"timestamp"}, "heading_timestamp": {"timestamp"}}


GATING = {"capability", "cpr_time", "cpr_lat", "cpr_lon", "timestamp"}


def allowed(r):
    df = r.df
    tags = r.ctx["tags"]
    tc = None
    stv = None
    for t in tags:
        if t.startswith("tc") and t[2:].isdigit():
            tc = int(t[2:])
        if t.startswith("st") and t[2:].isdigit():
            stv = int(t[2:])
    a = set(ALWAYS)
    if df in (4, 20):
        a |= {"altitude", "altitude_source"}          # AC13 altitude reply
    if df in (5, 21):
        a |= {"squawk"}                                # ID13 identity reply
    if df in (11,):
        a |= {"capability"}                            # CA field of the all-call reply
    if df in (17,):
        a |= {"capability"}                            # CA field of the squitter (recorded on the -U path only)
    if df in (20, 21):
        a |= MB                                        # Comm-B registers (gated, C10)
        # where the context pins the register, only that register's parameters may change
        if "prec" in tags:
            win = [t for t in tags if ">" in t][0].split(">")[0]
            a = (a - MB) | REG[win]
        elif "valid" in tags and not r.ctx.get("R"):
            rn = [t for t in tags if t in REG][0]
            # only this register is advertised; 2,0/3,0 go by selector and the meteorological registers need no advertisement
            # (and the same bits may also form a valid 1,7 report, which takes precedence)
            a = (a - MB) | REG[rn] | METEO | REG["bds20"] | REG["bds30"] | REG["bds17"]
    if df in (17, 18):
        if tc is None:
            a |= {"ais", "category", "altitude", "altitude_source", "surveillance_status", "ground_movement", "track", "track_source",
                  "vrate", "vrate_source", "altitude_gnss", "grspeed", "heading", "heading_source", "adsb_version"} | POSITION
        elif 1 <= tc <= 4:
            a |= {"ais", "category"}                   # identification
        elif 5 <= tc <= 8:
            a |= {"ground_movement", "altitude", "altitude_source", "track", "track_source"} | POSITION   # surface position (altitude blanked)
        elif 9 <= tc <= 18:
            a |= {"altitude", "altitude_source", "surveillance_status"} | POSITION                          # airborne position
        elif tc == 19:
            a |= {"vrate", "vrate_source", "altitude_gnss"}                                                  # airborne velocity
            if stv in (1, 2) or stv is None:
                a |= {"track", "grspeed", "track_source"}
            if stv in (3, 4) or stv is None:
                a |= {"heading", "heading_source", "altitude_source"}
        elif 20 <= tc <= 22:
            a |= {"altitude_gnss", "surveillance_status"}                                                    # GNSS-height position
        elif tc == 31:
            a |= {"adsb_version"}                                                                            # operational status
    return a


def carried(r):
    """parameters the frame's format DOES carry (from the property text): the update must be able to write them"""
    df = r.df
    tags = r.ctx["tags"]
    tc = stv = None
    for t in tags:
        if t.startswith("tc") and t[2:].isdigit():
            tc = int(t[2:])
        if t.startswith("st") and t[2:].isdigit():
            stv = int(t[2:])
    if "V" in tags:
        tc = 19
    if "P" in tags and tc is None:
        tc = 11
    m = set()
    if df in (4, 20):
        m |= {"altitude"}
    if df in (5, 21):
        m |= {"squawk"}
    if df == 11:
        m |= {"capability"}
    if df == 17 and tc is not None:
        if 1 <= tc <= 4:
            m |= {"ais"}
        elif 5 <= tc <= 8:
            m |= {"altitude", "cpr_lat", "cpr_lon"}
        elif 9 <= tc <= 18:
            m |= {"altitude", "surveillance_status", "cpr_lat", "cpr_lon"}
        elif tc == 19:
            if stv in (1, 2):
                m |= {"grspeed", "track", "vrate"}
            elif stv in (3, 4):
                m |= {"heading", "vrate"}
        elif tc == 31:
            m |= {"adsb_version"}
    return m


_KEEP = {}


def _keeps_own_value(facts, field):
    """True if, in every MIR store to Plane.<field>, the field's own old value occurs only in a position where it is handed
    through unchanged: the fallback of `Option::or`, or a plain copy.  Such a store either writes a value that does not
    depend on the old one or leaves the old one in place - 'the latest value its own frames carried' still holds."""
    if field in _KEEP:
        return _KEEP[field]
    from ..lineexpr import walk
    from ..mirq import DefUse, expr, field_stores

    cur = {}

    def is_self(e):
        if not (isinstance(e, tuple) and e and e[0] == "arg" and len(e) > 2 and e[2] and tuple(e[2])[0] == field):
            return False
        b = cur.get("b")
        ty = b.locals[e[1]]["ty"]["s"] if b is not None and isinstance(e[1], int) and e[1] < len(b.locals) else "Plane"
        return ty.rstrip(">").endswith("::Plane") or ty.endswith("Plane")

    def no_self(e):
        return not any(is_self(x) for x in walk(e))

    def keep_ok(e):
        if is_self(e):
            return tuple(e[2]) == (field,)
        if isinstance(e, tuple) and e and e[0] == "call" and (e[1] or "").endswith("Option::<T>::or") and len(e[2]) == 2:
            return no_self(e[2][0]) and (keep_ok(e[2][1]) or no_self(e[2][1]))
        return no_self(e)

    ok = True
    n = 0
    # a `&mut self.<field>` handed to anything (get_or_insert_with, mem::replace, a helper) is a write this argument cannot see
    from ..mirq import iter_stmts, place_fields, is_adt
    for b_ in facts.bodies.values():
        if b_.kind == "promoted" or "::tests::" in b_.name:
            continue
        for bi_, si_, s_ in iter_stmts(b_):
            if s_["k"] == "assign" and s_["rv"]["k"] == "ref" and s_["rv"].get("mut"):
                fs_ = [(a_, n_) for a_, n_ in place_fields(s_["rv"]["place"]) if is_adt(a_, "Plane")]
                if fs_ and fs_[0][1] == field:
                    ok = False
    for st in field_stores(facts, "Plane", field):
        b = st["body"]
        if "::tests::" in b.name:
            continue
        du = DefUse(b)
        cur["b"] = b
        n += 1
        if st["via"] == "calldest":
            t = st["term"]
            from ..facts import callee_name
            e = ("call", callee_name(t), tuple(expr(du, a) for a in t["args"]))
        else:
            rv = st["stmt"]["rv"]
            if rv["k"] == "use":
                e = expr(du, rv["x"])
            else:
                ops = [rv.get(k) for k in ("x", "l", "r") if isinstance(rv.get(k), dict)] + list(rv.get("ops") or [])
                e = ("rv", rv["k"], tuple(expr(du, o) for o in ops if isinstance(o, dict) and ("copy" in o or "move" in o or "const" in o)))
                if not no_self(e):
                    ok = False
                continue
        if not keep_ok(e):
            ok = False
    _KEEP[field] = ok and n > 0
    return _KEEP[field]


def run(facts, rep, tier):
    rep.explanation = (
        "E2 abstract interpretation with a fully symbolic pre-state row: after the update, a field whose abstract value is "
        "still the pre-state object was not written on any path; the set of changed fields of every context is compared with "
        "the carrier table. Stored values' dependency sets show whether an old value of the same parameter leaks into the new "
        "one. Idempotence is decided by interpreting the update twice in sequence and comparing the two post-states structurally."
    )
    rep.trusted = ["rustc MIR", "E2 (identity of unchanged abstract values)", "carrier table in sq/rules/c11.py (from the property text)"]
    rep.rule("R11.1", "frames change only the parameters their format carries", "P")
    rep.rule("R11.2", "a new value never depends on the old value of the same parameter", "P")
    rep.rule("R11.3", "re-applying the same frame changes nothing", "P")
    rep.rule("R11.5", "one step is a function of (this frame, the row): the updater gets nothing decoded from earlier lines", "P")
    rep.rule("R11.4", "every parameter a format carries is written by frames of that format (in every option/state context)", "P")
    rep.rule("R11.6", "a row created by a frame starts blank except for the address, its country and what the frame's format carries", "P")
    # R11.5: the reduction of histories to steps assumes the reader hands the updater this line's digits and the frame
    # decoded from exactly those digits (a decoded record reused across lines carries other aircraft's fields along)
    try:
        from ..effects import Effects
        from ..lineexpr import updater_input_problems
        from ..region import Region
        reg = Region(facts, Effects(facts))
        n5, probs = updater_input_problems(facts, reg)
        for bi, cn, what in probs:
            rep.oblige(False, ("updater-input", bi))
            rep.add(Finding("R11.5", "updater input not derived from the current line alone",
                            "%s receives %s: values decoded from earlier lines (possibly other aircraft) reach this row" % (cn, what), reg.loc(bi)))
        rep.oblige(True, ("updater-inputs", n5))
        rep.instances("R11.5", n5, floor=4, what="arguments of the table updater in the per-line region")
    except Broken:
        rep.instances("R11.5", 1, floor=0)
    out = k2_results(facts, tier)
    results = out["results"]
    n1 = n2 = n3 = n4 = 0
    for r in results:
        if not accepted(r) or r.df is None or r.post_update is None:
            continue
        n1 += 1
        ch = set(changed_fields(r.pre, r.post_update))
        al = allowed(r)
        if "capability" in al:
            # CA comes with DF11 / DF17 (and the 1,7 report); the register adverts only with a Comm-B 1,7 report
            al = al | {"capability.0"} | ({"capability.1"} if r.df in (20, 21) else set())
        extra = ch - al
        ok = not extra
        rep.oblige(ok, ("matrix", r.ctx["label"]))
        if n1 in (3, 90):
            rep.sample({"rule": "R11.1", "context": r.ctx["label"], "changed": sorted(ch)})
        if not ok:
            for f in sorted(extra):
                rep.add(Finding("R11.1", "%s changed by a frame that does not carry it: DF%s%s" % (f, r.df, _tcs(r)),
                                "context '%s': the row's %s changes (to %r) although this format does not carry that parameter"
                                % (r.ctx["label"], f, r.post_update.fields.get(f)), None, {"context": r.ctx["label"]}))
        # R11.4: the parameters the format carries can be written at all in this context
        for f in sorted(carried(r)):
            n4 += 1
            ok = f in ch
            rep.oblige(ok, ("carried", r.ctx["label"], f))
            if not ok:
                rep.add(Finding("R11.4", "%s is never written from DF%s%s frames (%s)" % (f, r.df, _tcs(r), _cfg(r)),
                                "context '%s': this format carries %s but no path of the update stores it: the display keeps showing an older value"
                                % (r.ctx["label"], f), None, {"context": r.ctx["label"]}))
        # surface squitter blanks the altitude
        tcs = [int(t[2:]) for t in r.ctx["tags"] if t.startswith("tc") and t[2:].isdigit()]
        if r.df == 17 and tcs and 5 <= tcs[0] <= 8:
            v = r.post_update.fields.get("altitude")
            ok = isinstance(v, EnumV) and v.only("None")
            rep.oblige(ok, ("surface-blank", r.ctx["label"]))
            if not ok:
                rep.add(Finding("R11.1", "surface squitter does not blank the altitude (%s path)" % ("U" if r.ctx.get("U") else "D"),
                                "context '%s': altitude after a surface position squitter is %r" % (r.ctx["label"], v), None))
        # R11.2
        for path, v, pc, ctl in r.stores:
            f = path[0][1]
            n2 += 1
            pre = {d[1].split(".")[0].split("[")[0] for d in other_deps(v) if isinstance(d, tuple) and d and d[0] == "pre"}
            cpre = {d[1].split(".")[0].split("[")[0] for d in ctl_other_deps(v) if isinstance(d, tuple) and d and d[0] == "pre"}
            # data: only the listed derivations; control: only the gating state (capability report, CPR pairing)
            bad = (pre - DERIVED.get(f, set())) | (cpre - GATING - DERIVED.get(f, set()))
            if bad == {f} and f not in cpre and _keeps_own_value(facts, f):
                bad = set()         # `self.f = new.or(self.f)`: the old value flows in only as "left unchanged"
            ok = not bad
            rep.oblige(ok, ("latest", r.ctx["label"], f))
            if not ok:
                rep.add(Finding("R11.2", "%s computed from previous row contents (%s)" % (f, ",".join(sorted(bad))),
                                "context '%s': the value stored to %s depends on the row's previous %s" % (r.ctx["label"], f, sorted(bad)), None))
        # R11.3
        if r.post_update2 is not None and not (r.df in (17, 18) and "G" in r.ctx["tags"]):
            # (the generic DF17/18 contexts leave the type code symbolic; idempotence is decided per type code in the T family)
            n3 += 1
            diff = []
            for f, v in r.post_update.fields.items():
                s1, s2 = summary(v), summary(r.post_update2.fields.get(f))
                if s1 != s2 and not _is_time(f):
                    diff.append(f)
            ok = not diff
            rep.oblige(ok, ("idem", r.ctx["label"]))
            if not ok:
                rep.add(Finding("R11.3", "re-feeding the frame changes %s: DF%s%s" % (",".join(sorted(diff)), r.df, _tcs(r)),
                                "context '%s': applying the same frame twice gives a different row (%s: %r then %r)"
                                % (r.ctx["label"], diff[0], r.post_update.fields.get(diff[0]), r.post_update2.fields.get(diff[0])), None))
    # R11.6: a row CREATED by a frame holds, besides the address and its country, only what that frame's format carries:
    # every other field still has the value of the blank row (Plane::new evaluated abstractly)
    from ..absint import k3 as _K3
    newfn = [b for b in facts.bodies.values() if b.name.endswith("plane::Plane::new") and b.kind != "closure"]
    n6 = 0
    if len(newfn) == 1:
        _I, blank, _st = _K3.run_fn(facts, newfn[0].name, lambda I, st: [], "blank row")
        if blank is not None and hasattr(blank, "fields"):
            for r in results:
                if not accepted(r) or r.df is None or r.post_create is None:
                    continue
                n6 += 1
                d = {f for f, v in r.post_create.fields.items() if summary(v) != summary(blank.fields.get(f))}
                al = allowed(r) | {"icao", "reg"}
                if "capability" in al:
                    pass
                extra = sorted(d - al)
                rep.oblige(not extra, ("create-matrix", r.ctx["label"]))
                for f in extra:
                    rep.add(Finding("R11.6", "%s set in a row created by a frame that does not carry it: DF%s%s" % (f, r.df, _tcs(r)),
                                    "context '%s': the row created by this frame starts with %s = %r although its format does not carry that "
                                    "parameter" % (r.ctx["label"], f, r.post_create.fields.get(f)), None, {"context": r.ctx["label"]}))
    rep.instances("R11.6", n6, floor=150, what="contexts that create a row")
    rep.instances("R11.1", n1, floor=150, what="accepted contexts")
    rep.instances("R11.2", n2, floor=500, what="stores")
    rep.instances("R11.3", n3, floor=60, what="contexts interpreted twice")
    rep.instances("R11.4", n4, floor=300, what="(context, carried parameter) pairs")
    rep.extra["contexts"] = len(results)
    rep.assumptions += ["wall-clock ordering of frames is not decided", "time-stamp fields are excluded from the idempotence comparison"]


def _cfg(r):
    return "%s%s%s" % ("-U" if r.ctx.get("U") else "default path", " -R" if r.ctx.get("R") else "",
                        "".join(" " + t for t in r.ctx["tags"] if t.startswith("ca") or t.startswith("no") or t in ("adv", "gate")))


def _tcs(r):
    t = [x for x in r.ctx["tags"] if x.startswith("tc") and x[2:].isdigit()]
    return " TC%s" % t[0][2:] if t else ""


def _is_time(f):
    return f in ("timestamp", "cpr_time", "position_timestamp", "track_timestamp", "heading_timestamp", "bds_5_0_timestamp")
