"""C15 — every refresh lists each aircraft once, ordered by the requested key.

R15.1 permutation only: between `table.iter().collect()` and the printing fold, the row vector
      is passed (&mut) only to permutation operations; the fold visits `iter()` of the same
      vector and formats each element exactly once; no dropping/duplicating adapter.
R15.2 a sort by the address key dominates all -o sorts.
R15.3 key fidelity: for each letter of the property's table the sort key is an order-embedding
      (or reversal) of the intended row field; lossy keys (float->int truncation, bit mixing)
      are findings; paired letters sort in opposite directions.
R15.4 the -o letters are applied in the order given, each by a stable full sort.
"""
from ..cfg import CFG
from ..facts import Broken, callee_name, span_loc
from ..mirq import DefUse, expr, expr_place, operand_place, show
from ..report import Finding

LEVEL = "other"

# letter -> (row field, required direction or None, partner letter)
TABLE = {
    "s": ("squawk", +1, None),
    "a": ("altitude", +1, "A"),
    "A": ("altitude", -1, "a"),
    "v": ("vrate", +1, "V"),
    "V": ("vrate", -1, "v"),
    "N": ("lat", None, "S"),
    "S": ("lat", None, "N"),
    "W": ("lon", None, "E"),
    "E": ("lon", None, "W"),
    "d": ("distance_from_observer", None, "D"),
    "D": ("distance_from_observer", None, "d"),
    "c": ("category", None, None),
}
STABLE_SORTS = {"sort", "sort_by", "sort_by_key", "sort_by_cached_key"}
UNSTABLE_SORTS = {"sort_unstable", "sort_unstable_by", "sort_unstable_by_key", "select_nth_unstable", "select_nth_unstable_by", "select_nth_unstable_by_key"}
PERMUTATIONS = STABLE_SORTS | UNSTABLE_SORTS | {"reverse", "rotate_left", "rotate_right", "swap"}
NEUTRAL_VEC = {"deref", "deref_mut", "iter", "len", "is_empty", "as_slice", "as_mut_slice", "as_mut", "as_ref", "index"}


ELEM = {"row": False}     # True when the printed vector holds plain `&Plane` (the (key, row) pairs were projected before the -o sorts)


def classify_key(e, elem_arg=2):
    """-> (field, direction, quality, why).  quality: embed | weak | lossy | unknown"""
    k = e[0]
    if k == "arg" and e[1] == elem_arg:
        path = tuple(p_ for p_ in e[2] if p_ != "deref")
        if ELEM["row"]:
            # element is &Plane: path (field, ...) = row field
            if len(path) >= 1 and isinstance(path[0], str):
                return (path[0], +1, "embed" if len(path) == 1 else "partial", "component %s" % (path[1:],) if len(path) > 1 else "")
            return (None, 0, "unknown", "unrecognised element path %s" % (path,))
        # element is (&u32, &Plane): path (0,) = key, (1, field...) = row field
        if path == (0,):
            return ("<address>", +1, "embed", "")
        if len(path) >= 2 and path[0] == 1:
            return (path[1], +1, "embed" if len(path) == 2 else "partial", "component %s" % (path[2:],) if len(path) > 2 else "")
        return (None, 0, "unknown", "unrecognised element path %s" % (path,))
    if k == "un" and e[1] == "Neg":
        f, d, q, w = classify_key(e[2], elem_arg)
        return (f, -d, q, w)
    if k == "call":
        name = e[1]
        if name.endswith("Option::<T>::unwrap_or") or name.endswith("unwrap_or_default"):
            f, d, q, w = classify_key(e[2][0], elem_arg)
            return (f, d, "weak" if q == "embed" else q, "blank counts as %s" % (show(e[2][1]) if len(e[2]) > 1 else "default"))
        if name.endswith("clone") or name.endswith("Clone::clone"):
            return classify_key(e[2][0], elem_arg)
        return (None, 0, "unknown", "call %s" % name)
    if k == "cast":
        f, d, q, w = classify_key(e[2], elem_arg)
        kind = e[1]
        if kind.startswith("FloatToInt"):
            return (f, d, "lossy", "float truncated to %s: distinct values tie" % e[3])
        if kind.startswith("IntToInt") or kind.startswith("IntToFloat"):
            return (f, d, q, w)
        return (f, d, "unknown", "cast %s" % kind)
    if k == "bin":
        f, d, q, w = classify_key(e[2], elem_arg)
        return (f, 0, "lossy", "key mixes values with %s" % e[1])
    if k == "path":
        return classify_key(e[1], elem_arg)
    if k == "agg" and len(e) > 3 and e[1] == "adt" and str(e[3]).endswith("cmp::Reverse") and len(e[2]) == 1:
        f, d, q, w = classify_key(e[2][0], elem_arg)      # std::cmp::Reverse(x): same key, opposite order
        return (f, -d, q, w)
    return (None, 0, "unknown", "key expression %s" % show(e))


def classify_cmp(e):
    """comparator closure return expression -> (field, direction, quality, why)"""
    rev = 1
    while e[0] == "call" and e[1].endswith("Ordering::reverse"):
        rev = -rev
        e = e[2][0]
    if e[0] == "call" and (e[1].endswith("total_cmp") or e[1].endswith("Ord::cmp") or e[1].endswith("::cmp")):
        a, b = e[2][0], e[2][1]
        fa = classify_key(a, 2)
        fb = classify_key(b, 3)
        if fa[0] is not None and fa[0] == fb[0] and fa[2] == fb[2] and fa[1] == fb[1]:
            return (fa[0], rev * fa[1], fa[2], fa[3])
        fa2 = classify_key(a, 3)
        fb2 = classify_key(b, 2)
        if fa2[0] is not None and fa2[0] == fb2[0] and fa2[2] == fb2[2] and fa2[1] == fb2[1]:
            return (fa2[0], -rev * fa2[1], fa2[2], fa2[3])
        return (None, 0, "unknown", "comparator compares different things: %s" % show(e))
    if e[0] == "call" and e[1].endswith("unwrap_or") and e[2][0][0] == "call" and e[2][0][1].endswith("partial_cmp"):
        inner = ("call", "x::cmp", e[2][0][2])
        f, d, q, w = classify_cmp(inner)
        return (f, rev * d, "weak" if q == "embed" else q, "partial_cmp with fallback (NaN ties)")
    return (None, 0, "unknown", "comparator %s" % show(e))


def _arm_expr(facts, callee, argpos, variant):
    """expression of `callee`'s return value on the arm its `match <parameter argpos>` takes for enum variant `variant`"""
    cb = facts.bodies.get(callee)
    if cb is None:
        return None
    cdu = DefUse(cb)
    ccfg = CFG(cb)
    pty = cb.locals[argpos]["ty"]["s"].lstrip("&").replace("mut ", "")
    info = facts.adts.get(pty)
    if not info or info["kind"] != "enum":
        return None
    names = [v["name"] for v in info["variants"]]
    if variant not in names:
        return None
    vidx = names.index(variant)
    for bi in sorted(ccfg.reach):
        t = cb.blocks[bi]["term"]
        if t["k"] != "switch":
            continue
        e = expr(cdu, t["discr"])
        if not (e[0] == "discr" and e[1][0] == "arg" and e[1][1] == argpos and not [p_ for p_ in e[1][2] if p_ != "deref"]):
            continue
        tgt = t["otherwise"]
        for val, b2 in t["targets"]:
            if int(val) == vidx:
                tgt = b2
        # the definition of _0 in the blocks dominated by that arm
        defs = []
        for bj in sorted(ccfg.reach):
            if not ccfg.dominates(tgt, bj):
                continue
            blk = cb.blocks[bj]
            for st_ in blk["stmts"]:
                if st_["k"] == "assign" and st_["place"]["local"] == 0 and not st_["place"]["proj"]:
                    defs.append(("stmt", st_))
            tt = blk["term"]
            if tt["k"] == "call" and tt["dest"]["local"] == 0 and not tt["dest"]["proj"]:
                defs.append(("call", tt))
        if len(defs) != 1:
            return None
        kind, node = defs[0]
        if kind == "call":
            return ("call", callee_name(node), tuple(expr(cdu, a) for a in node["args"]))
        rv = node["rv"]
        if rv["k"] == "use":
            return expr(cdu, rv["x"])
        return None
    return None


def _specialise(facts, ret, caps):
    """comparator / key closure that dispatches on a captured enum value (`column.compare(a, b)` with `match self`): replace the
    call by the arm taken for the value the abstract run saw in the capture"""
    from ..mirq import _subst_args, inline_expr
    if not (isinstance(ret, tuple) and ret and ret[0] == "call" and ret[1] in facts.bodies):
        return ret
    for i, a in enumerate(ret[2]):
        base = a
        while base[0] == "path":
            base = base[1]
        if base[0] == "capture" and base[1].lstrip("*&") in caps:
            ae = _arm_expr(facts, ret[1], i + 1, caps[base[1].lstrip("*&")])
            if ae is not None:
                return inline_expr(facts, _subst_args(ae, ret[2]))
    return ret


def _closure_of(e):
    """closure literal behind fn-pointer coercions / references"""
    while isinstance(e, tuple) and e and e[0] in ("cast", "path", "ref"):
        e = e[2] if e[0] == "cast" else e[1]
    if isinstance(e, tuple) and len(e) > 3 and e[0] == "agg" and e[1] == "closure":
        return e[3]
    return None


def _factory_closure(facts, ke):
    """`rows.sort_by(ascending(|p| p.lat))`: the comparator is the closure a crate function returns, and that closure calls the
    key function it captured. -> the closure's return expression with every call through the captured function pointer replaced
    by that function's own return expression, or None if the shape is anything else"""
    from ..mirq import _subst_args, inline_expr
    fb = facts.bodies[ke[1]]
    fret = expr_place(DefUse(fb), {"local": 0, "proj": []})
    if not (isinstance(fret, tuple) and len(fret) > 3 and fret[0] == "agg" and fret[1] == "closure" and fret[3] in facts.bodies):
        return None
    cb = facts.bodies[fret[3]]
    cdu = DefUse(cb)
    caps = [_subst_args(c, ke[2]) for c in fret[2]]
    # indirect calls of the returned closure: each must go through one captured value whose actual is a closure literal
    repl = {}
    for bb, t in cb.calls():
        if t["callee"].get("path") is not None or "func" not in t:
            continue
        fe = expr(cdu, t["func"])
        base = fe
        while base[0] == "path":
            base = base[1]
        idx = None
        if base[0] == "capture" and isinstance(base[-1], int):
            idx = base[-1]
        elif base[0] == "arg" and base[1] == 1:
            pth = [p_ for p_ in base[2] if p_ != "deref"]
            idx = pth[0] if len(pth) == 1 and isinstance(pth[0], int) else None
        elif base[0] == "capture" and len(caps) == 1:
            idx = 0
        if idx is None or idx >= len(caps):
            return None
        kname = _closure_of(caps[idx])
        if kname is None or kname not in facts.bodies:
            return None
        ty = t["callee"].get("ty")
        if repl.setdefault(ty, kname) != kname:
            return None
    if not repl:
        return None
    ret = expr_place(cdu, {"local": 0, "proj": []})

    def sub(e):
        if not isinstance(e, tuple):
            return e
        if e and e[0] == "call" and e[1] in repl:
            kb = facts.bodies[repl[e[1]]]
            kret = expr_place(DefUse(kb), {"local": 0, "proj": []})
            args = (("env",),) + tuple(sub(a) for a in e[2])
            return _subst_args(kret, args)
        return tuple(sub(x) if isinstance(x, tuple) else x for x in e)
    return inline_expr(facts, sub(ret))


def sort_call_info(facts, body, du, t, caps=None):
    """for a sort* call: (method, field, dir, quality, why)"""
    m = t["callee"].get("name")
    if m == "sort":
        return (m, "<element>", +1, "embed", "")
    if len(t["args"]) < 2:
        return (m, None, 0, "unknown", "no key")
    ke = expr(du, t["args"][1])
    clos = None
    if ke[0] == "agg" and ke[1] == "closure":
        # closure aggregate: find its name from the def
        r = du.root(t["args"][1])
        clos = r[1]["rv"].get("closure") if r[0] == "rv" else None
    from ..mirq import inline_expr
    ret = None
    if clos is None and ke[0] == "call" and ke[1] in facts.bodies:
        ret = _factory_closure(facts, ke)
    if ret is None:
        if clos is None or clos not in facts.bodies:
            return (m, None, 0, "unknown", "key is not a closure literal: %s" % show(ke))
        cb = facts.bodies[clos]
        cdu = DefUse(cb)
        ret = inline_expr(facts, expr_place(cdu, {"local": 0, "proj": []}))
    if caps:
        ret = _specialise(facts, ret, caps)
    if m in ("sort_by", "sort_unstable_by"):
        f, d, q, w = classify_cmp(ret)
    else:
        f, d, q, w = classify_key(ret)
    return (m, f, d, q, (w + " [key: %s]" % show(ret)).strip())


def exclusive_arm_blocks(cfg, starts, loop_blocks, header):
    """blocks reachable from each start (inside the loop, back edge cut) that no other start reaches"""
    reach = {}
    for s in starts:
        seen = {s}
        st = [s]
        while st:
            x = st.pop()
            for y in cfg.succ[x]:
                if y in loop_blocks and y != header and y not in seen:
                    seen.add(y)
                    st.append(y)
        reach[s] = seen
    out = {}
    for s in starts:
        others = set()
        for o in starts:
            if o != s:
                others |= reach[o]
        out[s] = reach[s] - others
    return out


def run(facts, rep, tier):
    rep.explanation = (
        "Structural proof on the MIR of the table printer (anchored on the HashMap<u32,Plane>::iter call): the row "
        "vector's def-use shows only permutation operations between collect and the printing fold; every -o letter's "
        "match arm is read from the SwitchInt on the char, its sort call's key closure is turned into an expression "
        "tree and classified (order-embedding / weakly monotone / lossy) against the property's letter->field table."
    )
    rep.trusted = ["rustc MIR", "std: slice sort/sort_by*/reverse semantics (stable sorts), HashMap::iter yields each entry once"]
    rep.rule("R15.1", "row vector only permuted between collect and print; each element printed once", "P")
    rep.rule("R15.2", "address-order sort dominates the -o sorts", "P")
    rep.rule("R15.3", "each -o letter sorts by an order-embedding of its field", "P")
    rep.rule("R15.4", "letters applied in order with stable sorts", "P")

    # anchor: body that iterates the table read-only and collects
    printers = []
    for b in facts.bodies.values():
        if b.kind == "promoted":
            continue
        for bb, t in b.calls():
            c = t["callee"]
            if c.get("name") == "iter" and "HashMap" in (c.get("path") or "") and "Plane" in " ".join(c.get("generic_args") or []):
                printers.append(b)
    if len(printers) != 1:
        raise Broken("C15 anchor: %d bodies iterate the aircraft table" % len(printers))
    pb = printers[0]
    du = DefUse(pb)
    cfg = CFG(pb)
    # the vector local: dest of `collect`
    vec = None
    for bb, t in pb.calls():
        if t["callee"].get("name") == "collect":
            pipe = []
            cur = t["args"][0]
            r = du.root(cur)
            names = []
            from_table = False
            direct = True
            while r[0] == "call":
                names.append(r[1]["callee"].get("name"))
                cc = r[1]["callee"]
                if cc.get("name") == "iter" and "HashMap" in (cc.get("path") or "") and "Plane" in " ".join(cc.get("generic_args") or []):
                    from_table = True
                    break
                if cc.get("name") == "collect":
                    direct = False          # fed by another collected vector, not by the table itself
                if not r[1]["args"]:
                    break
                r = du.root(r[1]["args"][0])
            if from_table and direct and vec is None:
                vec = t["dest"]["local"]
                bad = [n for n in names if n not in ("iter", "deref", "into_iter", "read", "expect", "unwrap", "map", "cloned", "copied")]
                rep.oblige(not bad, ("collect-pipe",))
                rep.sample({"rule": "R15.1", "collect_pipeline": names})
                if bad:
                    rep.add(Finding("R15.1", "%s : row list built through %s" % (pb.name, "+".join(bad)),
                                    "the list of rows to print is built through %s: rows may be dropped or repeated" % bad,
                                    span_loc(t.get("span"))))
    if vec is None:
        raise Broken("C15 anchor: no collect() of the table iterator")

    # the (key, row) pairs may be projected to plain rows once the address sort is done:
    #     let rows: Vec<&Plane> = keyed.into_iter().map(|(_, plane)| plane).collect();
    # a collect fed only by into_iter/iter + map(closure returning one component of its argument) of the first vector keeps
    # every element, once, in order: the new vector continues the old one
    vec2 = None
    ELEM["row"] = False
    for bb, t in pb.calls():
        if t["callee"].get("name") != "collect" or t["dest"]["local"] == vec:
            continue
        if "Vec<" not in pb.locals[t["dest"]["local"]]["ty"]["s"]:
            continue        # collected into a String / other sink: that is the rendering of the rows, not a new row list
        names = []
        maps = []
        r = du.root(t["args"][0])
        src_local = None
        while r[0] == "call":
            names.append(r[1]["callee"].get("name"))
            if r[1]["callee"].get("name") == "map":
                maps.append(r[1])
            if not r[1]["args"]:
                break
            pl0 = operand_place(r[1]["args"][0])
            if pl0 is not None and _rooted_at(du, pl0, vec):
                src_local = vec
                break
            r = du.root(r[1]["args"][0])
        if src_local != vec or any(n not in ("map", "into_iter", "iter", "copied", "cloned") for n in names) or len(maps) != 1:
            continue
        mr = du.root(maps[0]["args"][1])
        if not (mr[0] == "rv" and mr[1]["rv"].get("agg") == "closure"):
            continue
        mcb = facts.bodies[mr[1]["rv"]["closure"]]
        mret = expr_place(DefUse(mcb), {"local": 0, "proj": []})
        proj_ok = mret[0] == "arg" and mret[1] == 2 and tuple(p_ for p_ in mret[2] if p_ != "deref") in ((1,), (0,))
        rep.oblige(proj_ok, ("re-collect",))
        if not proj_ok:
            rep.add(Finding("R15.1", "%s : rows rebuilt through %s" % (pb.name, show(mret)[:60]),
                            "the row list is rebuilt by a map that is not a plain projection of each (address, row) pair", span_loc(t.get("span"))))
            continue
        if tuple(p_ for p_ in mret[2] if p_ != "deref") == (1,):
            vec2 = t["dest"]["local"]
            ELEM["row"] = True
    vec_locals = [vec] + ([vec2] if vec2 is not None else [])

    def uses_vec(op):
        pl = operand_place(op)
        if not pl:
            return False
        r = du.root_place(pl)
        return (r[0] in ("multi", "call") and False) or _rooted_at(du, pl, vec)

    # all calls that receive (a reference to) the vector
    n15 = 0
    sort_fn_calls = []
    addr_sort_bb = None
    print_iter_bb = None
    for bb, t in sorted(pb.calls()):
        args_with_vec = [i for i, a in enumerate(t["args"]) if any(_rooted_at(du, operand_place(a), v_) for v_ in vec_locals)]
        if not args_with_vec:
            continue
        name = t["callee"].get("name")
        tgt = callee_name(t)
        n15 += 1
        if vec2 is not None and name == "into_iter" and _rooted_at(du, operand_place(t["args"][0]), vec) and bb != print_iter_bb:
            # the hand-over from the (key, row) vector to the row vector (checked above)
            if not any(_rooted_at(du, operand_place(a), vec2) for a in t["args"]):
                continue
        if tgt in facts.bodies:
            sort_fn_calls.append((bb, t, tgt))
            continue
        if name in NEUTRAL_VEC or name == "into_iter":
            if name in ("iter", "into_iter") and (vec2 is None or any(_rooted_at(du, operand_place(a), vec2) for a in t["args"])):
                print_iter_bb = bb            # the printing pass (iter() for a fold, into_iter(&rows) for a `for` loop)
            continue
        if name in PERMUTATIONS:
            ELEM["row"] = vec2 is not None and any(_rooted_at(du, operand_place(a), vec2) for a in t["args"])
            info = sort_call_info(facts, pb, du, t) if name in STABLE_SORTS | UNSTABLE_SORTS else None
            if info and info[1] == "<address>" and info[3] == "embed" and info[2] == +1 and addr_sort_bb is None:
                addr_sort_bb = bb
            if name in UNSTABLE_SORTS and not (info and info[1] == "<address>" and info[3] == "embed"):
                # (an unstable sort by the address itself is harmless: map keys are unique, there are no ties)
                rep.add(Finding("R15.4", "%s : %s" % (pb.name, name), "unstable sort %s: earlier ordering (address order / previous letters) is not preserved among ties" % name, span_loc(t.get("span"))))
            continue
        if name in ("drop", "drop_in_place"):
            continue
        rep.oblige(False, ("vec-op", name))
        rep.add(Finding("R15.1", "%s : row vector passed to %s" % (pb.name, name),
                        "between collect and print the row vector is modified by `%s`, which is not a permutation" % name,
                        span_loc(t.get("span"))))
    rep.instances("R15.1", n15, floor=2, what="calls receiving the row vector in the printer")

    # the -o sort function(s)
    if len(sort_fn_calls) != 1:
        raise Broken("C15 anchor: the row vector is passed to %d crate functions" % len(sort_fn_calls))
    sbb, st, sname = sort_fn_calls[0]
    rep.oblige(addr_sort_bb is not None and cfg.dominates(addr_sort_bb, sbb), ("addr-sort",))
    rep.instances("R15.2", 1, floor=1)
    if addr_sort_bb is None or not cfg.dominates(addr_sort_bb, sbb):
        rep.add(Finding("R15.2", "%s : no address sort before the -o sorts" % pb.name,
                        "rows are not first sorted by address (ascending) before the -o sorts: with no recognised key the order is the hash map's",
                        span_loc(st.get("span"))))
    # print fold after the sorts
    if print_iter_bb is None or not cfg.dominates(sbb, print_iter_bb):
        rep.add(Finding("R15.1", "%s : print does not follow the sorts" % pb.name, "the printing pass does not come after the sorts", pb.loc()))
    # each element formatted once: the fold closure calls the row formatter once, outside any loop
    fold_closures = [b for b in facts.closures_of(pb.name) if any("format_simple_display" in (callee_name(t) or "") for _, t in b.calls())]
    ok = len(fold_closures) == 1 and sum(1 for _, t in fold_closures[0].calls() if "format_simple_display" in (callee_name(t) or "")) == 1 \
        and not CFG(fold_closures[0]).loops()
    if not ok and not fold_closures:
        # a `for` loop in the printer itself: one formatter call per iteration (it dominates the back edges, no inner loop)
        fcalls = [bi for bi, t in pb.calls() if "format_simple_display" in (callee_name(t) or "")]
        ploops = cfg.loops()
        if len(fcalls) == 1:
            inside = [(h, blks) for h, blks in ploops.items() if fcalls[0] in blks]
            if len(inside) == 1:
                h, blks = inside[0]
                backs = [a for a, hh in cfg.back_edges() if hh == h]
                nexts = [bi for bi in blks if pb.blocks[bi]["term"]["k"] == "call" and pb.blocks[bi]["term"]["callee"].get("name") == "next"]
                ok = bool(backs) and all(cfg.dominates(fcalls[0], a) for a in backs) and len(nexts) == 1
    rep.oblige(ok, ("format-once",))
    if not ok:
        rep.add(Finding("R15.1", "%s : row formatted other than once per element" % pb.name, "each row must be formatted exactly once per refresh", pb.loc()))

    sb = facts.bodies[sname]
    sdu = DefUse(sb)
    scfg = CFG(sb)
    vparam = None
    for i, a in enumerate(st["args"]):
        if any(_rooted_at(du, operand_place(a), v_) for v_ in vec_locals):
            vparam = i + 1
            ELEM["row"] = vec2 is not None and _rooted_at(du, operand_place(a), vec2)
    # inside: every use of the vector param must be a permutation
    for bb, t in sb.calls():
        if any(_rooted_at_arg(sdu, operand_place(a), vparam) for a in t["args"]):
            name = t["callee"].get("name")
            if name in NEUTRAL_VEC or name in PERMUTATIONS:
                if name in UNSTABLE_SORTS:
                    rep.add(Finding("R15.4", "%s : %s" % (sb.name, name), "unstable sort %s breaks 'last letter wins among equals of earlier letters / address order'" % name, span_loc(t.get("span"))))
                continue
            rep.add(Finding("R15.1", "%s : row vector passed to %s" % (sb.name, name),
                            "the -o sort function modifies the row vector with `%s`, which is not a permutation" % name, span_loc(t.get("span"))))
    # R15.4: iteration order: the loops' iterators must be plain (no rev/skip/take)
    loops = scfg.loops()
    for hh, blks in loops.items():
        for bi in blks:
            t = sb.blocks[bi]["term"]
            if t["k"] == "call" and t["callee"].get("name") == "next":
                names = []
                r = sdu.root(t["args"][0])
                while r[0] == "call":
                    names.append(r[1]["callee"].get("name"))
                    if not r[1]["args"]:
                        break
                    r = sdu.root(r[1]["args"][0])
                bad = [n for n in names if n in ("rev", "skip", "take", "step_by", "skip_while", "take_while", "filter", "last", "nth")]
                rep.oblige(not bad, ("iter-order", hh))
                rep.instances("R15.4", 1)
                if bad:
                    rep.add(Finding("R15.4", "%s : -o letters iterated through %s" % (sb.name, "+".join(bad)),
                                    "the -o letters are not applied in the order given (%s): the last letter no longer decides" % bad,
                                    span_loc(t.get("span"))))
    # which permutations of the row vector does ONE letter cause?  The sort function is interpreted abstractly with
    # -o = that letter and an unknown row vector; the calls of sort*/reverse it reaches are recorded in order.  This follows
    # any dispatch shape (one match, several matches, to_ascii_lowercase + is_uppercase, helper functions).
    arms, trace_of = _letter_traces(facts, sb, vparam)
    # history independence: a letter does the same whatever was applied before it (no "already applied" memo)
    others = [c for c in "sANd" if c in arms]
    for ch in sorted(TABLE):
        o = next((x for x in others if x.lower() != ch.lower()), None)
        if o is None or ch not in arms:
            continue
        got = trace_of(ch + o + ch)
        want = arms[ch][1] + arms[o][1] + arms[ch][1]
        ok = got == want
        rep.oblige(ok, ("history-free", ch))
        if not ok:
            rep.add(Finding("R15.4", "%s : a -o letter can be skipped" % sb.name,
                            "-o %s applies %d permutations, but the letters one by one apply %d: what a letter does depends on the "
                            "letters before it, so the last key letter no longer decides the order" % (ch + o + ch, len(got), len(want)), sb.loc()))
    dirs = {}
    n = 0
    for ch, (field, want_dir, partner) in sorted(TABLE.items()):
        n += 1
        if ch not in arms or not arms[ch][0]:
            rep.oblige(False, ("letter", ch))
            rep.add(Finding("R15.3", "%s : letter %s not handled" % (sb.name, ch), "-o letter %r has no sort" % ch, sb.loc()))
            continue
        sorts = [(bd, t) for bd, t in arms[ch][0] if t["callee"].get("name") in STABLE_SORTS | UNSTABLE_SORTS]
        revs = [t for bd, t in arms[ch][0] if t["callee"].get("name") == "reverse" and "slice" in (t["callee"].get("path") or "")]
        # (`Ordering::reverse` inside a comparator is also called `reverse`: it is part of the comparator, classified there)
        if len(sorts) != 1:
            rep.oblige(False, ("letter", ch))
            rep.add(Finding("R15.3", "%s : letter %s has %d sorts" % (sb.name, ch, len(sorts)), "-o letter %r: expected one sort" % ch, sb.loc()))
            continue
        m, f, d, q, why = sort_call_info(facts, sorts[0][0], DefUse(sorts[0][0]), sorts[0][1], arms[ch][2][arms[ch][0].index(sorts[0])] if len(arms[ch]) > 2 else None)
        if len(revs) % 2 == 1:
            d = -d
        dirs[ch] = d
        ok = f == field and q in ("embed", "weak") and d != 0 and (want_dir is None or d == want_dir)
        rep.oblige(ok, ("letter", ch))
        rep.sample({"rule": "R15.3", "letter": ch, "method": m, "field": f, "direction": d, "quality": q, "note": why})
        if not ok:
            if f != field:
                msg = "-o %s sorts by %s instead of %s" % (ch, f, field)
                key = "wrong field"
            elif q not in ("embed", "weak"):
                msg = "-o %s: the sort key is not an order-embedding of %s (%s): rows are not monotone in %s down the table" % (ch, field, why, field)
                key = q
            else:
                msg = "-o %s sorts %s in the wrong direction" % (ch, field)
                key = "direction"
            rep.add(Finding("R15.3", "%s : letter %s %s" % (sb.name, ch, key), msg, span_loc(sorts[0][1].get("span")), {"key": why}))
    for ch, (field, want_dir, partner) in TABLE.items():
        if partner and ch < partner and ch in dirs and partner in dirs and dirs[ch] and dirs[partner]:
            ok = dirs[ch] == -dirs[partner]
            rep.oblige(ok, ("pair", ch))
            if not ok:
                rep.add(Finding("R15.3", "%s : letters %s/%s same direction" % (sb.name, ch, partner),
                                "-o %s and -o %s sort in the same direction" % (ch, partner), sb.loc()))
    rep.instances("R15.3", n, floor=12, what="-o letters of the property's table")
    rep.extra["printer"] = pb.name
    rep.extra["sort_fn"] = sname
    rep.assumptions += ["blank (None) values order before/after numbers as Option's derived ordering or the stated unwrap_or default"]


def _rooted_at(du, pl, local):
    if pl is None:
        return False
    seen = 0
    cur = pl
    while seen < 32:
        seen += 1
        if cur["local"] == local:
            return True
        ds = du.whole_defs(cur["local"])
        if len(ds) != 1:
            return False
        kind, bi, si, node = ds[0]
        if kind == "call":
            # deref/as_mut style passthrough
            if node["callee"].get("name") in ("deref", "deref_mut", "as_mut", "as_ref", "as_mut_slice", "as_slice") and node["args"]:
                p2 = operand_place(node["args"][0])
                if p2 is None:
                    return False
                cur = p2
                continue
            return False
        rv = node["rv"]
        if rv["k"] in ("use", "cast"):
            p2 = operand_place(rv["x"])
            if p2 is None:
                return False
            cur = p2
        elif rv["k"] in ("ref", "copy_for_deref", "rawptr"):
            cur = rv["place"]
        else:
            return False
    return False


def _rooted_at_arg(du, pl, argn):
    if pl is None or argn is None:
        return False
    return _rooted_at(du, pl, argn)


def _letter_traces(facts, sb, vparam):
    """-> ({letter: ([(body, call terminator)], [(body name, bb)])}, trace_of(string))"""
    from ..absint import k3 as K3
    from ..absint.ctx import ref_to
    from ..absint.domain import OpaqueV, StrV, StructV, TupleV, VecV, IntV, Top
    from ..absint.k2 import args_value

    def trace_of(text):
        def build(I, st):
            I.trace_names = set(PERMUTATIONS)
            av = args_value(facts, {})
            av = av.set("order_by", VecV([StrV("lit", text=text)]))
            out = []
            for i in range(1, sb.arg_count + 1):
                ty = sb.locals[i]["ty"]["s"]
                if ty.endswith("Args"):
                    out.append(ref_to(I, st, av))
                elif i == vparam:
                    out.append(ref_to(I, st, VecV(None, IntV("usize"), Top(why="row")), True))
                else:
                    out.append(Top(why="arg %d" % i))
            return out
        I, v, st = K3.run_fn(facts, sb.name, build, "C15 -o %s" % text)
        if st is None:
            raise Broken("C15: the sort function cannot be followed for -o %s" % text)
        bad = sorted({w[1] for w in I.warnings if w[0] in ("unmodelled", "switch")})
        if bad and not I.trace:
            raise Broken("C15: the sort function cannot be followed for -o %s (%s)" % (text, bad[:2]))
        last_caps[0] = list(I.trace_caps)
        return list(I.trace)
    last_caps = [[]]
    arms = {}
    for code in range(33, 127):
        ch = chr(code)
        tr = trace_of(ch)
        if tr:
            arms[ch] = ([(facts.bodies[bn], facts.bodies[bn].blocks[bb]["term"]) for bn, bb in tr], tr, list(last_caps[0]))
    return arms, trace_of
