"""C06 — squawk equals the octal identity code of the latest DF5/DF21 reply.

R06.1 in every DF5/DF21 context the value stored to (and left in) Plane.squawk is Some(v) with v's exact affine form
      4000*A4+2000*A2+1000*A1+400*B4+200*B2+100*B1+40*C4+20*C2+10*C1+4*D4+2*D2+D1 over the ID13 bits 20-32
      (C1 A1 C2 A2 C4 A4 X B1 D1 B2 D2 B4 D4): identity of affine forms over the 12 code bits = equality on all
      8192 field values x every other payload bit; both update paths, -R, every recorded capability;
R06.2 no other downlink format stores squawk.
"""
from ..absint.batch import k2_results
from ..absint.query import same_fn, accepted, aff, int_aff, option_some_payload, sel, stores_of, unchanged
from ..facts import Broken
from ..report import Finding

LEVEL = "proof"

# Mode S bit -> decimal weight
ID13 = {25: 4000, 23: 2000, 21: 1000, 31: 400, 29: 200, 27: 100, 24: 40, 22: 20, 20: 10, 32: 4, 30: 2, 28: 1}


def run(facts, rep, tier):
    rep.explanation = (
        "E2 abstract interpretation with all payload bits symbolic: in each DF5/DF21 context the abstract value stored "
        "to Plane.squawk carries an exact affine form over frame bits, which is compared term by term with the standard's "
        "A/B/C/D digit weights; in every other context the store inventory shows no write to squawk. One context covers "
        "all 2^13 identity codes and all other payload bits of that class."
    )
    rep.trusted = ["rustc MIR", "E2 transfer functions for shifts/masks/or/add/mul (sq/absint/ops.py)", "Annex 10 ID13 bit order (in the rule)"]
    rep.rule("R06.1", "DF5/DF21: squawk := Some(ABCD digits of ID13), on both update paths and on creation (DF5)", "P")
    rep.rule("R06.2", "no other DF writes squawk", "P")
    out = k2_results(facts, tier)
    results = out["results"]
    want = aff(ID13)
    n1 = n2 = 0
    for r in results:
        if not accepted(r) or r.df is None:
            continue
        if r.df in (5, 21):
            n1 += 1
            sts = stores_of(r, "squawk")
            ok = bool(sts)
            why = "no store to squawk"
            for path, v, pc in sts:
                only, p = option_some_payload(v)
                a = int_aff(p) if p is not None else None
                if not only:
                    ok, why = False, "stored value may be None: %r" % (v,)
                elif a != want:
                    ok, why = False, "stored value is %s" % (a.show() if a is not None else repr(p))
            # the store must happen on every path of the update: the post-state itself must be the exact value
            pv = r.post_update.fields.get("squawk") if r.post_update is not None else None
            only, p = option_some_payload(pv)
            if ok and not (only and (int_aff(p) == want or same_fn(p, want))):
                ok, why = False, "after the update the row may still hold the old squawk: %r" % (pv,)
            if ok and r.df == 5 and r.post_create is not None:
                only, p = option_some_payload(r.post_create.fields.get("squawk"))
                if not (only and (int_aff(p) == want or same_fn(p, want))):
                    ok, why = False, "a row created by a DF5 reply does not get the squawk: %r" % (r.post_create.fields.get("squawk"),)
            rep.oblige(ok, ("squawk", r.ctx["label"]))
            if n1 <= 2:
                rep.sample({"rule": "R06.1", "context": r.ctx["label"], "stored": want.show(), "ok": ok})
            if not ok:
                path_ = "update" if r.ctx.get("U") else "downlink"
                rep.add(Finding("R06.1", "squawk decode DF%d %s path" % (r.df, path_),
                                "DF%d (context '%s'): %s; expected Some(%s)" % (r.df, r.ctx["label"], why, want.show()), None,
                                {"context": r.ctx["label"]}))
        else:
            n2 += 1
            ok = not stores_of(r, "squawk") and unchanged(r, "squawk")
            rep.oblige(ok, ("no-squawk", r.ctx["label"]))
            if not ok:
                rep.add(Finding("R06.2", "squawk written by DF%d" % r.df,
                                "a DF%d frame (context '%s') changes the squawk" % (r.df, r.ctx["label"]), None, {"context": r.ctx["label"]}))
    rep.instances("R06.1", n1, floor=6, what="DF5/DF21 contexts")
    rep.instances("R06.2", n2, floor=100, what="contexts of other formats")
    rep.extra["exhaustive"] = True
    rep.extra["contexts"] = len(results)
    rep.assumptions += ["the frame that creates a row may, if DF21, contribute the address only (as the property states)"]
