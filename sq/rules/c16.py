"""C16 — DF filter admits only the listed formats; DF counters are exact.

R16.1 the -f decision is consulted before every table/counter effect of the iteration, its
      predicate is `df ∉ list` over the frame's own DF (recognised forms: all(|x| x != df),
      !any(|x| x == df), !contains(&df)), and the skip edge reaches no effect;
R16.2 counter step: absent -> 1, n -> n+1 (Entry-API forms read from MIR);
R16.3 the counted key is the frame's DF; counting happens under -c only; the counter map is
      ordered (BTreeMap) and its printer walks it once, printing key and count.
"""
from ..cfg import CFG
from ..effects import Effects
from ..facts import Broken, callee_name, span_loc
from ..lineexpr import df_of_line
from ..mirq import DefUse, expr, expr_place, operand_place, show
from ..region import Region
from ..report import Finding

LEVEL = "other"


def _state_effect(e):
    return [x for x in e if x[0] in ("table", "btree") or (x[0] == "field" and x[1].split("::")[-1] in ("Plane", "Planes"))]


def run(facts, rep, tier):
    rep.explanation = (
        "Structural proof on the MIR of the per-line region: the branch on Args.filter is located by its discriminant "
        "expression, its predicate call and closure are read as expression trees and matched against the reviewed "
        "forms of `df not in list`; effect sites are shown unreachable from the skip edge and dominated by the filter "
        "decision (edge-cut reachability). The counter update function is matched against the Entry-API forms and its "
        "constants give the exact step; provenance of the counted key is checked by def-use."
    )
    rep.trusted = ["rustc MIR", "std Iterator::all/any, slice::contains, BTreeMap Entry API and ordered iteration"]
    rep.rule("R16.1", "filter decision (df not in list => skip) dominates every table/counter effect", "P")
    rep.rule("R16.2", "counter step is absent->1, n->n+1", "P")
    rep.rule("R16.3", "counted key = frame DF, counted only under -c, ordered map, printed once per entry", "P")
    eff = Effects(facts)
    reg = Region(facts, eff)
    # a helper that consults the -f list (`fn wanted(args, df) -> bool`) is part of the per-line decision: inline it
    from ..mirq import field_reads
    readers = {r["body"].name for r in field_reads(facts, "Args", "filter")}
    reg.inline_calls(lambda b: b.name in readers)
    reg.inline_calls_with_arg("filter")
    proc, du, cfg = reg.proc, reg.du, reg.cfg

    r161 = "shape"
    try:
        _shape_filter(facts, rep, reg, proc, du, cfg)
    except Broken as ex:
        if not _semantic_filter(facts, rep, reg, readers):
            raise ex
        r161 = "evaluated"
    rep.extra["R16.1_decided_by"] = r161
    _rest(facts, rep, reg, proc, du, cfg)


def _shape_filter(facts, rep, reg, proc, du, cfg):
    # --- locate the filter decision
    s1 = None
    for bi in sorted(reg.blocks):
        t = proc.blocks[bi]["term"]
        if t["k"] == "switch":
            e = expr(du, t["discr"])
            if e[0] == "discr" and e[1][0] == "arg" and e[1][2][-1:] == ("filter",):
                s1 = (bi, t)
                s1_none_val = 0
            elif s1 is None and e[0] == "call" and e[1].split("::")[-1] in ("is_some", "is_none") and len(e[2]) == 1 and \
                    e[2][0][0] == "arg" and e[2][0][2][-1:] == ("filter",):
                s1 = (bi, t)                      # `args.filter.is_some()` : the same decision, as a bool
                s1_none_val = 0 if e[1].endswith("is_some") else 1
    if s1 is None:
        raise Broken("C16 anchor: no decision on Args.filter in the per-line region")
    s1bb, s1t = s1
    s2 = None
    for bi in sorted(reg.blocks):
        t = proc.blocks[bi]["term"]
        if t["k"] == "switch" and bi != s1bb:
            e = expr(du, t["discr"])
            neg = False
            while e[0] == "un" and e[1] == "Not":
                e, neg = e[2], not neg
            if e[0] == "call" and "filter" in show(e):
                s2 = (bi, t, e)
                s2neg = neg
    if s2 is None:
        raise Broken("C16 anchor: no decision computed from Args.filter in the per-line region")
    s2bb, s2t, pe = s2
    # outer wrappers: is_some/is_none/is_ok/is_err of a search
    method = pe[1].split("::")[-1]
    outer = None
    if method in ("is_some", "is_none", "is_ok", "is_err") and pe[2] and pe[2][0][0] == "call":
        outer = method
        inner_call_bb = None
        pe_in = pe[2][0]
        method = pe_in[1].split("::")[-1]
    else:
        pe_in = pe
    some_and = None
    if method == "is_some_and" and outer is None:
        clr = _closure_of(proc, du, pe_in)
        if clr is not None:
            cb2 = facts.bodies[clr["rv"]["closure"]]
            cdu2 = DefUse(cb2)
            ret2 = expr_place(cdu2, {"local": 0, "proj": []})
            caps2 = [c["name"].lstrip("*") for c in cb2.j.get("captures") or []]
            cap_e2 = [expr(du, o) for o in clr["rv"]["ops"]]
            if ret2[0] == "call" and ret2[1].split("::")[-1] == "contains" and len(ret2[2]) == 2:
                nd = ret2[2][1]
                if nd[0] == "capture" and nd[1].lstrip("*") in caps2:
                    some_and = cap_e2[caps2.index(nd[1].lstrip("*"))]
    if some_and is not None:
        method = "contains"
        pe_in = ("call", "contains", (pe_in[2][0], some_and))
    if method not in ("all", "any", "contains", "find", "position", "binary_search"):
        # an unrecognised form: at least it must be a function of the frame's decoded DF
        from ..lineexpr import walk
        inputs = list(walk(pe))
        for bi2, t2 in proc.calls():
            if bi2 in reg.blocks and callee_name(t2) == pe[1]:
                for a in t2["args"]:
                    r = du.root(a)
                    if r and r[0] == "rv" and r[1]["rv"].get("agg") == "closure":
                        for o in r[1]["rv"]["ops"]:
                            inputs += list(walk(expr(du, o)))
        if not any(df_of_line(x) for x in inputs):
            rep.oblige(False, ("filter-form",))
            rep.add(Finding("R16.1", "%s : the -f decision is not taken on the frame's DF" % proc.name,
                            "the -f predicate %s does not use get_downlink_format() of the accepted frame: what is compared with the list "
                            "is not the downlink format of the frame that is then applied and counted" % show(pe)[:140], reg.loc(s2bb)))
            rep.instances("R16.1", 1, floor=1)
            rep.instances("R16.2", 1, floor=0)
            rep.instances("R16.3", 1, floor=0)
            return
        raise Broken("C16 anchor: filter predicate form not recognised: %s" % show(pe)[:160])
    # the predicate must range over the WHOLE list: only neutral calls between it and the -f payload
    recv = pe_in[2][0]
    chain = []
    while recv[0] == "call":
        chain.append(recv[1].split("::")[-1])
        recv = recv[2][0] if recv[2] else ("?",)
    bad = [c for c in chain if c not in ("iter", "into_iter", "deref", "as_slice", "as_ref", "copied", "cloned", "by_ref")]
    rep.oblige(not bad, ("filter-range",))
    if bad:
        rep.add(Finding("R16.1", "%s : filter predicate ranges over %s of the list" % (proc.name, "+".join(bad)),
                        "the -f predicate does not look at the whole list (%s)" % bad, reg.loc(s2bb)))
    # semantic form
    member_true = None  # predicate true <=> df in list ?
    why = ""
    if method == "contains" and outer is None:
        needle = pe_in[2][1]
        if df_of_line(needle):
            member_true = True
        else:
            why = "contains() is asked about %s, not the frame's DF" % show(needle)
    elif method == "binary_search":
        needle = pe_in[2][1]
        srt = _list_sorted_somewhere(facts, "filter")
        if not df_of_line(needle):
            why = "binary_search() is asked about %s, not the frame's DF" % show(needle)
        elif not srt:
            why = ("binary_search() is only a membership test on a sorted slice, and nothing sorts the -f list "
                   "(it is kept in command-line order): listed formats can be reported absent")
        elif outer in ("is_ok", "is_err"):
            member_true = outer == "is_ok"
        else:
            why = "binary_search result used through %s" % outer
    else:
        if method in ("find", "position") and outer not in ("is_some", "is_none"):
            raise Broken("C16 anchor: %s() result not tested by is_some/is_none" % method)
        if method in ("all", "any") and outer is not None:
            raise Broken("C16 anchor: %s().%s()" % (method, outer))
        clos = None
        r = _closure_of(proc, du, pe_in)
        if r is not None:
            clos = facts.bodies[r["rv"]["closure"]]
            cap_exprs = [expr(du, o) for o in r["rv"]["ops"]]
        if clos is None:
            raise Broken("C16 anchor: predicate closure not found")
        cdu = DefUse(clos)
        ret = expr_place(cdu, {"local": 0, "proj": []})
        caps = [c["name"].lstrip("*") for c in clos.j.get("captures") or []]
        ok_shape = ret[0] == "bin" and ret[1] in ("Ne", "Eq")
        if ok_shape:
            sides = [ret[2], ret[3]]
            elem = [s for s in sides if s[0] == "arg" and s[1] == 2]
            cap = [s for s in sides if s[0] == "capture"]
            if len(elem) == 1 and len(cap) == 1:
                ci = caps.index(cap[0][1].lstrip("*")) if cap[0][1].lstrip("*") in caps else None
                if ci is not None and df_of_line(cap_exprs[ci]):
                    if method == "all" and ret[1] == "Ne":
                        member_true = False
                    elif method == "any" and ret[1] == "Eq":
                        member_true = True
                    elif method in ("find", "position") and ret[1] == "Eq":
                        member_true = outer == "is_some"
                    else:
                        why = "%s(|x| x %s df) is not a membership test" % (method, ret[1])
                else:
                    why = "the list is compared with %s, not the frame's DF" % (show(cap_exprs[ci]) if ci is not None else cap[0][1])
            else:
                why = "closure %s does not compare a list element with a captured value" % show(ret)
        else:
            why = "closure returns %s" % show(ret)
    if s2neg and member_true is not None:
        member_true = not member_true       # the branch tests the negated predicate
    rep.sample({"rule": "R16.1", "predicate": ("!" if s2neg else "") + show(pe)[:200], "true_means_member": member_true})
    if member_true is None:
        rep.oblige(False, ("filter-form",))
        rep.add(Finding("R16.1", "%s : filter predicate is not `df in list`" % proc.name,
                        "the -f predicate does not test membership of the frame's DF in the list: " + why, reg.loc(s2bb)))
    # the skip edge of s2
    sites = [(bi, t) for bi, t, e in reg.effect_sites() if _state_effect(e)]
    if len(sites) < 3:
        raise Broken("C16 anchor: only %d table/counter effect sites in the region" % len(sites))
    edges = [(v, b) for v, b in s2t["targets"]] + [("else", s2t["otherwise"])]
    n = 0
    skip_vals = []
    for v, b in edges:
        r = reg.reach(start=b)
        reaches = [bi for bi, _ in sites if bi in r]
        if not reaches:
            skip_vals.append(v)
    truth_of = {"0": False, "1": True}
    if len(skip_vals) != 1:
        rep.oblige(False, ("skip-edge",))
        rep.add(Finding("R16.1", "%s : no skip edge" % proc.name,
                        "neither outcome of the -f predicate skips the frame's effects (or both do): %s" % skip_vals, reg.loc(s2bb)))
    elif member_true is not None:
        sv = skip_vals[0]
        if sv == "else":
            others = [truth_of.get(v) for v, _ in s2t["targets"]]
            skip_truth = (not others[0]) if len(others) == 1 and others[0] is not None else None
        else:
            skip_truth = truth_of.get(sv)
        # skip must happen iff df NOT in list
        want_skip_truth = (not member_true)
        ok = skip_truth == want_skip_truth
        rep.oblige(ok, ("skip-polarity",))
        if not ok:
            rep.add(Finding("R16.1", "%s : filter polarity" % proc.name,
                            "frames whose DF IS in the -f list are skipped (and the others applied)", reg.loc(s2bb)))
    # every effect site is dominated by the filter decision block, and by the None/pass structure
    for bi, t in sites:
        n += 1
        r = reg.reach(avoid={s1bb})
        ok = bi not in r
        rep.oblige(ok, ("filter-dominates", callee_name(t)))
        if not ok:
            rep.add(Finding("R16.1", "%s : %s not under the -f decision" % (proc.name, callee_name(t)),
                            "%s can run without the -f list being consulted: a filtered-out frame changes table/counters" % callee_name(t),
                            reg.loc(bi)))
    # without -f nothing is filtered: from the None edge of the Option test every effect site is still reachable
    none_t = None
    for v, b in s1t["targets"]:
        if int(v) == s1_none_val:
            none_t = b
    if none_t is None and [int(v) for v, _ in s1t["targets"]] == [1 - s1_none_val]:
        none_t = s1t["otherwise"]
    if none_t is not None:
        r = reg.reach(start=none_t)
        lost = [callee_name(t) for bi, t in sites if bi not in r]
        rep.oblige(not lost, ("no-filter-applies-all",))
        if lost:
            rep.add(Finding("R16.1", "%s : frames dropped when -f is not given" % proc.name,
                            "without -f the effects %s are not reachable: every frame is treated as filtered out" % lost, reg.loc(s1bb)))
    # the Some edge of s1 must lead to the predicate (s2 reachable only via the Some edge)
    rep.instances("R16.1", n, floor=3, what="table/counter effect sites under the filter")



def _rest(facts, rep, reg, proc, du, cfg):
    # --- R16.2 counter step
    counters = [(bi, t) for bi, t, e in reg.effect_sites() if any(x[0] == "btree" for x in e)]
    if len(counters) != 1:
        raise Broken("C16 anchor: %d counter-updating calls in the region" % len(counters))
    cbi, ct = counters[0]
    cname = callee_name(ct)
    cb = facts.bodies[cname]
    cdu = DefUse(cb)
    step = _counter_step(facts, cb, cdu)
    rep.instances("R16.2", 1, floor=1)
    ok = step is not None and step["absent"] == 1 and step["inc"] == 1
    rep.oblige(ok, ("step",))
    rep.sample({"rule": "R16.2", "fn": cname, "step": step})
    if step is None:
        raise Broken("R16.2: counter update form not recognised in %s" % cname)
    if not ok:
        rep.add(Finding("R16.2", "%s : absent->%s, n->n+%s" % (cname, step["absent"], step["inc"]),
                        "the first frame of a DF sets its counter to %s and later frames add %s: counts are not exact"
                        % (step["absent"], step["inc"]), cb.loc()))
    # key of the entry is the fn's parameter, and the call passes the frame's DF
    key_ok = step["key"][0] == "arg"
    arg_expr = expr(du, ct["args"][step["key"][1] - 1]) if key_ok else None
    ok = key_ok and df_of_line(arg_expr)
    rep.oblige(ok, ("key",))
    if not ok:
        rep.add(Finding("R16.3", "%s : counted key is not the frame's DF" % proc.name,
                        "the counter is keyed by %s" % (show(arg_expr) if arg_expr else show(step["key"])), reg.loc(cbi)))
    # counted only for ACCEPTED frames with a non-zero address: the counting site is dominated by all three gates
    gates = reg.gates()
    for g in gates:
        okg = reg.dominated_by_gate(cbi, gates[g])
        rep.oblige(okg, ("count-gate", g))
        if not okg:
            rep.add(Finding("R16.3", "DF counted before gate %s" % g,
                            "a frame is counted although %s has not accepted it (e.g. a frame whose address is zero is counted)" % g, reg.loc(cbi)))
    # counted under count_df only
    from ..mirq import controlling_decisions
    decs = controlling_decisions(proc, cfg, cbi)
    under = False
    for s, vals, live in decs:
        e = expr(du, proc.blocks[s]["term"]["discr"])
        if e[0] == "arg" and e[2][-1:] == ("count_df",):
            under = vals != frozenset(["0"])
    rep.oblige(under, ("under-c",))
    if not under:
        rep.add(Finding("R16.3", "%s : counting not under -c" % proc.name, "DF counting is not guarded by the -c option", reg.loc(cbi)))
    # map type + printer
    fld = None
    for an, a in facts.adts.items():
        for v in a["variants"]:
            for f in v["fields"]:
                if f["name"] == step["field"]:
                    fld = f["ty"]["s"]
    ok = fld is not None and "BTreeMap<u32" in fld
    rep.oblige(ok, ("ordered-map",))
    if not ok:
        rep.add(Finding("R16.3", "counter map type %s" % fld, "the DF counter map is not an ordered map keyed by DF: %s" % fld, None))
    printers = []
    for b in facts.bodies.values():
        if b.kind in ("promoted",):
            continue
        for bb, t in b.calls():
            c = t["callee"]
            if c.get("name") in ("iter", "into_iter", "keys", "values") and "BTreeMap" in (
                    (c.get("path") or "") + (c.get("impl_self") or "") + " ".join(c.get("generic_args") or []) + ((c.get("arg0_ty") or {}).get("s") or "")):
                printers.append((b, t))
    ok = len(printers) == 1 and not any(t["callee"].get("name") in ("rev",) for _, t in printers[0][0].calls())
    rep.oblige(ok, ("printer",))
    if not ok:
        rep.add(Finding("R16.3", "counter printers=%d" % len(printers), "the DF counter line is not produced by one ascending walk of the map", None))
    else:
        pb = printers[0][0]
        # the fold closure prints both components of the entry
        fcs = [c for c in facts.closures_of(pb.name)]
        sites = [s for s in facts.fmt_sites if _in_body(s, pb)]
        ok2 = any(len([p for p in s["pieces"] if "arg" in p]) >= 2 for s in sites)
        rep.oblige(ok2, ("printer-fmt",))
        if not ok2:
            rep.add(Finding("R16.3", "%s : counter line does not print key and count" % pb.name, "the counter line omits DF or count", pb.loc()))
    rep.instances("R16.3", 5, floor=5)
    rep.assumptions += ["'accepted frame' is what passes the three gates (C02/C04); the gates' own correctness is C02/C04's"]



# --------------------------------------------------------------------------------------------------------------------
# R16.1 by evaluation: when the -f decision is not written in one of the recognised shapes (a mask built once per stream,
# a helper that returns a lookup table, ...), the decision is still a function of (the -f list, the frame's DF): its
# expression tree is evaluated - crate functions through E2 on constant arguments, the arithmetic directly - for every DF
# 0..31 against a family of lists (absent, empty, singletons, ordered pairs with and without repeats, a b a triples).

_LIST_DFS = (0, 4, 5, 11, 16, 17, 18, 20, 21, 31)


def _filter_lists():
    out = [None, []]
    out += [[a] for a in _LIST_DFS]
    out += [[a, b] for a in _LIST_DFS for b in _LIST_DFS]
    out += [[a, b, a] for a in (4, 17, 20) for b in (5, 18, 21)]
    out += [[a, a, a] for a in (4, 17)]
    out += [[21, 4], [4, 40], [33]]
    return out


class _Unknown(Exception):
    pass


def _eval_decision(facts, proc, e, flt, df, cache):
    """value (bool / int) of the decision expression tree for one -f list and one DF.  Arithmetic is done here; every call -
    crate function, closure, std method - is evaluated by E2 on the constant arguments (results cached per list)."""
    from ..absint.ctx import new_interp, ref_to
    from ..absint.domain import INT_TYPES, BoolV, ClosureV, EnumV, FnV, IntV, RefV, StructV, TupleV, VecV
    from ..absint.interp import Diverge, State, _structured_const
    from ..absint.k2 import args_value

    def args_struct():
        a = args_value(facts, {})
        f = dict(a.fields)
        f["filter"] = EnumV.none() if flt is None else EnumV.some(VecV([IntV.const("u32", x) for x in flt], elem_ty="u32"))
        return StructV(a.adt, f)

    def to_py(v):
        if isinstance(v, IntV) and v.is_const():
            return v.lo
        if isinstance(v, BoolV) and v.val is not None:
            return v.val
        return v

    def to_e2(v, ty="u32"):
        if isinstance(v, bool):
            return BoolV(v)
        if isinstance(v, int):
            ty = ty.lstrip("&").replace("mut ", "")
            return IntV.const(ty if ty in INT_TYPES else "u32", v)
        return v

    def run_call(name, vals):
        def kr(v):
            if isinstance(v, ClosureV):
                return "closure %s [%s]" % (v.body, ", ".join(kr(c) for c in v.captures))
            if isinstance(v, TupleV):
                return "(%s)" % ", ".join(kr(c) for c in v.items)
            return repr(v)
        key = (name, repr([kr(v) for v in vals]), repr(flt))
        if key in cache:
            return cache[key]
        I = new_interp(facts)
        I.ctx_label = "R16.1 decision"
        st = State()
        try:
            cb = facts.bodies.get(name)
            if cb is not None and cb.kind == "closure":
                env = vals[0]
                rest = vals[1].items if isinstance(vals[1], TupleV) else list(vals[1:])
                st, rv = I.call_value(st, env, [to_e2(x) for x in rest])
            elif cb is not None:
                args = []
                for i, v in enumerate(vals):
                    ty = cb.locals[i + 1]["ty"]["s"]
                    v = to_e2(v, ty)
                    args.append(ref_to(I, st, v) if (ty.startswith("&") and not isinstance(v, RefV)) else v)
                st, rv = I.run_body(st, cb, args)
            else:
                st, rv = I.call_value(st, FnV(name), [to_e2(x) for x in vals])
            if isinstance(rv, RefV):
                rv = I.get_path(st, rv.cell, rv.proj)
        except Diverge:
            raise _Unknown("%s panics on these arguments" % name)
        if any(w[0] == "unmodelled" for w in I.warnings):
            raise _Unknown("%s: %s" % (name, [w[1] for w in I.warnings if w[0] == "unmodelled"][:2]))
        cache[key] = to_py(rv)
        return cache[key]

    def ev(x):
        if df_of_line(x):
            return df
        k = x[0]
        if k == "const":
            v = x[1]
            if isinstance(v, str):
                raise _Unknown("opaque constant %s" % v[:40])
            if isinstance(v, tuple) and v and v[0] == "__value__":
                import json
                sv = _structured_const(json.loads(v[1]))
                if sv is None:
                    raise _Unknown("constant")
                return to_py(sv)
            return v
        if k == "arg":
            path = tuple(p_ for p_ in x[2] if p_ != "deref")
            ty = proc.locals[x[1]]["ty"]["s"] if isinstance(x[1], int) and x[1] < len(proc.locals) else ""
            if ty.rstrip(">").endswith("::Args") or ty.endswith("Args"):
                if not path:
                    return args_struct()
                if path[-1:] == ("filter",):
                    return args_struct().fields["filter"]
            raise _Unknown("parameter %s" % show(x)[:60])
        if k == "agg":
            comps = [ev(c) for c in x[2]]
            if x[1] == "closure" and len(x) > 3:
                return ClosureV(x[3], [to_e2(c) for c in comps])
            if x[1] == "tuple":
                return TupleV([to_e2(c) for c in comps])
            if x[1] == "array":
                return VecV([to_e2(c) for c in comps])
            if x[1] == "adt" and len(x) > 5:
                info = facts.adts.get(x[3])
                if x[3] in ("std::option::Option", "std::result::Result") or (info and info["kind"] == "enum"):
                    return EnumV(x[3], {str(x[5]): (tuple(to_e2(c) for c in comps), {})})
                return StructV(x[3], {n: to_e2(c) for n, c in zip(x[4], comps)})
            raise _Unknown("aggregate %s" % x[1])
        if k == "bin":
            l, r = ev(x[2]), ev(x[3])
            if isinstance(l, bool) and isinstance(r, bool):
                return {"Eq": l == r, "Ne": l != r, "BitAnd": l and r, "BitOr": l or r, "BitXor": l != r}[x[1]]
            if not (isinstance(l, int) and isinstance(r, int)):
                raise _Unknown("operands of %s" % x[1])
            op = x[1].replace("WithOverflow", "")
            if op in ("Shl", "Shr") and not (0 <= r < 128):
                raise _Unknown("shift amount")
            if op in ("Div", "Rem") and r == 0:
                raise _Unknown("division by zero")
            return {"Add": lambda: l + r, "Sub": lambda: l - r, "Mul": lambda: l * r, "BitAnd": lambda: l & r, "BitOr": lambda: l | r,
                    "BitXor": lambda: l ^ r, "Shl": lambda: l << r, "Shr": lambda: l >> r, "Eq": lambda: l == r, "Ne": lambda: l != r,
                    "Lt": lambda: l < r, "Le": lambda: l <= r, "Gt": lambda: l > r, "Ge": lambda: l >= r,
                    "Div": lambda: l // r, "Rem": lambda: l % r}[op]()
        if k == "un":
            v = ev(x[2])
            if x[1] == "Not" and isinstance(v, bool):
                return not v
            if x[1] == "Neg" and isinstance(v, int) and not isinstance(v, bool):
                return -v
            raise _Unknown("unary %s" % x[1])
        if k == "cast":
            v = ev(x[2])
            if isinstance(v, bool):
                return int(v)
            if isinstance(v, int):
                if x[3] in INT_TYPES and not INT_TYPES[x[3]][1]:
                    return v & ((1 << INT_TYPES[x[3]][0]) - 1)
                return v
            return v        # pointer / unsize coercions
        if k == "discr":
            v = ev(x[1])
            if isinstance(v, EnumV) and len(v.variants) == 1:
                return {"None": 0, "Some": 1, "Ok": 0, "Err": 1}.get(list(v.variants)[0])
            raise _Unknown("discriminant")
        if k == "path":
            v = ev(x[1])
            for st_ in x[2]:
                if st_ == "deref":
                    continue
                if isinstance(st_, str) and st_.startswith("as:") and isinstance(v, EnumV) and v.only(st_[3:]):
                    v = TupleV(list(v.variants[st_[3:]][0]))
                elif isinstance(v, TupleV) and isinstance(st_, int) and st_ < len(v.items):
                    v = v.items[st_]
                elif isinstance(v, StructV) and st_ in v.fields:
                    v = v.fields[st_]
                else:
                    raise _Unknown("projection %s" % (st_,))
            return to_py(v)
        if k == "call":
            vals = [ev(a) for a in x[2]]
            r = run_call(x[1], vals)
            if r is None or not isinstance(r, (int, bool, EnumV, TupleV, StructV, VecV)):
                raise _Unknown("%s did not evaluate to a constant (%r)" % (x[1], r))
            return r
        raise _Unknown("node %s" % k)

    v = ev(e)
    if isinstance(v, (bool, int)):
        return v
    raise _Unknown("decision value %r" % (v,))


def _semantic_filter(facts, rep, reg, readers):
    """-> True when R16.1 was decided by evaluation (findings added if it fails), False if no such decision exists"""
    from ..lineexpr import walk
    proc, du = reg.proc, reg.du
    sites = [(bi, t) for bi, t, e in reg.effect_sites() if _state_effect(e)]
    if len(sites) < 3:
        return False
    cands = []
    for bi in sorted(reg.blocks):
        t = proc.blocks[bi]["term"]
        if t["k"] != "switch":
            continue
        e = expr(du, t["discr"])
        nodes = list(walk(e))
        uses_filter = any((x[0] == "arg" and "filter" in tuple(x[2])) or (x[0] == "call" and x[1] in readers) for x in nodes)
        uses_df = any(df_of_line(x) for x in nodes)
        if uses_filter and uses_df:
            cands.append((bi, t, e))
    if len(cands) != 1:
        return False
    sbb, swt, e = cands[0]
    edges = [(int(v), b) for v, b in swt["targets"]] + [("else", swt["otherwise"])]
    skip_vals = []
    for v, b in edges:
        r = reg.reach(start=b)
        if not [bi for bi, _ in sites if bi in r]:
            skip_vals.append(v)
    if len(skip_vals) != 1:
        rep.oblige(False, ("skip-edge",))
        rep.add(Finding("R16.1", "%s : no skip edge" % proc.name,
                        "neither outcome of the -f decision skips the frame's effects (or both do): %s" % skip_vals, reg.loc(sbb)))
        rep.instances("R16.1", 1, floor=1)
        return True
    explicit = [v for v, _ in edges if v != "else"]

    def skipped(val):
        val = int(val)
        taken = val if val in explicit else "else"
        return taken == skip_vals[0]

    cache = {}
    n = 0
    bad = []
    for flt in _filter_lists():
        for df in range(32):
            n += 1
            try:
                val = _eval_decision(facts, proc, e, flt, df, cache)
            except _Unknown as ex:
                raise Broken("C16: the -f decision %s cannot be evaluated (%s)" % (show(e)[:100], ex))
            want_skip = flt is not None and df not in flt
            if skipped(val) != want_skip:
                bad.append((flt, df, skipped(val)))
    rep.oblige(not bad, ("filter-semantics",))
    rep.sample({"rule": "R16.1", "decision": show(e)[:200], "evaluated": n, "lists": len(_filter_lists())})
    if bad:
        flt, df, sk = bad[0]
        rep.add(Finding("R16.1", "%s : the -f decision is not `df in list`" % proc.name,
                        "with %s a DF%d frame is %s (%d of %d evaluated (list, DF) pairs disagree with membership, e.g. %s)"
                        % (" ".join("-f %d" % x for x in flt) if flt else ("(no -f)" if flt is None else "(empty list)"), df,
                           "dropped although listed" if sk else "applied and counted although its format is not listed", len(bad), n,
                           [(b[0], b[1]) for b in bad[:3]]), reg.loc(sbb)))
    # every effect site is under that decision
    k = 0
    for bi, t in sites:
        k += 1
        r = reg.reach(avoid={sbb})
        ok = bi not in r
        rep.oblige(ok, ("filter-dominates", callee_name(t)))
        if not ok:
            rep.add(Finding("R16.1", "%s : %s not under the -f decision" % (proc.name, callee_name(t)),
                            "%s can run without the -f list being consulted: a filtered-out frame changes table/counters" % callee_name(t),
                            reg.loc(bi)))
    rep.instances("R16.1", k, floor=3, what="table/counter effect sites under the filter (decision evaluated on %d (list, DF) pairs)" % n)
    return True


def _closure_of(proc, du, call_expr):
    """the closure aggregate statement passed as 2nd argument to the call whose expression tree is call_expr"""
    name = call_expr[1]
    for bi, t in proc.calls():
        if callee_name(t) == name and len(t["args"]) >= 2:
            r = du.root(t["args"][1])
            if r and r[0] == "rv" and r[1]["rv"].get("agg") == "closure":
                if expr(du, t["args"][0]) == call_expr[2][0]:
                    return r[1]
    return None


def _list_sorted_somewhere(facts, field):
    """is a sort applied to Args.<field> anywhere in the crate (e.g. right after parsing)?"""
    for b in facts.bodies.values():
        if b.kind == "promoted" or "::tests::" in b.name:
            continue
        du = None
        for bi, t in b.calls():
            if t["callee"].get("name") in ("sort", "sort_unstable", "sort_by", "sort_by_key", "sort_unstable_by", "sort_unstable_by_key") and t["args"]:
                du = du or DefUse(b)
                if ("." + field) in show(expr(du, t["args"][0])) or show(expr(du, t["args"][0])).endswith(field):
                    return True
    return False


def _call_arg(proc, du, swbb, swt, idx):
    """operand #idx of the call whose result the switch at swbb tests"""
    r = du.root(swt["discr"])
    if r[0] == "call":
        return r[1]["args"][idx]
    return None


def _in_body(site, body):
    sp = site["span"]
    cs = sp.get("callsite") or sp
    bs = body.j["span"]
    return cs.get("file") == bs.get("file") and bs["line"] <= cs["line"] <= bs["hi_line"]


def _counter_step(facts, cb, du):
    """recognise  *map.entry(k).or_insert(c) += k   |  entry(k).and_modify(|c| *c += a).or_insert(b)  |  or_default() += k"""
    entry = [t for _, t in cb.calls() if t["callee"].get("name") == "entry"]
    if len(entry) != 1:
        return None
    key = expr(du, entry[0]["args"][1])
    mp = expr(du, entry[0]["args"][0])
    field = mp[2][-1] if mp[0] == "arg" and mp[2] else None
    oi = [t for _, t in cb.calls() if t["callee"].get("name") in ("or_insert", "or_default")]
    am = [t for _, t in cb.calls() if t["callee"].get("name") == "and_modify"]
    if len(oi) != 1:
        return None
    init = 0
    if oi[0]["callee"].get("name") == "or_insert":
        ie = expr(du, oi[0]["args"][1])
        if ie[0] != "const":
            return None
        init = ie[1]
    # post-add on the returned reference
    post = 0
    dest = oi[0]["dest"]["local"]
    for bi, blk in enumerate(cb.blocks):
        for s in blk["stmts"]:
            if s["k"] == "assign" and s["place"]["proj"] and s["place"]["proj"][0]["k"] == "deref" and s["place"]["local"] == dest:
                e = expr(du, s["rv"]["x"]) if s["rv"]["k"] == "use" else None
                if e and e[0] == "path" and e[1][0] == "bin" and e[1][1] in ("AddWithOverflow", "Add") and e[1][3][0] == "const":
                    post = e[1][3][1]
                elif e and e[0] == "call" and e[1].split("::")[-1] in ("saturating_add", "wrapping_add") and len(e[2]) == 2 and e[2][1][0] == "const":
                    # n -> min(n + k, MAX): exact below the type's maximum
                    post = e[2][1][1]
                else:
                    return None
    if am:
        r = du.root(am[0]["args"][1])
        if not (r[0] == "rv" and r[1]["rv"].get("agg") == "closure"):
            return None
        mc = facts.bodies[r[1]["rv"]["closure"]]
        mdu = DefUse(mc)
        inc = None
        for bi, blk in enumerate(mc.blocks):
            for s in blk["stmts"]:
                if s["k"] == "assign" and s["place"]["proj"] and s["place"]["proj"][0]["k"] == "deref":
                    e = expr(mdu, s["rv"]["x"]) if s["rv"]["k"] == "use" else None
                    if e and e[0] == "path" and e[1][0] == "bin" and e[1][1] in ("AddWithOverflow", "Add") and e[1][3][0] == "const":
                        inc = e[1][3][1]
                    elif e and e[0] == "call" and e[1].split("::")[-1] in ("saturating_add", "wrapping_add") and len(e[2]) == 2 and e[2][1][0] == "const":
                        inc = e[2][1][1]
            t = blk["term"]
            if t["k"] == "call" and t["callee"].get("name") in ("saturating_add", "wrapping_add") and t["dest"]["proj"] and \
                    t["dest"]["proj"][0]["k"] == "deref" and len(t["args"]) == 2:
                k = expr(mdu, t["args"][1])
                if k[0] == "const":
                    inc = k[1]
        if inc is None or post:
            return None
        return {"absent": init, "inc": inc, "key": key, "field": field, "form": "and_modify+or_insert"}
    return {"absent": init + post, "inc": post, "key": key, "field": field, "form": "or_insert+add"}
