"""C13 — unusable lines affect nothing but themselves.

R13.1 loop-exit discipline: every non-unwind exit of the per-line loop is controlled by
      (a) exhaustion of the line source, (b) a genuine I/O error of the source, or
      (c) an I/O error of the -D log write.  The line source is read as an iterator
      pipeline from MIR (source call + adapters) and classified with a reviewed table:
      `lines`/`read_line` report invalid UTF-8 as Err (content-dependent); `split`/`read_until`
      are byte oriented (Err = I/O only); truncating adapters are allowed only over an
      I/O-only Err.
R13.2 no state leaks from a rejected line: every mutation of loop-carried state inside the
      loop (stores to locals defined outside, calls receiving `&mut` of them or of the
      function's reference parameters, calls with table/row/counter effects) is dominated by
      the three accept gates.
"""
from ..cfg import CFG
from ..effects import Effects, display_only_fields
from ..facts import Broken, callee_name, span_loc
from ..mirq import DefUse, operand_place
from ..region import Region
from ..report import Finding

LEVEL = "other"

# line sources: path suffix -> (description, Err may depend on line CONTENT?)
SOURCES = {
    "io::BufRead::lines": ("BufRead::lines (String per line)", True),
    "io::BufRead::split": ("BufRead::split (bytes per line)", False),
}
# adapters: name -> kind
ADAPTERS = {
    "into_iter": "neutral", "by_ref": "neutral", "map": "neutral", "inspect": "neutral", "enumerate": "neutral",
    "peekable": "neutral", "fuse": "neutral", "filter": "skip", "filter_map": "skip", "flatten": "skip",
    "flat_map": "skip", "map_while": "truncate", "take_while": "truncate", "scan": "truncate", "take": "truncate",
    "step_by": "drop", "skip": "drop", "skip_while": "drop", "chain": "neutral", "rev": "neutral",
}
NEXT_FNS = ("iter::Iterator::next",)


def pipeline(du, op):
    """walk the receiver chain of an iterator value back to its source: [(name, path, term)] outermost first"""
    out = []
    cur = op
    for _ in range(32):
        r = du.root(cur)
        if r[0] != "call":
            out.append((r[0], None, None))
            break
        t = r[1]
        c = t["callee"]
        out.append((c.get("name"), c.get("path"), t))
        if not t["args"]:
            break
        cur = t["args"][0]
    return out


def classify_source(pipe):
    """-> (ok, why, description)"""
    names = [p[0] for p in pipe]
    src = pipe[-1] if pipe else None
    # find the source call: last call in chain whose path is in SOURCES
    src_i = None
    for i, (n, path, t) in enumerate(pipe):
        if path and any(path.endswith(s) for s in SOURCES):
            src_i = i
            break
    if src_i is None:
        return None, "line source not recognised: %s" % names, names
    spath = pipe[src_i][1]
    skey = [s for s in SOURCES if spath.endswith(s)][0]
    desc, content_err = SOURCES[skey]
    adapters = pipe[:src_i]
    problems = []
    for n, path, t in adapters:
        kind = ADAPTERS.get(n)
        if kind is None:
            return None, "iterator adapter %r not classified" % n, names
        if kind == "truncate" and content_err:
            problems.append("`%s` ends the line stream at the first Err of %s, and that Err is produced by line CONTENT "
                            "(bytes that are not valid UTF-8)" % (n, desc))
        if kind == "drop":
            problems.append("`%s` drops lines by position" % n)
        if kind == "truncate" and n in ("take", "scan", "take_while"):
            problems.append("`%s` may end the stream early" % n)
    return (not problems), "; ".join(problems), {"source": desc, "adapters": [a[0] for a in adapters][::-1]}


# std readers whose Err is a genuine I/O failure, never a property of the bytes read (read_line / lines / read_to_string
# are NOT here: they report invalid UTF-8 as an error)
PURE_IO = {"std::io::BufRead::read_until", "std::io::BufRead::skip_until", "std::io::BufRead::fill_buf", "std::io::Read::read",
           "std::io::Read::read_exact", "std::io::Read::read_to_end", "std::io::Write::write_all", "std::io::Write::flush",
           "std::io::Write::write_fmt", "std::io::Write::write"}
# ... and that return the number of bytes read, 0 meaning end of input
COUNT_READERS = {"std::io::BufRead::read_until", "std::io::Read::read", "std::io::BufRead::skip_until"}


def io_only_result(facts, term):
    """the call returns io::Result and neither it nor its crate callees build an io::Error themselves"""
    c = term["callee"]
    name = c.get("instance") or c.get("path")
    p0 = c.get("path") or ""
    if p0 in PURE_IO:
        return True, ""
    if name not in facts.bodies:
        return False, "callee %s has no MIR" % name
    b = facts.bodies[name]
    ret = b.locals[0]["ty"]["s"]
    if "std::io::Error" not in ret or "Result" not in ret:
        return False, "%s does not return io::Result (%s)" % (name, ret)
    from ..cfg import call_graph, reachable_bodies
    for n in reachable_bodies(facts, [name]):
        for _, t in facts.bodies[n].calls():
            p = t["callee"].get("path") or ""
            if p.startswith("std::io::Error::") or p.startswith("std::io::error::Error::"):
                return False, "%s constructs an io::Error itself" % n
    return True, ""


def _tracked_mut(ty):
    """True unless the type is a `&mut` to something whose mutation the effect summaries do not track"""
    if ty["k"] != "ref" or not ty.get("mut"):
        return True
    s = ty["s"]
    return any(s.endswith(x) for x in ("counters::AppCounters", "planes::Planes", "plane::Plane"))


def _bypassed_gate(facts, rep):
    """The reader accepts lines through something other than `get_message`.  One thing can still be decided: if a function
    called on the way to the table update gets a `&mut` to state that lives across iterations, then every line - accepted or
    not - can leave a trace there (a rejected line then changes how later lines are treated).  -> True if reported."""
    from ..cfg import CFG
    from ..tableupd import describe
    try:
        upd = describe(facts)["body"].name
    except Broken:
        return False
    found = False
    n = 0
    for b in sorted(facts.bodies.values(), key=lambda x: x.name):
        if b.kind == "promoted" or "::tests::" in b.name:
            continue
        ups = [bb for bb, t in b.calls() if callee_name(t) == upd]
        if not ups:
            continue
        cfg = CFG(b)
        du = DefUse(b)
        for h, blks in cfg.loops().items():
            if ups[0] not in blks:
                continue
            blks = set(blks)
            for bi in sorted(blks):
                t = b.blocks[bi]["term"]
                if t["k"] != "call" or callee_name(t) not in facts.bodies or not cfg.dominates(bi, ups[0]) or bi == ups[0]:
                    continue
                for a in t["args"]:
                    pl = operand_place(a)
                    if pl is None:
                        continue
                    ds = du.whole_defs(pl["local"])
                    if len(ds) != 1 or ds[0][0] != "stmt" or ds[0][3]["rv"]["k"] != "ref" or not ds[0][3]["rv"].get("mut"):
                        continue
                    from ..linebuf import _mut_base
                    base = _mut_base(du, a)
                    if base is None:
                        continue
                    bds = du.whole_defs(base)
                    n += 1
                    if base > b.arg_count and bds and all(d[1] not in blks for d in bds):
                        nm = b.locals[base].get("name") or "_%d" % base
                        found = True
                        rep.oblige(False, ("bypass-state", bi))
                        rep.add(Finding("R13.2", "%s : call %s before the table update gets &mut of loop-carried `%s`" % (b.name, callee_name(t), nm),
                                        "the reader does not accept lines through get_message; %s, called for every line on the way to the table "
                                        "update, can write `%s`, which lives across iterations: a line that is rejected can leave a trace that "
                                        "changes how later lines are processed" % (callee_name(t), nm), span_loc(t.get("span"))))
    if found:
        rep.instances("R13.1", 1, floor=0)
        rep.instances("R13.2", n, floor=1, what="&mut arguments of per-line calls (reader without get_message)")
        rep.instances("R13.3", 1, floor=0)
    return found


def run(facts, rep, tier):
    rep.explanation = (
        "Structural proof over the CFG of the per-line loop (found by role: the loop containing the call to "
        "get_message). R13.1: every non-unwind loop exit edge is traced (def-use) to the call that controls it and "
        "classified: iterator exhaustion of a reviewed line source/adapter pipeline, or an io::Result of a function "
        "that only propagates std I/O errors. R13.2: every mutation of loop-carried state in the loop body is "
        "dominated by the Some-edges of get_message/get_downlink_format/get_icao (edge-cut reachability)."
    )
    rep.trusted = ["rustc MIR", "source/adapter classification table in sq/rules/c13.py (std semantics)"]
    rep.rule("R13.1", "loop exits only on source exhaustion / genuine I/O error; no content-dependent truncation", "P")
    rep.rule("R13.2", "no loop-carried state is written before the accept gates", "P")
    rep.rule("R13.3", "rejecting a line cannot panic: the gate is panic-free on every junk-line context (E2 obligations)", "P")
    eff = Effects(facts)
    from ..region import GateBypassed
    try:
        reg = Region(facts, eff)
    except GateBypassed as ex:
        if _bypassed_gate(facts, rep):
            return
        raise ex
    body, cfg, du = reg.loop_body, reg.loop_cfg, DefUse(reg.loop_body)
    lblocks = reg.loop_blocks
    exits = [(a, b) for a, b in cfg.loop_exits(lblocks) if body.blocks[b]["term"]["k"] != "unreachable"
             and not body.blocks[b]["cleanup"]]
    # an exit decided on a bool temporary that only ever holds constants (`matches!(..)`, `a && b`): the decisions that
    # select the constant are the real exit controllers
    from ..mirq import controlling_decisions as _cd
    expanded = []
    for a, b in exits:
        t = body.blocks[a]["term"]
        done = False
        if t["k"] == "switch":
            r0 = du.root(t["discr"])
            if r0[0] == "multi":
                ds = du.whole_defs(r0[1])
                consts = []
                for d in ds:
                    if d[0] == "stmt" and d[3]["rv"]["k"] == "use" and "const" in d[3]["rv"]["x"] and "int" in d[3]["rv"]["x"]["const"]:
                        consts.append((d[1], int(d[3]["rv"]["x"]["const"]["int"])))
                if ds and len(consts) == len(ds):
                    for bd, v in consts:
                        tgt = t["otherwise"]
                        for val, bb2 in t["targets"]:
                            if int(val) == v:
                                tgt = bb2
                        if tgt != b:
                            continue
                        for sbb, vals, live in _cd(body, cfg, bd):
                            if sbb in lblocks and (sbb, b) not in expanded:
                                expanded.append((sbb, b))
                    done = True
        if not done:
            expanded.append((a, b))
    exits = expanded
    n_exit = 0
    for a, b in exits:
        t = body.blocks[a]["term"]
        n_exit += 1
        if t["k"] != "switch":
            rep.oblige(False, ("exit", a, b))
            rep.add(Finding("R13.1", "%s : loop exit by %s" % (body.name, t["k"]),
                            "the per-line loop is left by a %s terminator, not by a decision on the line source" % t["k"],
                            span_loc(t.get("span"))))
            continue
        r = du.root(t["discr"])
        # discriminant read: root is ('rv', stmt discr) -> follow the place
        ctrl = None
        if r[0] == "rv" and r[1]["rv"]["k"] == "discr":
            r2 = du.root_place(r[1]["rv"]["place"])
            ctrl = r2
        else:
            ctrl = r
        if ctrl[0] == "rv" and ctrl[1]["rv"]["k"] == "bin" and ctrl[1]["rv"]["op"] in ("Eq", "Ne", "Gt", "Le", "Lt", "Ge"):
            # `if reader.read_until(..)? == 0 { break }` : end of input reported as a zero byte count
            from ..mirq import expr as _expr, show as _show
            e = _expr(du, t["discr"])
            # n == 0 / n != 0 / n > 0 / n <= 0 / 0 < n / n < 1 / n >= 1 : all "did the reader return any byte"
            zero = [x for x in (e[2], e[3]) if x in (("const", 0), ("const", 1))]
            other = [x for x in (e[2], e[3]) if x not in (("const", 0), ("const", 1))]
            src = None
            if zero and other:
                o = other[0]
                if o[0] == "path" and o[1][0] == "call":
                    o = o[1]
                if o[0] == "call" and o[1].split("::")[-1] in ("read_until", "read", "skip_until"):
                    src = o[1]
            ok = src is not None
            rep.oblige(ok, ("exit-count", body.name))
            rep.sample({"rule": "R13.1", "exit": "zero byte count of %s" % src, "ok": ok})
            if not ok:
                rep.add(Finding("R13.1", "%s : loop exit controlled by a comparison" % body.name,
                                "a loop exit is controlled by %s, not by the line source or an I/O result" % _show(e)[:120], span_loc(t.get("span"))))
            continue
        if ctrl[0] != "call":
            rep.oblige(False, ("exit", a, b))
            rep.add(Finding("R13.1", "%s : loop exit controlled by %s" % (body.name, ctrl[0]),
                            "a loop exit is controlled by something other than the line source or an I/O result",
                            span_loc(t.get("span"))))
            continue
        ct = ctrl[1]
        cpath = ct["callee"].get("path") or ""
        cname = callee_name(ct)
        if any(cpath.endswith(n) for n in NEXT_FNS) or ct["callee"].get("name") == "next":
            pipe = pipeline(du, ct["args"][0])
            ok, why, desc = classify_source(pipe)
            if ok is None:
                raise Broken("R13.1: " + why)
            rep.oblige(ok, ("exit-next", body.name))
            rep.sample({"rule": "R13.1", "exit": "iterator exhaustion", "pipeline": desc, "ok": ok})
            if not ok:
                rep.add(Finding("R13.1", "%s : line source %s via %s" % (body.name, desc["source"], "+".join(desc["adapters"])),
                                "the line loop stops early: " + why, span_loc(ct.get("span")), {"pipeline": desc}))
        elif cpath.endswith("ops::Try::branch") or ct["callee"].get("name") == "branch":
            inner = du.root(ct["args"][0])
            if inner[0] == "call":
                ok, why = io_only_result(facts, inner[1])
                rep.oblige(ok, ("exit-try", callee_name(inner[1])))
                rep.sample({"rule": "R13.1", "exit": "`?` on io::Result of %s" % callee_name(inner[1]), "ok": ok})
                if not ok:
                    rep.add(Finding("R13.1", "%s : `?` exit on %s" % (body.name, callee_name(inner[1])),
                                    "the line loop is left on an error that is not a pure I/O failure: " + why,
                                    span_loc(ct.get("span"))))
            elif inner[0] == "multi" and body.locals[inner[1]].get("inlined_from"):
                # the Result of an inlined helper: every definition is `Ok(..)` or the residual of an inner `?`
                bad = []
                srcs = []
                for d in du.whole_defs(inner[1]):
                    if d[0] == "stmt" and d[3]["rv"]["k"] == "agg" and d[3]["rv"].get("variant_idx") == 0:
                        continue
                    if d[0] == "stmt" and d[3].get("inline_ret"):
                        # follow the helper's return place
                        for d2 in du.whole_defs(operand_place(d[3]["rv"]["x"])["local"]):
                            if d2[0] == "stmt" and d2[3]["rv"]["k"] == "agg" and d2[3]["rv"].get("variant_idx") == 0:
                                continue
                            if d2[0] == "call" and d2[3]["callee"].get("name") == "from_residual":
                                srcs.append(d2[3])
                            else:
                                bad.append("definition %s" % d2[0])
                        continue
                    if d[0] == "call" and d[3]["callee"].get("name") == "from_residual":
                        srcs.append(d[3])
                    else:
                        bad.append("definition %s" % d[0])
                for fr in srcs:
                    # residual of `x?` : x's Break payload; x must be a pure-I/O result
                    r0 = du.root(fr["args"][0])
                    src = None
                    if r0[0] == "call" and r0[1]["callee"].get("name") == "branch":
                        r1 = du.root(r0[1]["args"][0])
                        if r1[0] == "call":
                            src = r1[1]
                    if src is None:
                        bad.append("residual of an unknown `?`")
                        continue
                    ok1, why1 = io_only_result(facts, src)
                    if not ok1:
                        bad.append("%s: %s" % (callee_name(src), why1))
                ok = not bad
                rep.oblige(ok, ("exit-try-inlined", body.name))
                rep.sample({"rule": "R13.1", "exit": "`?` on the io::Result of an inlined helper", "ok": ok})
                if not ok:
                    rep.add(Finding("R13.1", "%s : `?` exit on a helper's error" % body.name,
                                    "the line loop is left on an error of the per-line helper that is not a pure I/O failure: %s" % "; ".join(bad[:3]),
                                    span_loc(ct.get("span"))))
            else:
                rep.oblige(False)
                rep.add(Finding("R13.1", "%s : `?` exit on non-call" % body.name, "loop exit via `?` on an unknown value",
                                span_loc(ct.get("span"))))
        else:
            ok, why = io_only_result(facts, ct)
            rep.oblige(ok, ("exit-call", cname))
            if not ok:
                rep.add(Finding("R13.1", "%s : loop exit controlled by result of %s" % (body.name, cname),
                                "a loop exit depends on %s (%s) - a line can end processing early" % (cname, why),
                                span_loc(ct.get("span"))))
    rep.instances("R13.1", n_exit, floor=1, what="non-unwind exit edges of the per-line loop")

    # Return terminators inside the loop body blocks (would be exits too): covered by loop_exits since Return blocks
    # are outside natural loops.  Also: process::exit / abort / panic! calls reachable inside the region.
    for bi in sorted(reg.blocks):
        t = reg.proc.blocks[bi]["term"]
        if t["k"] == "call":
            p = t["callee"].get("path") or ""
            if p in ("std::process::exit", "std::process::abort") or p.startswith("core::panicking::panic") or p.startswith("std::rt::begin_panic"):
                rep.add(Finding("R13.1", "%s : %s in the per-line region" % (reg.proc.name, p),
                                "the per-line code can terminate the process (%s)" % p, span_loc(t.get("span"))))

    # R13.2
    gates = reg.gates()
    proc = reg.proc
    pdu = reg.du
    outside_defined = set()
    for l in range(1, len(proc.locals)):
        ds = pdu.defs.get(l, [])
        if l <= proc.arg_count or any(d[1] not in reg.blocks and not reg.cfg.dominates(reg.header, d[1]) for d in ds):
            outside_defined.add(l)
    if reg.helper is not None:
        outside_defined = set(range(1, proc.arg_count + 1))
    # iterator local: receiver of the `next` at the header is exempt
    exempt_calls = set()
    for bi in reg.loop_blocks:
        t = reg.loop_body.blocks[bi]["term"]
        if t["k"] == "call" and t["callee"].get("name") == "next" and reg.helper is None:
            exempt_calls.add(bi)
    # reading the next line IS the line source (see sq/linebuf.py for the buffer discipline)
    from ..linebuf import analyse as _lb
    lb_exempt, buffers, lb_problems = _lb(reg, pdu, PURE_IO)
    exempt_calls |= lb_exempt
    for key, title, detail, loc in lb_problems:
        rep.oblige(False, key)
        rep.add(Finding("R13.2", "%s : %s" % (proc.name, title), detail, loc))
    display_only = display_only_fields(facts, reg.eff, "AppCounters")
    rep.extra["display_only_fields"] = sorted(display_only)
    rep.extra["line_buffers"] = sorted(buffers)
    sites = []
    for bi in sorted(reg.blocks):
        blk = proc.blocks[bi]
        for s in blk["stmts"]:
            if s["k"] == "assign":
                pl = s["place"]
                if pl["local"] in outside_defined and (pl["proj"] or pl["local"] > proc.arg_count):
                    # a store into pre-existing state (whole-local re-assignment of a temp defined outside is state too)
                    ty = proc.locals[pl["local"]]["ty"]
                    sites.append((bi, "store to loop-carried local _%d (%s)" % (pl["local"], proc.locals[pl["local"]].get("name") or ty["s"]), s.get("span")))
        t = blk["term"]
        if t["k"] == "call" and bi not in exempt_calls:
            e = reg.eff.of_call(t)
            st = [x for x in e if x[0] in ("table", "btree") or (x[0] == "field" and x[1].split("::")[-1] in ("AppCounters", "Plane", "Planes")
                                                                  and not (x[1].split("::")[-1] == "AppCounters" and x[2] in display_only))]
            mut_arg = False
            # a crate function whose `&mut` parameters are all crate state types is fully described by its effect summary
            summarised = callee_name(t) in reg.eff.trans and all(
                _tracked_mut(proc.locals[operand_place(a)["local"]]["ty"]) for a in t["args"] if operand_place(a) is not None)
            for a in t["args"]:
                r = pdu.root(a)
                pl = operand_place(a)
                if pl is None:
                    continue
                aty = proc.locals[pl["local"]]["ty"]
                if aty["k"] == "ref" and aty.get("mut"):
                    # &mut of what?
                    if r[0] == "arg":
                        mut_arg = True
                    elif r[0] == "multi" and r[1] in outside_defined:
                        mut_arg = True
                    elif r[0] in ("rv",):
                        pass
                    # `&mut local` where local is defined outside the loop
                    ds = pdu.whole_defs(pl["local"])
                    for d in ds:
                        if d[0] == "stmt" and d[3]["rv"]["k"] == "ref" and d[3]["rv"]["mut"]:
                            base = d[3]["rv"]["place"]["local"]
                            if base in outside_defined:
                                mut_arg = True
                            else:
                                rb = pdu.root_place(d[3]["rv"]["place"])
                                if rb[0] == "arg" or (rb[0] == "multi" and rb[1] in outside_defined):
                                    mut_arg = True
            if summarised:
                mut_arg = False
            if st or mut_arg:
                sites.append((bi, "call %s (%s)" % (callee_name(t), "state effects" if st else "&mut of loop-carried state"), t.get("span")))
    n = 0
    for bi, what, sp in sites:
        for g in gates:
            ok = reg.dominated_by_gate(bi, gates[g])
            n += 1
            rep.oblige(ok, ("gate", what, g))
            if not ok:
                rep.add(Finding("R13.2", "%s : %s before gate %s" % (proc.name, what.split(" (")[0], g),
                                "%s can execute for a line that %s rejects: a rejected line leaves a trace in loop-carried state"
                                % (what, g), span_loc(sp)))
    rep.sample({"rule": "R13.2", "mutation_sites": [w for _, w, _ in sites], "gates": list(gates)})
    rep.instances("R13.2", n, floor=9, what="(state mutation site x gate) dominance facts")
    # R13.3: a panic while rejecting a line ends processing early just as a loop exit would
    from ..absint.batch import k2_results
    from ..absint.query import sel
    out = k2_results(facts, tier)
    n3 = 0
    seen = set()
    from ..absint.domain import EnumV
    for r in sel(out["results"], "K1"):
        if not (isinstance(r.gate, EnumV) and r.gate.only("None")) and not (r.diverged and not isinstance(r.gate, EnumV)):
            continue        # an accepted line: what runs after the gate is not "rejecting a line"
        n3 += 1
        bad = [o for o in r.obligations if not o["ok"]]
        for o in bad:
            if o["site"] in seen:
                continue
            seen.add(o["site"])
            rep.add(Finding("R13.3", "%s" % o["site"], "while deciding about an unusable line (context '%s') the gate can panic at %s (%s): "
                            "the reader thread dies and every later line is lost" % (r.ctx["label"], o["site"], o["ops"]), o.get("loc")))
        ws = [w for w in r.warnings if w[0] in ("unmodelled", "line-use")]
        for w in ws:
            k = ("w", w[1])
            if k in seen:
                continue
            seen.add(k)
            rep.add(Finding("R13.3", "unreviewed use of the line : %s" % w[1], "while deciding about an unusable line (context '%s') the gate "
                            "calls %s, whose panics on arbitrary text (byte-offset slicing, non-ASCII input) are not ruled out" % (r.ctx["label"], w[1]), None))
        if r.diverged and "panic" in r.diverged and ("p", r.diverged) not in seen:
            seen.add(("p", r.diverged))
            rep.add(Finding("R13.3", "gate always panics : %s" % r.ctx["label"], "every line of context '%s' panics (%s)" % (r.ctx["label"], r.diverged), None))
        rep.oblige(not bad and not ws, ("junk-panic-free", r.ctx["label"]))
    rep.instances("R13.3", n3, floor=50, what="junk-line contexts (digit counts 0..64, DF/length mismatches, prefixed lines)")
    rep.extra["loop"] = {"body": body.name, "header_bb": reg.header, "blocks": len(lblocks), "helper": reg.helper.name if reg.helper else None}
    rep.assumptions += [
        "std: BufRead::lines yields Err(InvalidData) for a line that is not valid UTF-8; BufRead::split yields Err only for I/O errors",
        "memory behaviour on very long lines is not decided",
    ]
