"""C03 — every frame is attributed to exactly the address it encodes; rows are isolated.

R03.1 [proof] address source: for DF11/17/18 the address is exactly frame bits 9-32 (AA); for DF0/4/5/16/20/21 it is the
      last 24 bits XOR the CRC (R03.3);
R03.2 [proof] a zero address is dropped (the Some payload excludes 0);
R03.3 [proof] the CRC is the Mode S CRC-24: each of the 24 address bits equals AP bit XOR the XOR-set obtained by
      polynomial division by 0x1FFF409 of the 32 / 88 data bits - a GF(2)-linear identity, i.e. for all payloads;
R03.4 [proof, structural] single writer: the table's only mutations are one entry(k).and_modify(c).or_insert(v) chain and
      one retain(+shrink_to_fit); k is the function's address parameter, which at the call site is get_icao of the
      current line; the and_modify closure captures no table/row/static and only reaches row-local effects; v is built
      by a constructor given the same k;
R03.5 [proof] every store to Plane.icao is the key / the frame's own get_icao result.
"""
from ..absint.batch import k2_results
from ..absint.domain import EnumV, IntV
from ..absint.query import accepted, sel
from ..cfg import call_graph, reachable_bodies
from ..effects import HASHMAP_MUT, Effects, _is_plane_map
from ..facts import Broken, callee_name, span_loc
from ..lineexpr import df_of_line, downlink_of_line, icao_of_line, message_of_line
from ..mirq import DefUse, adt_aggregates, expr, field_stores, show
from ..ref.crc import bit_as_set, expected_bit
from ..region import Region
from ..report import Finding

LEVEL = "other"
AP_FORMATS = (0, 4, 5, 16, 20, 21)
AA_FORMATS = (11, 17, 18)


def run(facts, rep, tier):
    rep.explanation = (
        "R03.1-.3: E2 evaluates get_icao for every DF with the whole frame symbolic; the 24 address bits come out as frame "
        "bits (AA) or XOR-sets (AP xor CRC) and are compared with the reference CRC division. R03.4-.5 are structural: "
        "inventory of all calls on HashMap<u32,Plane> in the crate, def-use provenance of the key and of the constructor "
        "arguments, capture list and effect summary of the and_modify closure, provenance of every store to Plane.icao."
    )
    rep.trusted = ["rustc MIR", "E2 XOR-linear domain", "reference CRC-24 (sq/ref/crc.py)", "Rust borrow rules (one &mut to the table while the entry is live)"]
    for rid, txt in [("R03.1", "address = AA for DF11/17/18, AP xor CRC for DF0/4/5/16/20/21"), ("R03.2", "zero address dropped"),
                     ("R03.3", "CRC-24 identity for all payloads"), ("R03.4", "single writer of the table, keyed by the line's address"),
                     ("R03.5", "Plane.icao stores = the key"),
                     ("R03.6", "after the gates only -f, the record decode and I/O errors can keep a frame from the table updater")]:
        rep.rule(rid, txt, "P")
    out = k2_results(facts, tier)
    results = out["results"]
    seen = set()
    n1 = n3 = 0
    lost = {}
    for r in sel(results, "G"):
        if r.icao_opt is None:
            cdf = r.df
            if cdf is None:
                tg = [x for x in r.ctx.get("tags", ()) if isinstance(x, str) and x.startswith("df") and x[2:].isdigit()]
                cdf = int(tg[0][2:]) if tg else None
            if cdf is not None:
                lost.setdefault(cdf, r.diverged or "no address value")
        if r.df is None or r.df in seen or r.icao_opt is None:
            continue
        seen.add(r.df)
        df = r.df
        if df not in AP_FORMATS + AA_FORMATS:
            continue
        n1 += 1
        L = r.ctx["L"]
        fixed = r.ctx["fixed"]
        io = r.icao_opt
        ok2 = isinstance(io, EnumV) and io.may("Some") and isinstance(io.payload("Some"), IntV) and io.payload("Some").lo >= 1
        rep.oblige(ok2, ("nonzero", df))
        # ... and ONLY the zero address is dropped: the kept addresses are all of 1..2^24-1, and the only test on the address that
        # guards the Some result is the comparison with zero
        if ok2:
            pv = io.payload("Some")
            extra = []
            for t_, tr_ in (io.variants["Some"][1] or {}).get("pc", ()):
                if not isinstance(t_, tuple):
                    continue
                if t_[0] in ("Ne", "Gt", "Ge") and tr_ is True and t_[-1] in (0, 1):
                    continue
                if t_[0] == "Eq" and tr_ is False and t_[-1] == 0:
                    continue
                if t_[0] == "in_range" and len(t_) >= 5 and t_[2] in (0, 1) and (t_[3] > 0xFFFFFF or (t_[3] == 0xFFFFFF and t_[4] is True)):
                    continue
                extra.append(t_[0])
            whole = pv.lo <= 1 and pv.hi >= 0xFFFFFF
            rep.oblige(whole and not extra, ("only-zero-dropped", df))
            if not (whole and not extra):
                rep.add(Finding("R03.2", "non-zero address dropped (DF%d)" % df,
                                "DF%d: get_icao keeps only the addresses %06X..%06X%s: a frame of any other non-zero address creates no row"
                                % (df, max(pv.lo, 0), min(pv.hi, 0xFFFFFF), (" and tests the address with %s" % sorted(set(extra))) if extra else ""), None))
        if not ok2:
            rep.add(Finding("R03.2", "zero address not dropped (DF%d)" % df, "DF%d: get_icao may return Some(0): %r" % (df, io), None))
        v = io.payload("Some") if isinstance(io, EnumV) and io.may("Some") else None
        if v is None or not isinstance(v, IntV) or v.bits is None:
            rep.oblige(False, ("addr", df))
            if df in AP_FORMATS:
                n3 += 1
            rep.add(Finding("R03.1" if df in AA_FORMATS else "R03.3", "address of DF%d not bit-exact" % df,
                            "DF%d: address value %r has no exact bit form (not provably %s)" % (
                                df, v, "the AA field" if df in AA_FORMATS else "AP xor CRC-24 of the data bits"), None))
            continue
        bad = None
        for k in range(24):
            got = bit_as_set(v.bits[k])
            if df in AA_FORMATS:
                p = 32 - k
                want = ({p}, 0) if p not in fixed else (set(), fixed[p])
            else:
                want = expected_bit(k, 4 * L, fixed)
            if got is None or (got[0], got[1]) != (want[0], want[1]):
                bad = (k, got, want)
                break
        if bad is None and any(b != 0 for b in v.bits[24:]):
            bad = (24, None, None)
        ok = bad is None
        rep.oblige(ok, ("addr", df))
        if df in AP_FORMATS:
            n3 += 1
        if n1 <= 2 and ok:
            rep.sample({"rule": "R03.1/R03.3", "df": df, "address_bit0": "XOR of %s" % sorted(bit_as_set(v.bits[0])[0])[:16]})
        if not ok:
            rule = "R03.1" if df in AA_FORMATS else "R03.3"
            k, got, want = bad
            rep.add(Finding(rule, "address recovery of DF%d" % df,
                            "DF%d: address bit %d is %s; expected %s" % (df, k, "not linear" if got is None else "XOR%s^%d" % (sorted(got[0])[:10], got[1]),
                                                                     "frame bit %d" % (32 - k) if df in AA_FORMATS else "AP bit xor CRC-24 (XOR of %d bits)" % len(want[0]) if want else "-"), None))
    need = set(AP_FORMATS + AA_FORMATS)
    for df in sorted((need - seen) & set(lost)):
        # the context exists but the address computation could not be followed to a value (e.g. a data-dependent loop exit in
        # the CRC division): the identity is not established
        seen.add(df)
        n1 += 1
        if df in AP_FORMATS:
            n3 += 1
        rep.oblige(False, ("addr", df))
        rep.add(Finding("R03.1" if df in AA_FORMATS else "R03.3", "address of DF%d not bit-exact" % df,
                        "DF%d: the address computation cannot be followed to a value (%s): not provably %s" % (
                            df, str(lost[df])[:160], "the AA field" if df in AA_FORMATS else "AP xor CRC-24 of the data bits"), None))
    if need - seen:
        raise Broken("C03: no gate context for DF %s" % sorted(need - seen))
    rep.instances("R03.1", n1, floor=9, what="downlink formats")
    rep.instances("R03.3", n3, floor=6)
    rep.instances("R03.2", n1, floor=9)

    # ---- R03.4 structural (independent of the style the updater is written in: entry().and_modify().or_insert(),
    # match on the Entry, get_mut / insert - see sq/tableupd.py)
    from ..tableupd import ALLOWED_MUTATORS, describe
    T = describe(facts)
    muts, reads = T["muts"], T["reads"]
    names = sorted(t["callee"]["name"] for _, _, t in muts)
    ok = set(names) <= ALLOWED_MUTATORS and "retain" in names and bool(T["inserts"])
    rep.oblige(ok, ("mutators",))
    rep.sample({"rule": "R03.4", "table_mutators": names, "readers": sorted(t["callee"]["name"] for _, _, t in reads)})
    if not ok:
        rep.add(Finding("R03.4", "table mutators %s" % names, "the aircraft table is modified by %s; expected one keyed lookup (entry / get_mut) with an insert "
                        "for a new address, and retain/shrink_to_fit in the sweep" % names, None))
    ub, udu = T["body"], T["du"]
    ubb, ut = T["lookup"]
    outside = sorted({b.name for b, bb, t in muts if t["callee"]["name"] not in ("retain", "shrink_to_fit", "shrink_to") and b not in T["bodies"]})
    rep.oblige(not outside, ("one-updater",))
    if outside:
        rep.add(Finding("R03.4", "rows are inserted / modified outside the updater", "besides %s the table is also modified in %s" % (ub.name, outside), None))
    key = T["key"]
    ok = key[0] == "arg" and not key[2]
    rep.oblige(ok, ("key-param",))
    if not ok:
        rep.add(Finding("R03.4", "table key is %s" % show(key), "the row is looked up by %s, not by the address parameter" % show(key), span_loc(ut.get("span"))))
    keyarg = key[1] if ok else None
    # call site in the per-line region
    eff = Effects(facts)
    reg = Region(facts, eff)
    sites = [(bi, t) for bi, t, e in reg.effect_sites() if callee_name(t) == ub.name]
    if len(sites) != 1:
        raise Broken("C03 anchor: %d calls of the table updater in the per-line region" % len(sites))
    sbi, stt = sites[0]
    args = [expr(reg.du, a) for a in stt["args"]]
    if keyarg is not None:
        ok = icao_of_line(args[keyarg - 1])
        rep.oblige(ok, ("key-prov",))
        if not ok:
            rep.add(Finding("R03.4", "updater called with key %s" % show(args[keyarg - 1])[:80],
                            "the table is updated under a key that is not get_icao(message, df) of the current line", reg.loc(sbi)))
    # the other arguments are this line's message / df / downlink
    kinds = []
    for a in args:
        kinds.append("icao" if icao_of_line(a) else "df" if df_of_line(a) else "message" if message_of_line(a) else "downlink" if downlink_of_line(a)
                     else "param" if a[0] == "arg" else "other:" + show(a)[:60])
    ok = not [k for k in kinds if k.startswith("other")] and "message" in kinds and "df" in kinds
    rep.oblige(ok, ("args-prov",))
    rep.sample({"rule": "R03.4", "updater_args": kinds})
    if not ok:
        rep.add(Finding("R03.4", "updater arguments %s" % kinds, "update_aircraft receives values that are not derived from the current line: %s" % kinds, reg.loc(sbi)))
    # R03.6: every accepted frame reaches the updater.  After the last gate (get_icao returned an address) the only decisions
    # that may steer an iteration past the table update are the -f filter, the Ok/Err of decoding the frame into a record and
    # the `?` of an I/O result (which ends the run, not the line)
    from ..lineexpr import walk as _walk
    from ..mirq import field_reads as _fr
    n6 = 0
    try:
        gates = reg.gates()
        last_gate_targets = [tgt for _, tgt in gates["get_icao"][1]]
        filt_readers = {r_["body"].name for r_ in _fr(facts, "Args", "filter")}
        after = set()
        for tgt in last_gate_targets:
            after |= reg.reach(start=tgt)
        can_reach_upd = {bi for bi in after if sbi in reg.reach(start=bi)}
        for bi in sorted(can_reach_upd):
            t = reg.proc.blocks[bi]["term"]
            if t["k"] != "switch" or bi == sbi:
                continue
            succs = [b_ for _, b_ in t["targets"]] + [t["otherwise"]]
            skipping = [b_ for b_ in succs if b_ in reg.blocks and b_ not in can_reach_upd
                        and reg.proc.blocks[b_]["term"]["k"] != "unreachable"]
            if not skipping or all(b_ in can_reach_upd for b_ in succs):
                continue
            n6 += 1
            de = expr(reg.du, t["discr"])
            nodes = list(_walk(de))
            why = None
            if any((x[0] == "arg" and "filter" in tuple(x[2])) or (x[0] == "call" and x[1] in filt_readers) for x in nodes):
                why = "the -f filter"
            else:
                # the Ok/Err (Some/None) of decoding the frame into a record, or of an I/O call - the decision must BE that
                # discriminant, not some predicate computed from the record
                inner = de
                if inner[0] == "discr":
                    inner = inner[1]
                    while inner[0] == "path":
                        inner = inner[1]
                    while inner[0] == "call" and inner[1].split("::")[-1] == "branch" and inner[2]:
                        inner = inner[2][0]
                        while inner[0] == "path":
                            inner = inner[1]
                    if inner[0] == "call" and (inner[1].endswith("from_message") or inner[1].split("::")[-1] in ("log", "write_all", "write_fmt", "flush", "write")):
                        why = "decoding the frame / an I/O result"
            rep.oblige(why is not None, ("reaches-updater", bi))
            if why is None:
                rep.add(Finding("R03.6", "%s : an accepted frame can bypass the table update" % reg.proc.name,
                                "after get_icao returned an address, the decision `%s` can end the iteration without calling the table updater: "
                                "a frame with a non-zero address then neither creates nor updates the row of that address" % show(de)[:120],
                                reg.loc(bi)))
    except Broken:
        n6 = 0
    rep.instances("R03.6", n6, floor=0, what="decisions between the last gate and the table update that can skip it")
    # the code run on a row: closures of the updater must not capture the table or another row; nothing reachable from the
    # row-update entries may touch the table, the counters or global state
    if not T["entries"]:
        raise Broken("C03 anchor: the updater runs no crate function on the row it finds")
    badcap = []
    for cb_ in T["bodies"][1:]:
        for c in cb_.j.get("captures") or []:
            if "HashMap" in c["ty"] or "Planes" in c["ty"] or "RwLock" in c["ty"] or c["ty"].endswith("Plane"):
                badcap.append((cb_.name.split("::")[-1], c["name"]))
    rep.oblige(not badcap, ("captures",))
    if badcap:
        rep.add(Finding("R03.4", "row-update closure captures %s" % badcap, "the row-update closure captures the table or another row", ub.loc()))
    cg = call_graph(facts)
    reach = reachable_bodies(facts, sorted({e[0] for e in T["entries"]}), cg)
    bad_eff = set()
    for n in reach:
        for e in eff.direct.get(n, ()):
            if e[0] in ("table", "btree") or (e[0] == "field" and e[1].split("::")[-1] in ("Planes", "AppCounters")):
                bad_eff.add((n, e))
    statics_touched = []
    for n in reach:
        for bb, t in facts.bodies[n].calls():
            p = callee_name(t) or ""
            if "set_observer" in p:
                statics_touched.append(n)
    rep.oblige(not bad_eff and not statics_touched, ("closure-effects",))
    if bad_eff or statics_touched:
        rep.add(Finding("R03.4", "row update reaches table/global effects", "code run on a row can modify the table, the counters or global state: %s %s"
                        % (sorted(bad_eff)[:3], statics_touched), ub.loc()))
    # the inserted row: a crate constructor called with the same key
    ok = False
    ve = None
    if T["ctor"] is not None:
        ct, cbody, cdu_ = T["ctor"]
        ve = [expr(cdu_, a) for a in ct["args"]]
        keyname = ub.locals[keyarg].get("name") if keyarg is not None else None
        for a in ve:
            if a == key and cbody is ub:
                ok = True
            if a[0] == "capture" and keyname is not None and a[1].lstrip("*&") == keyname and not a[2]:
                ok = True
    rep.oblige(ok, ("ctor-key",))
    if not ok:
        rep.add(Finding("R03.4", "inserted row not built from the key", "the row inserted for a new address is built by %s" %
                        ([show(a)[:40] for a in ve] if ve is not None else "no crate constructor"), ub.loc()))
    rep.instances("R03.4", len(muts) + len(reads) + 4, floor=8, what="table call sites + provenance facts")

    # ---- R03.5
    n5 = 0
    for st in field_stores(facts, "Plane", "icao"):
        n5 += 1
        b = st["body"]
        du = DefUse(b)
        if st["via"] != "assign" or st["stmt"]["rv"]["k"] != "use":
            rep.oblige(False, ("icao-store", b.name))
            rep.add(Finding("R03.5", "%s : icao store" % b.name, "Plane.icao is written by a non-copy", b.loc()))
            continue
        e = expr(du, st["stmt"]["rv"]["x"])
        ok = False
        if e[0] == "arg" and not e[2]:
            ok = True       # constructor parameter (checked above to be the key)
        if e[0] == "arg" and e[2] and e[2][0] == "icao":
            # from a downlink record: that record's icao must be get_icao(message, df of message)
            ok = _record_icao_ok(facts, b, e)
        rep.oblige(ok, ("icao-store", b.name))
        if not ok:
            rep.add(Finding("R03.5", "%s : Plane.icao := %s" % (b.name, show(e)[:60]), "Plane.icao is set from %s, not from the frame's address" % show(e)[:80],
                            span_loc(st["stmt"].get("span"))))
    for ag in adt_aggregates(facts, "Plane"):
        n5 += 1
    rep.instances("R03.5", n5, floor=3)
    rep.assumptions += ["uniqueness of rows per address is HashMap's key invariant"]


def _record_icao_ok(facts, body, e):
    """stores to the `icao` field of the downlink records are get_icao(message, get_downlink_format(message))"""
    ok_all = True
    found = 0
    for adt in ("Srt", "Ext", "Mds"):
        for st in field_stores(facts, adt, "icao"):
            found += 1
            du = DefUse(st["body"])
            if st["via"] == "calldest":
                t = st["term"]
                ex = ("call", callee_name(t), tuple(expr(du, x) for x in t["args"]))
            elif st["stmt"]["rv"]["k"] == "use":
                ex = expr(du, st["stmt"]["rv"]["x"])
            else:
                ok_all = False
                continue
            good = ex[0] == "call" and (ex[1] or "").endswith("get_icao") and len(ex[2]) == 2
            if good:
                a = ex[2]
                good = a[0][0] == "arg" and not a[0][2] and a[1][0] == "path" and a[1][1][0] == "call" and \
                    a[1][1][1].endswith("get_downlink_format") and a[1][1][2][0] == a[0]
            ok_all = ok_all and good
    return ok_all and found >= 3
