"""C09 — ground speed, track and vertical rate follow the TC19 velocity encoding.

R09.1 vertical rate [proof]: sign = bit 69, field = bits 70-78; field 0 -> no value; else +/-64*(field-1) as an exact
      affine form per sign context; field 1 -> exactly 0;
R09.2 components [proof of extraction, necessary condition for the formula]: ground speed and track depend exactly on
      EW sign 46 / magnitude 47-56 and NS sign 57 / magnitude 58-67; each component is +/-(field-1); the ground-speed term
      is floor(sqrt(x^2+y^2)) over both components, x4 for the supersonic subtype (range 4x); track is
      floor(to_degrees(atan2(EW, NS))) + 360 mod 360 with EW the receiver and NS the argument;
R09.3 a component field of 0 yields no ground speed and no track;
R09.4 the decoded values reach the row identically on both update paths and on creation (and are not the old values).
"""
from ..absint.batch import k2_results
from ..absint.domain import Aff, EnumV, IntV
from ..absint.query import (accepted, frame_deps, int_aff, option_some_payload, sel, stores_of, summary, term_bits, term_find, unchanged)
from ..facts import Broken
from ..report import Finding

LEVEL = "other"

VR_BITS = list(range(70, 79))
EW = set(range(46, 57))
NS = set(range(57, 68))


def vr_expected(sign):
    t = {("b", b): 64 * (1 << (len(VR_BITS) - 1 - i)) for i, b in enumerate(VR_BITS)}
    a = Aff(-64, t)
    return a.scale(-1) if sign else a


def last_store(r, f):
    s = stores_of(r, f)
    return s[-1][1] if s else None


def run(facts, rep, tier):
    rep.explanation = (
        "E2 abstract interpretation of TC19 contexts (subtype, sign bits and zero fields enumerated; magnitudes symbolic): "
        "vertical rate is an exact affine form; ground speed / track carry symbolic float terms whose structure and bit "
        "dependencies are compared with the encoding; zero-field contexts must store no value; the post-states of the two "
        "update paths and of row creation are compared structurally."
    )
    rep.trusted = ["rustc MIR", "E2 transfer functions and float term construction", "DO-260B TC19 field layout (in the rule)"]
    rep.rule("R09.1", "vertical rate = +/-64*(field-1), field 0 -> none", "P")
    rep.rule("R09.2", "speed/track terms: sqrt(x^2+y^2) and atan2(EW,NS) over the right fields; x4 for ST2", "N")
    rep.rule("R09.3", "component field 0 -> no speed and no track", "P")
    rep.rule("R09.4", "both update paths and creation agree and overwrite the old values", "P")
    out = k2_results(facts, tier)
    results = out["results"]
    V = [r for r in sel(results, "V")]
    if len(V) < 20:
        raise Broken("C09: only %d velocity contexts" % len(V))
    n1 = n2 = n3 = n4 = 0
    for r in V:
        if not accepted(r):
            raise Broken("C09: context %s not accepted: %s" % (r.ctx["label"], r.diverged))
        tags = r.ctx["tags"]
        lab = r.ctx["label"]
        path = "U" if r.ctx.get("U") else "D"
        vr = last_store(r, "vrate")
        gs = last_store(r, "grspeed")
        tk = last_store(r, "track")
        stv = 1 if "st1" in tags else 2
        # ---- R09.1
        n1 += 1
        if vr is None:
            rep.oblige(False, ("vr-store", lab))
            rep.add(Finding("R09.1", "TC19 ST%d does not store vertical rate (%s path)" % (stv, path), "context '%s' stores no vrate" % lab, None))
        else:
            fd = frame_deps(vr)
            ok = fd <= set(range(69, 79))
            rep.oblige(ok, ("vr-deps", lab))
            if not ok:
                rep.add(Finding("R09.1", "vertical rate depends on bits %s" % sorted(fd - set(range(69, 79))),
                                "context '%s': vertical rate depends on frame bits outside 69-78: %s" % (lab, sorted(fd - set(range(69, 79)))), None))
            if "VR0" in tags:
                ok = isinstance(vr, EnumV) and vr.only("None")
                rep.oblige(ok, ("vr0", lab))
                if not ok:
                    rep.add(Finding("R09.1", "vertical-rate field 0 yields a value (%s path)" % path, "context '%s' stores %r" % (lab, vr), None))
            if "VR1" in tags:
                only, p = option_some_payload(vr)
                ok = only and isinstance(p, IntV) and p.is_const() and p.lo == 0
                rep.oblige(ok, ("vr1", lab))
                if not ok:
                    rep.add(Finding("R09.1", "vertical-rate field 1 is not 0 ft/min (%s path)" % path, "context '%s' stores %r" % (lab, vr), None))
            for sgn in (0, 1):
                if "VRS%d" % sgn in tags:
                    only, p = option_some_payload(vr)
                    want = vr_expected(sgn)
                    lo, hi = (0, 32640) if sgn == 0 else (-32640, 0)
                    ok = isinstance(vr, EnumV) and vr.may("None") and p is not None and int_aff(p) == want and p.lo == lo and p.hi == hi
                    rep.oblige(ok, ("vrs", lab))
                    if n1 < 12:
                        rep.sample({"rule": "R09.1", "context": lab, "vrate": repr(vr)[:160]})
                    if not ok:
                        rep.add(Finding("R09.1", "vertical rate formula, sign %d (%s path)" % (sgn, path),
                                        "context '%s': stored %r; expected None for field 0 and Some(%s) in [%d,%d] otherwise" % (lab, vr, want.show(), lo, hi), None))
        # ---- R09.3
        if "EW0" in tags or "NS0" in tags:
            n3 += 1
            for nm, v in (("grspeed", gs), ("track", tk)):
                ok = isinstance(v, EnumV) and v.only("None")
                rep.oblige(ok, ("zero", lab, nm))
                if not ok:
                    rep.add(Finding("R09.3", "%s from a zero component field (%s path)" % (nm, path),
                                    "context '%s' (a velocity component field is 0 = no information) stores %s = %r" % (lab, nm, v), None))
        # ---- R09.2 on sign contexts
        for sgn in (0, 1):
            if "DIR%d" % sgn in tags:
                n2 += 1
                okg, pg = option_some_payload(gs)
                okt, pt = option_some_payload(tk)
                why = []
                if pg is None or pt is None:
                    why.append("no Some value stored")
                else:
                    fdg, fdt = frame_deps(pg, control=False), frame_deps(pt, control=False)
                    mags = set(range(47, 57)) | set(range(58, 68))
                    if not (fdg <= (EW | NS) and mags <= fdg | {46, 57}):
                        why.append("ground speed depends on bits %s" % sorted(fdg))
                    if not (fdt <= (EW | NS) and mags <= fdt | {46, 57}):
                        why.append("track depends on bits %s" % sorted(fdt))
                    # ground speed term
                    sq = term_find(pg.term, "sqrt") if pg.term else []
                    if stv == 1:
                        if not sq:
                            why.append("ground speed is not floor(sqrt(..)): %r" % (pg.term,))
                        else:
                            pw = term_find(sq[0], "powi")
                            bits = [term_bits(p) for p in pw]
                            if len(pw) != 2 or not any(b and b <= set(range(47, 57)) for b in bits) or not any(b and b <= set(range(58, 68)) for b in bits):
                                why.append("sqrt argument is not EW^2 + NS^2 (squares over bits %s)" % [sorted(b) for b in bits])
                        if (pg.lo, pg.hi) != (0, 1445):
                            why.append("ground speed range %s (expected 0..1445)" % ((pg.lo, pg.hi),))
                    else:
                        if (pg.lo, pg.hi) != (0, 5780):
                            why.append("supersonic ground speed range %s (expected 4 x 0..1445)" % ((pg.lo, pg.hi),))
                    at = term_find(pt.term, "atan2") if pt.term else []
                    if not at:
                        why.append("track is not derived from atan2")
                    else:
                        a0, a1 = term_bits(at[0][1]), term_bits(at[0][2])
                        if not (a0 and a0 <= set(range(47, 57)) and a1 and a1 <= set(range(58, 68))):
                            why.append("atan2(receiver bits %s, argument bits %s): expected atan2(EW, NS)" % (sorted(a0), sorted(a1)))
                        # component = +/-(field - 1)
                        for comp, nm in ((at[0][1], "EW"), (at[0][2], "NS")):
                            inner = comp
                            neg = False
                            if isinstance(inner, tuple) and inner[0] == "neg":
                                neg, inner = True, inner[1]
                            shape_ok = isinstance(inner, tuple) and inner[0] == "Sub" and inner[2] == 1.0
                            if not shape_ok or neg != bool(sgn):
                                why.append("%s component is not %s(field-1): %s" % (nm, "-" if sgn else "+", str(comp)[:80]))
                        if not term_find(pt.term, "to_degrees") or not term_find(pt.term, "floor"):
                            why.append("track is not floor(to_degrees(..))")
                ok = not why
                rep.oblige(ok, ("dir", lab))
                if n2 <= 2 and pg is not None:
                    rep.sample({"rule": "R09.2", "context": lab, "grspeed": summary(pg)[2:6], "track_term": str(summary(pt)[5])[:160] if pt is not None else None})
                if not ok:
                    rep.add(Finding("R09.2", "TC19 ST%d speed/track decode, signs %d (%s path)" % (stv, sgn, path),
                                    "context '%s': %s" % (lab, "; ".join(why)), None))
    rep.instances("R09.1", n1, floor=20)
    rep.instances("R09.2", n2, floor=8)
    rep.instances("R09.3", n3, floor=8)
    # ---- R09.4 path agreement over V contexts and T tc19 st1/st2
    groups = {}
    for r in V + [r for r in sel(results, "T", "tc19", "df17") if ("st1" in r.ctx["tags"] or "st2" in r.ctx["tags"])]:
        key = r.ctx["label"].rsplit(" U", 1)[0]
        groups.setdefault(key, {})[bool(r.ctx.get("U"))] = r
    for key, d in sorted(groups.items()):
        if True not in d or False not in d:
            continue
        n4 += 1
        ru, rd = d[True], d[False]
        for f in ("vrate", "grspeed", "track"):
            su = summary(ru.post_update.fields.get(f))
            sd = summary(rd.post_update.fields.get(f))
            sc_u = summary(ru.post_create.fields.get(f)) if ru.post_create is not None else None
            sc_d = summary(rd.post_create.fields.get(f)) if rd.post_create is not None else None
            ok = su == sd
            rep.oblige(ok, ("paths", key, f))
            if not ok:
                same_old = unchanged(rd, f)
                rep.add(Finding("R09.4", "%s differs between update paths (TC19)" % f,
                                "context '%s': with -U the row's %s becomes %r, without -U %s" % (key, f, ru.post_update.fields.get(f),
                                "it keeps its old value" if same_old else repr(rd.post_update.fields.get(f))), None))
            ok2 = sc_u == su and sc_d == su
            rep.oblige(ok2, ("create", key, f))
            if not ok2:
                rep.add(Finding("R09.4", "%s differs between first frame and update (TC19)" % f,
                                "context '%s': a row created by the frame gets %s = %r / %r, an existing row gets %r"
                                % (key, f, ru.post_create.fields.get(f) if ru.post_create else None, rd.post_create.fields.get(f) if rd.post_create else None,
                                   ru.post_update.fields.get(f)), None))
            for rr in (ru, rd):
                if unchanged(rr, f):
                    rep.oblige(False, ("overwrites", key, f))
                    rep.add(Finding("R09.4", "%s not updated by TC19 (%s path)" % (f, "U" if rr.ctx.get("U") else "D"),
                                    "context '%s': the row's %s is left as it was" % (rr.ctx["label"], f), None))
    # ... and -R: a velocity squitter is decoded alike with and without the relaxed Comm-B option (the TR family repeats the
    # DF17/18 type-code contexts under -U -R)
    byl = {r.ctx["label"]: r for r in sel(results, "T")}
    for rr in sel(results, "TR", "tc19"):
        twin = byl.get(rr.ctx["label"].replace("TR ", "T ", 1).replace(" R1", ""))
        if twin is None or rr.post_update is None or twin.post_update is None:
            continue
        n4 += 1
        for f in ("vrate", "grspeed", "track"):
            a, b_ = summary(rr.post_update.fields.get(f)), summary(twin.post_update.fields.get(f))
            ok = a == b_
            rep.oblige(ok, ("relaxed", rr.ctx["label"], f))
            if not ok:
                rep.add(Finding("R09.4", "%s differs with -R (TC19)" % f,
                                "context '%s': with -R the row's %s becomes %r, without it %r - the velocity squitter is not decoded "
                                "alike under every option set" % (rr.ctx["label"], f, rr.post_update.fields.get(f), twin.post_update.fields.get(f)), None))
    rep.instances("R09.4", n4, floor=10, what="context pairs (-U on/off, -R on/off)")
    rep.extra["contexts"] = len(V)
    rep.assumptions += ["float rounding of sqrt/atan2 and the exact [0,360) bound of the track are not decided",
                        "'within 4 kt' for the supersonic subtype is implied by x4 of the floor value"]
