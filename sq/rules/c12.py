"""C12 — rows live exactly as long as the aircraft is being heard.

R12.1 every accepted frame restarts the age: on every path of every row-update entry (the
      functions the and_modify closure calls on the row, and the or_insert constructor)
      `Plane.timestamp` is assigned from Utc::now()  (forward must-dataflow with callee summaries);
R12.2 sweep predicate: the retain closure keeps a row iff num_seconds(now - row.timestamp) < delete_after;
R12.3 sweep cadence: the counter automaton read from the sweep function (threshold, reset
      value, increment) sweeps at least every 12 calls and keeps the counter bounded;
R12.4 the sweep call is reached after every table update, under the same gates;
R12.5 fresh rows remember nothing: or_insert's value is built from Plane::new() + the current
      frame; no other container of rows exists; one static (the observer).
"""
from ..cfg import CFG
from ..effects import Effects
from ..facts import Broken, callee_name, span_loc
from ..mirq import (DefUse, adt_aggregates, const_assignments, controlling_decisions, expr, expr_place, operand_place,
                    place_fields, is_adt, show)
from ..region import Region
from ..report import Finding

LEVEL = "other"


def _is_now(e):
    return e[0] == "call" and e[1].endswith("Utc::now")


def _rooted_self(du, op, selfp):
    pl = operand_place(op)
    if pl is None:
        return False
    r = du.root_place(pl)
    return r[0] == "arg" and r[1] == selfp and not [p for p in r[2] if p["k"] == "field"]


class Stamp:
    """must-assign analysis of Plane.timestamp := Utc::now()"""

    def __init__(self, facts):
        self.facts = facts
        self.memo = {}
        self.why = {}

    def stamps(self, name, selfp=1):
        key = (name, selfp)
        if key in self.memo:
            return self.memo[key]
        self.memo[key] = False  # recursion guard
        b = self.facts.bodies[name]
        cfg = CFG(b)
        du = DefUse(b)
        gen = {}
        for bi in cfg.reach:
            blk = b.blocks[bi]
            g = False
            for s in blk["stmts"]:
                if s["k"] != "assign":
                    continue
                fs = place_fields(s["place"])
                if fs and is_adt(fs[0][0], "Plane") and fs[0][1] == "timestamp":
                    base_ok = _rooted_self(du, {"copy": {"local": s["place"]["local"], "proj": []}}, selfp) or s["place"]["local"] == selfp
                    if s["rv"]["k"] == "use" and _is_now(expr(du, s["rv"]["x"])) and base_ok:
                        g = True
            t = blk["term"]
            if t["k"] == "call":
                tgt = callee_name(t)
                if tgt in self.facts.bodies:
                    for i, a in enumerate(t["args"]):
                        if _rooted_self(du, a, selfp) and self.stamps(tgt, i + 1):
                            g = True
            gen[bi] = g
        out = {bi: None for bi in cfg.reach}
        order = sorted(cfg.reach)
        inn = {bi: (False if bi == 0 else True) for bi in cfg.reach}
        changed = True
        while changed:
            changed = False
            for bi in order:
                if bi != 0:
                    ps = [p for p in cfg.pred[bi] if p in cfg.reach]
                    v = all((inn[p] or gen[p]) for p in ps) if ps else False
                else:
                    v = False
                if v != inn[bi]:
                    inn[bi] = v
                    changed = True
        rets = [bi for bi in cfg.reach if b.blocks[bi]["term"]["k"] == "return"]
        res = bool(rets) and all(inn[r] or gen[r] for r in rets)
        self.memo[key] = res
        return res


def run(facts, rep, tier):
    rep.explanation = (
        "Structural proof on MIR: (R12.1) forward must-assign dataflow of `Plane.timestamp := Utc::now()` over every "
        "row-update entry found from the table's entry().and_modify().or_insert() chain, with callee summaries; "
        "(R12.2) the retain closure's keep-decision is read as an expression tree and compared with "
        "num_seconds(now - row.timestamp) < delete_after; (R12.3) threshold/reset/increment constants of the sweep "
        "counter are read from MIR and the resulting counter automaton is explored exhaustively; (R12.4) edge-cut "
        "reachability in the per-line region; (R12.5) provenance of the inserted row and inventory of row containers/statics."
    )
    rep.trusted = ["rustc MIR", "chrono: signed_duration_since / num_seconds semantics", "std HashMap::retain / Entry API semantics"]
    rep.rule("R12.1", "every row-update entry assigns timestamp from Utc::now() on every path", "P")
    rep.rule("R12.2", "retain keeps a row iff num_seconds(now - row.timestamp) < delete_after", "P")
    rep.rule("R12.3", "a sweep happens at least every 12 accepted frames; counter bounded", "P")
    rep.rule("R12.4", "the sweep call follows every table update in the loop body", "P")
    rep.rule("R12.5", "a new row is built from Plane::new() and the current frame only", "P")

    # ---- anchors: the table updater (any of the styles sq/tableupd.py knows)
    from ..tableupd import describe
    T = describe(facts)
    ub, udu = T["body"], T["du"]
    entries = [(tgt, selfp, t) for tgt, selfp, t, b_ in T["entries"]]
    if not entries:
        raise Broken("C12 anchor: the updater calls no crate function on the row it finds")
    st = Stamp(facts)
    n = 0
    for tgt, selfp, t in entries:
        n += 1
        ok = st.stamps(tgt, selfp)
        rep.oblige(ok, ("stamp", tgt))
        rep.sample({"rule": "R12.1", "entry": tgt, "stamps_on_every_path": ok})
        if not ok:
            rep.add(Finding("R12.1", "%s : timestamp not refreshed on every path" % tgt,
                            "row-update entry %s does not assign Plane.timestamp from Utc::now() on every path: an aircraft heard only "
                            "through this path expires while it is being heard (and its last-contact age does not restart)" % tgt,
                            facts.bodies[tgt].loc()))
    # constructor
    if T["ctor"] is None:
        raise Broken("C12 anchor: the inserted row is not the result of a crate constructor")
    ctor_root = ("call", T["ctor"][0])
    udu_ctor = T["ctor"][2]
    ctor = callee_name(ctor_root[1])
    cb = facts.bodies[ctor]
    ctdu = DefUse(cb)
    # the returned Plane: root of _0
    r0 = ctdu.root_place({"local": 0, "proj": []})
    fresh_ok = False
    base_local = None
    if r0[0] == "multi" or r0[0] == "call":
        # find the local that is returned: `_0 = move _3`
        pass
    ret_src = None
    for bi, blk in enumerate(cb.blocks):
        for s in blk["stmts"]:
            if s["k"] == "assign" and s["place"]["local"] == 0 and not s["place"]["proj"] and s["rv"]["k"] == "use":
                ret_src = operand_place(s["rv"]["x"])
    if ret_src is not None:
        newfn = _blank_source(facts, cb, ctdu, ret_src)
        if newfn is not None:
            if newfn in facts.bodies:
                aggs = [a for a in adt_aggregates(facts, "Plane") if a["body"].name == newfn]
                if len(aggs) == 1:
                    rv = aggs[0]["stmt"]["rv"]
                    ndu = DefUse(aggs[0]["body"])
                    consts = 0
                    nows = 0
                    other = []
                    for fname, o in zip(rv["fields"], rv["ops"]):
                        e = expr(ndu, o)
                        if _only_consts_or_now(e):
                            consts += 1
                        else:
                            other.append((fname, show(e)))
                    fresh_ok = not other and not aggs[0]["body"].arg_count
                    rep.sample({"rule": "R12.5", "constructor": ctor, "starts_from": newfn, "fields_const_or_now": consts, "other": other})
    rep.oblige(fresh_ok, ("fresh", ctor))
    rep.instances("R12.5", 1, floor=1, what="or_insert constructor")
    if not fresh_ok:
        rep.add(Finding("R12.5", "%s : new row not built from a constant blank row" % ctor,
                        "the row inserted for a new address is not built from a parameterless blank row (constants / Utc::now) plus the current frame",
                        cb.loc()))
    # constructor arguments: only the current frame/address (params of the updater)
    for a in ctor_root[1]["args"]:
        e = expr(udu_ctor, a)
        ok = e[0] in ("arg", "const", "capture") or (e[0] == "path" and e[1][0] in ("arg", "capture"))
        rep.oblige(ok, ("ctor-arg", show(e)))
        if not ok:
            rep.add(Finding("R12.5", "%s : constructor argument %s" % (ub.name, show(e)),
                            "the new row is built from something other than the current frame: %s" % show(e), span_loc(ctor_root[1].get("span"))))
    n += 1
    ok = st.stamps(ctor, 99) or _ctor_stamps(facts, cb, ctdu, st, ret_src)
    rep.oblige(ok, ("stamp", ctor))
    if not ok:
        rep.add(Finding("R12.1", "%s : constructor does not stamp" % ctor, "a new row's timestamp is not Utc::now()", cb.loc()))
    rep.instances("R12.1", n, floor=2, what="row-update entries + constructor")
    # containers of Plane / statics
    holders = []
    for an, a in facts.adts.items():
        for v in a["variants"]:
            for f in v["fields"]:
                if "Plane>" in f["ty"]["s"] or f["ty"]["s"].endswith("::Plane") or "Plane," in f["ty"]["s"]:
                    holders.append("%s.%s" % (an, f["name"]))
    ok = len(holders) == 1
    rep.oblige(ok, ("holders",))
    if not ok:
        rep.add(Finding("R12.5", "row containers %s" % sorted(holders), "rows are stored in more than one place: %s" % holders, None))
    statics = [s["path"] for s in facts.lib["statics"] if "__stability" not in s["path"]]
    ok = len(statics) <= 1
    rep.oblige(ok, ("statics",))
    if not ok:
        rep.add(Finding("R12.5", "statics %s" % sorted(statics), "unexpected global state: %s" % statics, None))
    rep.extra["statics"] = statics
    rep.extra["row_holders"] = holders

    # ---- R12.2: retain closure
    sweeps = []
    for b in facts.bodies.values():
        if b.kind == "promoted":
            continue
        for bb, t in b.calls():
            c = t["callee"]
            if c.get("name") == "retain" and "Plane" in " ".join(c.get("generic_args") or []):
                sweeps.append((b, bb, t))
    if len(sweeps) != 1:
        raise Broken("C12 anchor: %d retain calls on the table" % len(sweeps))
    sb, sbb, stt = sweeps[0]
    sdu = DefUse(sb)
    rr = sdu.root(stt["args"][1])
    if not (rr[0] == "rv" and rr[1]["rv"].get("agg") == "closure"):
        raise Broken("C12 anchor: retain argument is not a closure literal")
    rc = facts.bodies[rr[1]["rv"]["closure"]]
    rcfg = CFG(rc)
    rdu = DefUse(rc)
    cases = const_assignments(rc, 0)
    if not cases:
        # closure returns the comparison directly
        e = expr_place(rdu, {"local": 0, "proj": []})
        keep_terms = [(e, True)]
        decided = _keep_is(e, True, rc, sb, sdu, rr, facts)
    else:
        decided = True
        keep_terms = []
        for bi, val in cases:
            decs = controlling_decisions(rc, rcfg, bi)
            if len(decs) != 1:
                decided = False
                keep_terms.append(("%d decisions" % len(decs), val))
                continue
            s, vals, live = decs[0]
            e = expr(rdu, rc.blocks[s]["term"]["discr"])
            truth = None
            if vals == frozenset(["else"]) and set(live) == {"0", "else"}:
                truth = True
            elif vals == frozenset(["0"]):
                truth = False
            elif vals == frozenset(["1"]):
                truth = True
            if truth is None:
                decided = False
                continue
            # (cond == truth) => returns val ; keep iff val==1
            keep_terms.append((show(e), truth, val))
            if not _keep_is(e, truth if val == 1 else (not truth), rc, sb, sdu, rr, facts):
                decided = False
    rep.instances("R12.2", 1, floor=1, what="retain closure")
    rep.oblige(decided, ("retain-pred",))
    rep.sample({"rule": "R12.2", "closure": rc.name, "decisions": [str(k) for k in keep_terms]})
    if not decided:
        rep.add(Finding("R12.2", "%s : keep-condition is not `num_seconds(now - row.timestamp) < delete_after`" % rc.name,
                        "the sweep keeps/removes rows by a different predicate: %s" % [str(k) for k in keep_terms], rc.loc()))

    # ---- the way from the per-line region to the retain: the sweep may sit in a helper of the function the reader calls
    eff = Effects(facts)
    reg = Region(facts, eff)
    region_callees = {callee_name(t) for bi, t, e in reg.effect_sites()}
    chain = [(sb, sbb)]
    while chain[-1][0].name not in region_callees and len(chain) < 4:
        cur = chain[-1][0]
        callers = [(b, bb, t) for b in facts.bodies.values() if b.kind != "promoted" and "::tests::" not in b.name
                   for bb, t in b.calls() if callee_name(t) == cur.name]
        if len(callers) != 1:
            break
        cb_, cbb_, ct_ = callers[0]
        # the time and the limit are handed through unchanged
        cdu_ = DefUse(cb_)
        for i, a in enumerate(ct_["args"]):
            pname = cur.locals[i + 1].get("name") if i + 1 <= cur.arg_count else None
            if pname in ("now", "delete_after"):
                e = expr(cdu_, a)
                okp = e[0] == "arg" and not e[2] and cb_.locals[e[1]].get("name") == pname
                rep.oblige(okp, ("pass-through", cb_.name, pname))
                if not okp:
                    rep.add(Finding("R12.2", "%s : %s altered on the way to the sweep" % (cb_.name, pname),
                                    "%s calls %s with %s = %s, not with its own parameter" % (cb_.name, cur.name, pname, show(e)[:80]),
                                    span_loc(ct_.get("span"))))
        chain.append((cb_, cbb_))
    sweep_top = chain[-1][0]

    # ---- R12.3: counter automaton (in whichever function of that chain holds the counter decision)
    last = None
    for cb_, cbb_ in chain:
        try:
            _cadence(facts, rep, cb_, cbb_)
            last = None
            break
        except Broken as ex:
            last = ex
    if last is not None:
        raise last

    # ---- R12.4
    up_sites = [(bi, t) for bi, t, e in reg.effect_sites() if callee_name(t) == ub.name]
    sw_sites = [(bi, t) for bi, t, e in reg.effect_sites() if callee_name(t) == sweep_top.name]
    if not up_sites or not sw_sites:
        raise Broken("C12 anchor: table update / sweep not called from the per-line region")
    n = 0
    for ubi, ut in up_sites:
        n += 1
        # from the update, the end of the iteration must not be reachable without passing a sweep call
        r = reg.reach(start=ut["target"], avoid={bi for bi, _ in sw_sites})
        ends = [x for x in r if any(s == reg.header for s in reg.cfg.succ[x])] if reg.helper is None else \
            [x for x in r if reg.proc.blocks[x]["term"]["k"] == "return"]
        ends = [x for x in ends if x not in {bi for bi, _ in sw_sites}]
        ok = not ends
        rep.oblige(ok, ("sweep-after-update", ubi))
        if not ok:
            rep.add(Finding("R12.4", "%s : table update not followed by the sweep" % reg.proc.name,
                            "after update_aircraft an iteration can end without calling the sweep", reg.loc(ubi)))
    # and the sweep must not be skipped for accepted frames: it is reached whenever the update is
    rep.instances("R12.4", n, floor=1)
    # delete_after argument of the sweep is args.delete_after
    for bi, t in sw_sites:
        es = [expr(reg.du, a) for a in t["args"]]
        ok = any(e[0] == "arg" and e[2][-1:] == ("delete_after",) for e in es)
        rep.oblige(ok, ("delete-after-arg",))
        if not ok:
            rep.add(Finding("R12.2", "%s : sweep not given args.delete_after" % reg.proc.name,
                            "the sweep limit is not the -d option: %s" % [show(e) for e in es], reg.loc(bi)))
        now_ok = any(_is_now(e) for e in es)
        rep.oblige(now_ok, ("now-arg",))
        if not now_ok:
            rep.add(Finding("R12.2", "%s : sweep not given the current time" % reg.proc.name,
                            "the sweep's `now` is not Utc::now() of this iteration: %s" % [show(e) for e in es], reg.loc(bi)))
    rep.assumptions += ["real elapsed time and the LC column's wall-clock value are not decided"]


def _only_consts_or_now(e):
    k = e[0]
    if k == "const":
        return True
    if k == "call":
        return (e[1].endswith("Utc::now") or e[1].endswith("::default") or e[1].endswith("::new")) and all(_only_consts_or_now(a) for a in e[2])
    if k == "agg":
        return all(_only_consts_or_now(a) for a in e[2])
    if k in ("cast", "un"):
        return _only_consts_or_now(e[2])
    if k == "fn":
        return True
    return False


def _counter_writers(facts, field):
    """every place in the crate (outside constructors' aggregates) that can change AppCounters.<field> through a reference:
    a store to the field, a `&mut` borrow of it, or a store of a whole AppCounters value through `&mut AppCounters`"""
    out = []
    for b in facts.bodies.values():
        if b.kind == "promoted" or "::tests::" in b.name:
            continue
        for blk in b.blocks:
            if blk["cleanup"]:
                continue
            places = []
            for st in blk["stmts"]:
                if st["k"] != "assign":
                    continue
                places.append((st["place"], "stores to", st.get("span")))
                if st["rv"]["k"] == "ref" and st["rv"].get("mut"):
                    places.append((st["rv"]["place"], "borrows mutably", st.get("span")))
            t = blk["term"]
            if t["k"] == "call":
                places.append((t["dest"], "stores a call result to", t.get("span")))
            for pl, how, sp in places:
                proj = pl["proj"]
                if not any(p_["k"] == "deref" for p_ in proj):
                    continue
                fl = [p_ for p_ in proj if p_["k"] == "field" and (p_.get("adt") or "").endswith("AppCounters")]
                if fl and fl[0].get("name") == field:
                    out.append((b.name, "%s the field" % how, sp))
                elif not fl and proj[-1]["k"] == "deref" and how != "borrows mutably":
                    ty = b.locals[pl["local"]]["ty"]
                    if ty.get("k") == "ref" and ty.get("mut") and (ty.get("to") or {}).get("path", "").endswith("AppCounters") and len(proj) == 1:
                        out.append((b.name, "replaces the whole counters value", sp))
    return out


def _returned_local(cb):
    ret_src = None
    for blk in cb.blocks:
        for s in blk["stmts"]:
            if s["k"] == "assign" and s["place"]["local"] == 0 and not s["place"]["proj"] and s["rv"]["k"] == "use":
                ret_src = operand_place(s["rv"]["x"])
    return ret_src


def _blank_source(facts, cb, du, ret_src, depth=0):
    """the function whose `Plane { .. }` aggregate the constructor's returned row starts from: the returned local is defined by
    one call; that callee either holds the aggregate or is itself such a wrapper (`Plane::with_icao(icao)`: blank row + the
    address) whose arguments are the caller's own parameters / constants"""
    if ret_src is None or depth > 3:
        return None
    ds = du.whole_defs(ret_src["local"])
    if not (len(ds) == 1 and ds[0][0] == "call"):
        return None
    t = ds[0][3]
    fn = callee_name(t)
    if fn not in facts.bodies:
        return fn
    if any(a["body"].name == fn for a in adt_aggregates(facts, "Plane")):
        return fn
    for a in t["args"]:
        e = expr(du, a)
        if not (e[0] in ("arg", "const") or (e[0] == "path" and e[1][0] == "arg")):
            return None
    fb = facts.bodies[fn]
    return _blank_source(facts, fb, DefUse(fb), _returned_local(fb), depth + 1)


def _ctor_stamps(facts, cb, du, st, ret_src):
    """constructor: the returned local comes from a fn whose aggregate stamps Utc::now, or a later call stamps it"""
    if ret_src is None:
        return False
    newfn = _blank_source(facts, cb, du, ret_src)
    if newfn is not None:
        for a in adt_aggregates(facts, "Plane"):
            if a["body"].name == newfn:
                rv = a["stmt"]["rv"]
                e = expr(DefUse(a["body"]), rv["ops"][rv["fields"].index("timestamp")])
                if _is_now(e):
                    return True
    return False


def _keep_is(e, truth, rc, sb, sdu, rr, facts=None):
    if facts is not None:
        from ..mirq import inline_expr
        e = inline_expr(facts, e)         # see through `is_expired(plane, now, limit)` style helpers
    while e[0] == "un" and e[1] == "Not":
        e, truth = e[2], (not truth)
    return _keep_is0(e, truth, rc, sb, sdu, rr)


def _keep_is0(e, truth, rc, sb, sdu, rr):
    """is `(e == truth)` equivalent to  num_seconds(now - row.timestamp) < delete_after ?
    accepted spellings: signed_duration_since / the `-` operator for the difference; the comparison on whole seconds
    (`num_seconds(d) < limit`, mirrored, negated) or on durations (`d < TimeDelta::seconds(limit)`, which agrees with the
    whole-second comparison for every d because the limit is a whole number of seconds)."""
    def is_diff(y):
        if y[0] != "call" or len(y[2]) != 2:
            return False
        nm = y[1]
        if not (nm.endswith("signed_duration_since") or (nm.endswith("::sub") and "DateTime" in nm)):
            return False
        a_, b_ = y[2]
        a_now = a_[0] == "capture" and _capture_is(a_[1], "now", rc, sb, sdu, rr)
        b_ts = b_[0] == "arg" and b_[2][-1:] == ("timestamp",)
        return a_now and b_ts

    def is_elapsed(x):
        return x[0] == "call" and x[1].endswith("num_seconds") and len(x[2]) == 1 and is_diff(x[2][0])

    def is_limit(x):
        return x[0] == "capture" and _capture_is(x[1], "delete_after", rc, sb, sdu, rr)

    def is_limit_duration(x):
        return x[0] == "call" and x[1].split("::")[-1] == "seconds" and ("TimeDelta" in x[1] or "Duration" in x[1]) and len(x[2]) == 1 and is_limit(x[2][0])

    if e[0] == "call" and e[1].split("::")[-1] in ("lt", "gt", "le", "ge") and "PartialOrd" in e[1] and len(e[2]) == 2:
        op = {"lt": "Lt", "gt": "Gt", "le": "Le", "ge": "Ge"}[e[1].split("::")[-1]]
        l, r = e[2]
        if is_diff(l) and is_limit_duration(r):
            return (op == "Lt" and truth) or (op == "Ge" and not truth)
        if is_limit_duration(l) and is_diff(r):
            return (op == "Gt" and truth) or (op == "Le" and not truth)
        return False
    if e[0] != "bin":
        return False
    op, l, r = e[1], e[2], e[3]
    if is_elapsed(l) and is_limit(r):
        return (op == "Lt" and truth) or (op == "Ge" and not truth)
    if is_limit(l) and is_elapsed(r):
        return (op == "Gt" and truth) or (op == "Le" and not truth)
    return False


def _capture_is(name, want, rc, sb, sdu, rr):
    """captured variable `name` of the retain closure is the sweep function's parameter called `want`
    (matched by debug name AND by being a parameter of the enclosing fn)"""
    if name.lstrip("*") != want:
        return False
    for i in range(1, sb.arg_count + 1):
        if sb.locals[i].get("name") == want:
            return True
    return False


def _cadence(facts, rep, sb, sbb):
    """read (cmp, T, reset R, inc K) from the sweep function and explore the counter automaton"""
    cfg = CFG(sb)
    du = DefUse(sb)
    decs = controlling_decisions(sb, cfg, sbb)
    cnt = None
    for s, vals, live in decs:
        e = expr(du, sb.blocks[s]["term"]["discr"])
        if e[0] == "call" and e[1] in facts.bodies:
            from ..mirq import inline_expr
            e = inline_expr(facts, e)           # `if counters.is_cleanup_due()`: a predicate helper on the counters
        if e[0] == "bin" and e[1] in ("Gt", "Ge", "Lt", "Le", "Eq", "Ne"):
            l, r = e[2], e[3]
            if l[0] == "arg" and r[0] == "const" and l[2]:
                truth = vals != frozenset(["0"])
                cnt = (l, e[1], r[1], truth, s)
    if cnt is None:
        raise Broken("R12.3: the sweep is not guarded by a comparison of a counter field with a constant")
    (cl, op, T, truth, s) = cnt
    field = cl[2][-1]
    argn = cl[1]
    # writes to that field in callees
    resets = []
    incs = []
    for bb, t in sb.calls():
        tgt = callee_name(t)
        if tgt not in facts.bodies:
            continue
        if not any(_rooted_self(du, a, argn) for a in t["args"]):
            continue
        fb = facts.bodies[tgt]
        fdu = DefUse(fb)
        for bi, blk in enumerate(fb.blocks):
            for st in blk["stmts"]:
                if st["k"] == "assign":
                    fs = place_fields(st["place"])
                    if fs and fs[-1][1] == field:
                        e = expr(fdu, st["rv"]["x"]) if st["rv"]["k"] == "use" else None
                        if e and e[0] == "const":
                            resets.append((bb, e[1], tgt))
                        elif e and e[0] == "path" and e[1][0] == "bin" and e[1][1] in ("AddWithOverflow", "Add") and e[1][3][0] == "const":
                            incs.append((bb, e[1][3][1], tgt))
                        elif e and e[0] == "bin" and e[1] in ("Add", "AddWithOverflow") and e[3][0] == "const":
                            incs.append((bb, e[3][1], tgt))
    if len(resets) > 1 or len(incs) != 1:
        raise Broken("R12.3: counter writes not recognised (resets=%s incs=%s)" % (resets, incs))
    # nobody else may write the counter: a second writer (a redraw that rebuilds the whole counters struct, a helper that
    # borrows the field) changes the cadence the automaton below computes
    allowed_writers = {x[2] for x in resets} | {x[2] for x in incs} | {sb.name}
    for wname, how, wspan in _counter_writers(facts, field):
        ok_w = wname in allowed_writers
        rep.oblige(ok_w, ("counter-writer", wname, how))
        if not ok_w:
            rep.add(Finding("R12.3", "%s : also writes the sweep counter" % wname,
                            "%s %s: the sweep counter `%s` is not only stepped and reset by the sweep itself, so a sweep is no longer "
                            "guaranteed every 12 accepted frames (rows may outlive their expiry without bound)" % (wname, how, field), span_loc(wspan)))
    no_reset = not resets
    if no_reset:
        resets = [(sbb, None, None)]
    rbb, R, _ = resets[0]
    ibb, K, _ = incs[0]
    # where do reset / increment sit relative to the sweep decision?
    t = sb.blocks[s]["term"]
    edges = [(v, b) for v, b in t["targets"]] + [("else", t["otherwise"])]
    sweep_succ = [b for v, b in edges if sbb in cfg.reachable_from(b, avoid={s})]
    other_succ = [b for v, b in edges if b not in sweep_succ]

    def unavoidable(start, blk):
        r = cfg.reachable_from(start, avoid={blk})
        return start == blk or not any(sb.blocks[x]["term"]["k"] == "return" for x in r)

    reset_on_sweep = all(unavoidable(b, rbb) for b in sweep_succ) and not any(rbb in cfg.reachable_from(b) for b in other_succ)
    inc_on_sweep = all(unavoidable(b, ibb) for b in sweep_succ)
    inc_on_other = all(unavoidable(b, ibb) for b in other_succ)
    if not reset_on_sweep:
        raise Broken("R12.3: the counter reset is not tied to the sweep branch")
    cmpf = {"Gt": lambda a, b: a > b, "Ge": lambda a, b: a >= b, "Lt": lambda a, b: a < b, "Le": lambda a, b: a <= b,
            "Eq": lambda a, b: a == b, "Ne": lambda a, b: a != b}[op]
    # initial value: the aggregate of the counters struct
    init = None
    adt = cl  # arg path
    for a in adt_aggregates(facts, "AppCounters"):
        rv = a["stmt"]["rv"]
        if field in rv["fields"]:
            e = expr(DefUse(a["body"]), rv["ops"][rv["fields"].index(field)])
            if e[0] == "const":
                init = e[1]
    if init is None:
        raise Broken("R12.3: initial counter value not found")
    c = init
    gap = 0
    maxgap = 0
    maxc = c
    seen = set()
    swept = 0
    for step in range(5000):
        sweep = cmpf(c, T) == truth
        gap += 1
        if sweep:
            swept += 1
            maxgap = max(maxgap, gap)
            gap = 0
            if not no_reset:
                c = R
            if inc_on_sweep:
                c += K
        else:
            if inc_on_other:
                c += K
        maxc = max(maxc, c)
        if c > 4000:
            maxc = 1 << 32
            break
        key = (c, gap)
        if key in seen and swept > 2:
            break
        seen.add(key)
    maxgap = max(maxgap, gap)
    ok = swept > 0 and maxgap <= 12 and maxc < 1 << 31
    rep.instances("R12.3", 1, floor=1, what="sweep counter automaton")
    rep.oblige(ok, ("cadence",))
    rep.sample({"rule": "R12.3", "counter": field, "sweep_if": "%s %s %s is %s" % (field, op, T, truth), "reset": R, "inc": K,
                "init": init, "max_calls_between_sweeps": maxgap, "max_counter": maxc})
    rep.extra["cadence"] = {"max_gap": maxgap, "max_counter": maxc}
    if not ok and maxc >= 1 << 31 and swept > 0 and maxgap <= 12:
        rep.add(Finding("R12.3", "%s : sweep counter unbounded" % sb.name,
                        "the sweep counter %s is never reset: it grows with every accepted frame until the addition overflows" % field, sb.loc()))
    elif not ok:
        rep.add(Finding("R12.3", "%s : sweep cadence %d" % (sb.name, maxgap),
                        "the sweep runs only every %d accepted frames (counter %s: sweep if %s %s %s, reset %s, +%s): "
                        "a silent aircraft can stay for more than 12 further frames" % (maxgap, field, field, op, T, R, K), sb.loc()))
