"""C14 — printed rows render the table faithfully under their column headers.

E3 format-template algebra: no string is ever formatted.

R14.1 width agreement [proof, exhaustive over 32 flag sets x every Some/None path]: the row writer's CFG is pruned by the
      flag set; every `write!` site contributes its minimum display width (placeholder width, literal length, 1 for an
      unpadded char/digit); the minimum and maximum total over all remaining paths must coincide (every column's filled
      and blank arms are equally wide) and equal the header total  sum(width_i + 1) + 2  read from the header list;
      each optional group adds the same width to header and row;
R14.2 group gating [proof]: per flag set the ordered list of row fields equals the ordered list of header names mapped
      through the column->field table (so a group printed without its flag, or swapped, is caught even at equal widths);
R14.3 column <-> field [proof]: that table (SQWK->squawk, W->category via the wake function, ...);
R14.4 alignment and blanks [proof]: numeric arguments are never left-aligned, text never right-aligned, widths present;
      blank arms print only spaces;
R14.5 refresh layout [proof]: header, separator, rows, separator in that order.
"""
from ..cfg import CFG
from ..facts import Broken, callee_name, span_loc
from ..mirq import DefUse, expr, iter_stmts, show
from ..report import Finding

LEVEL = "other"
FLAGS = ["weather", "angles", "speed", "altitude", "extra"]
COLUMN_FIELDS = {
    "ICAO": ["icao"], "RG": ["reg"], "SQWK": ["squawk", "threat_encounter"], "W": ["category"], "CALLSIGN": ["ais"], "LATITUDE": ["lat", "lon"],
    "LONGITUDE": ["lon", "lat"], "DIST": ["distance_from_observer"], "ALT B": ["altitude", "altitude_source"], "ALT G": ["altitude_gnss"],
    "ALT S": ["selected_altitude", "target_altitude_source"], "BARO": ["barometric_pressure_setting"], "VRATE": ["vrate", "vrate_source"],
    "TRK": ["track", "track_source"], "HDG": ["heading", "heading_source"], "GSP": ["grspeed"], "TAS": ["true_airspeed"],
    "IAS": ["indicated_airspeed"], "MACH": ["mach_number"], "RLL": ["roll_angle"], "TAR": ["track_angle_rate"], "TEMP": ["temperature"],
    "WND": ["wind"], "WDR": ["wind"], "HUM": ["humidity"], "PRES": ["pressure"], "TB": ["turbulence"], "VX": ["category"], "DF": ["last_df"],
    "TC": ["last_type_code"], "V": ["adsb_version"], "S": ["surveillance_status"], "PTH": ["position_timestamp", "track_timestamp", "heading_timestamp"],
    "LC": ["timestamp"],
}
NUMERIC = ("u8", "u16", "u32", "u64", "usize", "i8", "i16", "i32", "i64", "isize", "f32", "f64")


def site_width(site):
    w = 0
    for p in site["pieces"]:
        if "lit" in p:
            w += len(p["lit"])
        else:
            if isinstance(p.get("width"), int):
                w += p["width"]
            elif p.get("width") is None:
                w += 1          # unpadded char / single digit: minimum display width
            else:
                return None     # width taken from an argument: not a fixed layout
    return w


def run(facts, rep, tier):
    rep.explanation = (
        "Symbolic column algebra over the structured format_args! templates of the expanded AST joined (by call-site span) "
        "with the MIR CFG of the row writer: widths are summed along CFG paths by dynamic programming per flag set; the header "
        "list is read from the MIR constants of the header builder per flag set; field provenance of every placeholder "
        "argument comes from def-use trees. Covers all 32 flag sets and all filled/blank combinations without formatting a string."
    )
    rep.trusted = ["rustc expanded AST (format_args templates) and MIR", "std::fmt width/alignment semantics", "column->field table in the rule"]
    for rid, txt in [("R14.1", "row width is path-independent and equals header/separator width, for all 32 flag sets"),
                     ("R14.2", "same groups in the same order in header and rows"), ("R14.3", "each column shows its own field"),
                     ("R14.4", "alignment: numbers right, text left; blanks are spaces"), ("R14.5", "header, separator, rows, separator")]:
        rep.rule(rid, txt, "P")
    rep.rule("R14.8", "a column is blank exactly when its parameter is unknown (known values of either sign are shown)", "P")
    rep.rule("R14.7", "each optional group is switched on exactly by its -i letter, however the letters are spread over -i occurrences", "P")
    rep.rule("R14.6", "position-exact: under every header column the row shows that column's field (or blanks), for all 32 flag sets", "P")
    rows = [b for b in facts.bodies.values() if b.name.endswith("::simple_display") and b.kind == "assoc"]
    if len(rows) != 1:
        raise Broken("C14 anchor: row writer (SimpleDisplay impl) not unique")
    rb = rows[0]
    cfg = CFG(rb)
    du = DefUse(rb)
    file_ = rb.j["span"]["file"]
    sites = {}
    for s in facts.fmt_sites:
        cs = s["span"].get("callsite") or s["span"]
        if cs["file"] == file_ and rb.j["span"]["line"] <= cs["line"] <= rb.j["span"]["hi_line"]:
            sites[(cs["line"], cs["col"])] = s
    # MIR write_fmt blocks -> site
    wblocks = {}
    for bi, t in rb.calls():
        if t["callee"].get("name") == "write_fmt":
            cs = (t["span"] or {}).get("callsite") or t["span"]
            key = (cs["line"], cs["col"])
            if key not in sites:
                raise Broken("C14: write! at %s:%s has no template fact" % key)
            wblocks[bi] = sites[key]
    few_sites = len(wblocks) < 40      # cells written by helpers / macros / loops: the template algebra (E3) does not apply,
                                       # the abstract rendering (R14.6-R14.8) decides
    # argument provenance per site: each Argument::new_* call feeds the next write_fmt on its straight-line successor chain
    site_args = {}
    for bi, t in rb.calls():
        nm = callee_name(t) or ""
        if nm.startswith("core::fmt::rt::Argument::"):
            cur = t["target"]
            guard = 0
            while cur is not None and cur not in wblocks and guard < 64:
                guard += 1
                nx = cfg.succ[cur]
                cur = nx[0] if len(nx) == 1 else None
            if cur is None or cur not in wblocks:
                raise Broken("C14: a format argument does not reach a write! site")
            cs = (rb.blocks[cur]["term"]["span"] or {}).get("callsite")
            key = (cs["line"], cs["col"])
            e = expr(du, t["args"][0])
            ty = (t["callee"].get("generic_args") or ["?"])
            site_args.setdefault(key, []).append((bi, e, ty[-1] if ty else "?", t["callee"].get("name")))
    # flag switches
    flag_sw = {}
    for bi in cfg.reach:
        t = rb.blocks[bi]["term"]
        if t["k"] == "switch":
            e = expr(du, t["discr"])
            if e[0] == "call" and e[1].split("::")[-1] in FLAGS and "DisplayFlags" in e[1]:
                flag_sw[bi] = (e[1].split("::")[-1], t)
    if len(flag_sw) != 5:
        raise Broken("C14 anchor: %d flag tests in the row writer (expected 5)" % len(flag_sw))
    # header builder
    hb = [b for b in facts.bodies.values() if b.name.endswith("LegendHeaders::from_display_flags")]
    if len(hb) != 1:
        raise Broken("C14 anchor: header builder")
    hb = hb[0]
    hcfg = CFG(hb)
    hdu = DefUse(hb)
    hflag = {}
    for bi in hcfg.reach:
        t = hb.blocks[bi]["term"]
        if t["k"] == "switch":
            e = expr(hdu, t["discr"])
            if e[0] == "call" and e[1].split("::")[-1] in FLAGS and "DisplayFlags" in e[1]:
                hflag[bi] = (e[1].split("::")[-1], t)
    harr = {}
    for bi, si, s in iter_stmts(hb):
        if s["k"] == "assign" and s["rv"]["k"] == "agg" and s["rv"].get("agg") == "array":
            cols = []
            for o in s["rv"]["ops"]:
                e = expr(hdu, o)
                if e[0] == "agg" and len(e[2]) == 2 and e[2][0][0] == "const" and isinstance(e[2][0][1], str) and e[2][1][0] == "const":
                    cols.append((e[2][0][1], e[2][1][1]))
            if cols and len(cols) == len(s["rv"]["ops"]):
                harr.setdefault(bi, []).extend(cols)
    # the vec! of the base columns is a promoted/boxed array: also look into promoted bodies of the header builder
    for pn, pb in facts.bodies.items():
        if pb.kind == "promoted" and pb.parent == hb.name:
            pdu = DefUse(pb)
            for bi, si, s in iter_stmts(pb):
                if s["k"] == "assign" and s["rv"]["k"] == "agg" and s["rv"].get("agg") == "array":
                    cols = []
                    for o in s["rv"]["ops"]:
                        e = expr(pdu, o)
                        if e[0] == "agg" and len(e[2]) == 2 and e[2][0][0] == "const" and isinstance(e[2][0][1], str):
                            cols.append((e[2][0][1], e[2][1][1]))
                    if cols:
                        harr.setdefault(0, [])
                        harr[0] = cols + harr[0]
    trailer = None
    for bi, si, s in iter_stmts(hb):
        pass
    n1 = n2 = 0
    group_w = {}
    base = None
    # ---- R14.6: position-exact rendering by abstract interpretation (handles helpers, loops, dynamic widths)
    _layout_check(facts, rep, rb, hb, hcfg, hflag, harr, tier)
    _blank_check(facts, rep, rb, hb, hcfg, hflag, harr)
    _letters_check(facts, rep)
    e3_ok = not few_sites and not cfg.loops() and all(site_width(x) is not None for x in wblocks.values()) and \
        not any((callee_name(t) or "") in facts.bodies and any(tt["callee"].get("name") == "write_fmt" for _, tt in facts.bodies[callee_name(t)].calls())
                for _, t in rb.calls())
    if not e3_ok:
        rep.extra["template_algebra"] = "skipped: the row writer uses loops / helper writers / dynamic widths; R14.6 (abstract rendering) decides"
    for mask in (range(32) if e3_ok else []):
        fs = {FLAGS[i]: bool((mask >> i) & 1) for i in range(5)}
        # ---- header list along the pruned path
        hcols = _header_for(facts, hb, hcfg, hflag, harr, fs)
        hwidth = sum(w + 1 for _, w in hcols) + 2
        # ---- row DP
        lo, hi, order = _row_dp(rb, cfg, flag_sw, wblocks, fs)
        n1 += 1
        ok = lo == hi == hwidth
        rep.oblige(ok, ("width", mask))
        if mask in (0, 31):
            rep.sample({"rule": "R14.1", "flags": fs, "header_columns": len(hcols), "header_width": hwidth, "row_width_min": lo, "row_width_max": hi})
        if not ok:
            on = [k for k, v in fs.items() if v]
            if lo != hi:
                msg = "rows are %d..%d wide depending on which values are present" % (lo, hi)
                key = "row width depends on the values present"
            else:
                msg = "rows are %d wide but header/separator are %d wide" % (lo, hwidth)
                key = "row width != header width"
            rep.add(Finding("R14.1", "%s (flags %s)" % (key, "+".join(on) or "none"), "-i flags %s: %s" % (on or "none", msg), rb.loc()))
        # ---- field order
        want = []
        for name, w in hcols + [("LC", 2)]:
            for f in COLUMN_FIELDS.get(name, ["?" + name]):
                if not want or want[-1] != f:
                    want.append(f)
        got = []
        for bi in order:
            cs = (rb.blocks[bi]["term"]["span"] or {}).get("callsite")
            for abi, e, ty, kind in sorted(site_args.get((cs["line"], cs["col"]), [])):
                f = _field_of(e)
                if f and (not got or got[-1] != f):
                    got.append(f)
        n2 += 1
        wd = _dedupe(want)
        gd = _dedupe(got)
        ok = gd == wd
        rep.oblige(ok, ("fields", mask))
        if not ok:
            on = [k for k, v in fs.items() if v]
            i = 0
            while i < min(len(gd), len(wd)) and gd[i] == wd[i]:
                i += 1
            rep.add(Finding("R14.2", "column/field order (flags %s)" % ("+".join(on) or "none"),
                            "-i flags %s: rows print fields %s... where the header expects %s... (position %d)"
                            % (on or "none", gd[i:i + 3], wd[i:i + 3], i), rb.loc()))
    rep.instances("R14.1", n1, floor=32 if e3_ok else 0, what="flag sets (all filled/blank paths each)")
    rep.instances("R14.2", n2, floor=32 if e3_ok else 0)
    rep.extra["exhaustive"] = True
    rep.extra["write_sites"] = len(wblocks)
    # ---- R14.4 alignment / blanks
    n4 = 0
    for bi, s in sorted(wblocks.items()):
        cs = (rb.blocks[bi]["term"]["span"] or {}).get("callsite")
        args = sorted(site_args.get((cs["line"], cs["col"]), []))
        ph = [p for p in s["pieces"] if "arg" in p]
        for p in ph:
            n4 += 1
            a = s["args"][p["arg"]] if p["arg"] is not None and p["arg"] < len(s["args"]) else None
            ty = None
            if p["arg"] is not None and p["arg"] < len(args):
                ty = args[p["arg"]][2].lstrip("&")
            is_blank = a is not None and a.get("lit") == ""
            ok = True
            why = ""
            if is_blank:
                ok = isinstance(p.get("width"), int)
                why = "blank without a width"
            elif ty in NUMERIC:
                if p.get("align") == "<":
                    ok, why = False, "a number is left-aligned"
            elif ty in ("str", "std::string::String", "&str"):
                if p.get("align") == ">":
                    ok, why = False, "text is right-aligned"
            rep.oblige(ok, ("align", cs["line"], p["arg"]))
            if not ok:
                rep.add(Finding("R14.4", "alignment of %s" % (a.get("snippet") if a else "?"), "write! at line %d: %s (`%s`)" % (cs["line"], why, a.get("snippet") if a else ""),
                                "%s:%d" % (file_, cs["line"])))
        # literal text of blank arms must be spaces
        if all(a.get("lit") == "" for a in s["args"]) and s["args"]:
            lits = "".join(p["lit"] for p in s["pieces"] if "lit" in p)
            ok = lits.strip(" ") == ""
            rep.oblige(ok, ("blank-lit", cs["line"]))
            if not ok:
                rep.add(Finding("R14.4", "blank arm prints %r" % lits, "the blank form of a column prints %r" % lits, "%s:%d" % (file_, cs["line"])))
    rep.instances("R14.4", n4, floor=60 if e3_ok else 0, what="placeholders")
    # ---- R14.5
    order, nprint, where = _refresh_order(facts)
    ok = order == ["header", "separator", "rows", "separator"]
    rep.oblige(ok, ("layout",))
    rep.sample({"rule": "R14.5", "refresh_function": where.name, "printed_in_order": order})
    rep.instances("R14.5", nprint, floor=1, what="output operations of one refresh, followed into helpers")
    if not ok:
        rep.add(Finding("R14.5", "refresh layout %s" % order, "a refresh prints %s; expected header, separator, rows, separator" % order, where.loc()))
    rep.assumptions += ["an unpadded char or single digit counts as 1 column ('whenever every value fits its column')",
                        "each aircraft once / ordering is C15's"]


def _refresh_order(facts):
    """What one refresh writes, in order, as a list over {header, separator, rows}: the refresh function (the crate function
    that is handed both the table and the prepared header lines) is walked in dominance order; every output operation -
    a `print!` or a crate callee that prints - contributes the pieces its printed value is made of:
      header / separator   a read of the corresponding field of the header struct,
      rows                 the result (or the output) of a crate function that is handed the table.
    Helpers that return the text (`screen(..)`, `[a, b, c].concat()`, `format!`) are followed through their return expression;
    helpers that print are followed into their bodies."""
    from ..effects import Effects
    from ..mirq import expr_place
    eff = Effects(facts)
    hdr_adt = [n for n in facts.adts if n.endswith("::LegendHeaders")]
    if len(hdr_adt) != 1:
        raise Broken("C14 anchor: header struct")
    fields = [fl["name"] for v in facts.adts[hdr_adt[0]]["variants"] for fl in v["fields"]]
    roles = {}
    for fl in fields:
        if "sep" in fl.lower() or "rule" in fl.lower() or "line" in fl.lower():
            roles[fl] = "separator"
        elif "head" in fl.lower() or "title" in fl.lower():
            roles[fl] = "header"
    if sorted(roles.values()) != ["header", "separator"]:
        raise Broken("C14 anchor: fields of the header struct %s" % fields)

    def has_param(b, suffix):
        return any(b.locals[i]["ty"]["s"].replace("&mut ", "").lstrip("&").endswith(suffix) for i in range(1, b.arg_count + 1))

    # which functions (transitively) read the header lines: the ones that compose a refresh; a function that is handed the table
    # and does not read them produces / prints the rows
    import json as _json
    from ..cfg import call_graph, reachable_bodies
    direct_hdr = set()
    for b in facts.bodies.values():
        if b.kind == "promoted" or "::tests::" in b.name:
            continue
        txt = _json.dumps(b.blocks)
        if any(('"name": "%s", "adt": "%s"' % (fl, hdr_adt[0])) in txt for fl in roles):
            direct_hdr.add(b.name)
    cg = call_graph(facts)
    reads_hdr = {n for n in cg if n in facts.bodies and direct_hdr & reachable_bodies(facts, [n], cg)}
    cands = [b for b in facts.bodies.values() if b.kind in ("fn", "assoc") and "::tests::" not in b.name and has_param(b, "::Planes")
             and b.name in reads_hdr and ("stdout",) in eff.of(b.name)]
    count = [0]

    def toks_expr(e, depth):
        out = []
        if not isinstance(e, tuple) or depth > 6:
            return out
        if e and e[0] in ("arg", "path", "capture"):
            for x in e:
                if isinstance(x, tuple):
                    for y in x:
                        if isinstance(y, str) and y in roles:
                            out.append(roles[y])
                        elif isinstance(y, tuple):
                            out += toks_expr(y, depth + 1)
            if e[0] == "path" and isinstance(e[1], tuple):
                pass
            return out
        if e and e[0] == "call" and isinstance(e[1], str) and e[1] in facts.bodies:
            cb = facts.bodies[e[1]]
            if has_param(cb, "::Planes"):
                if cb.name in reads_hdr:
                    # a helper that composes the whole screen: its return expression with our arguments
                    from ..mirq import _subst_args
                    return toks_expr(_subst_args(expr_place(DefUse(cb), {"local": 0, "proj": []}), e[2]), depth + 1)
                return ["rows"]
            from ..mirq import _subst_args
            return toks_expr(_subst_args(expr_place(DefUse(cb), {"local": 0, "proj": []}), e[2]), depth + 1)
        for x in e:
            if isinstance(x, tuple):
                out += toks_expr(x, depth)
        return out

    def toks_body(b, depth):
        out = []
        if depth > 4:
            return out
        cfg = CFG(b)
        du = DefUse(b)
        sites = []
        for bi in sorted(cfg.reach):
            if b.blocks[bi]["cleanup"]:
                continue
            t = b.blocks[bi]["term"]
            if t["k"] != "call":
                continue
            p = t["callee"].get("path") or ""
            tgt = callee_name(t)
            if p in ("std::io::_print", "std::io::_eprint"):
                sites.append((bi, toks_expr(expr(du, t["args"][0]), 0)))
            elif tgt in facts.bodies and ("stdout",) in eff.of(tgt):
                cb = facts.bodies[tgt]
                if has_param(cb, "::Planes") and cb.name not in reads_hdr:
                    sites.append((bi, ["rows"]))
                else:
                    sites.append((bi, toks_body(cb, depth + 1)))
        sites.sort(key=lambda x: sum(1 for bj, _ in sites if cfg.dominates(bj, x[0])))
        for i, (bi, tk) in enumerate(sites):
            count[0] += 1
            out += tk
        # the pieces must be totally ordered by dominance (a piece printed on one branch only is not part of every refresh)
        tok_sites = [bi for bi, tk in sites if tk]
        for i in range(len(tok_sites) - 1):
            if not cfg.dominates(tok_sites[i], tok_sites[i + 1]):
                out.append("unordered")
        return out
    # the refresh function: the innermost candidate whose own output contains both rows and header lines
    kept = []
    for b in cands:
        count[0] = 0
        tk = toks_body(b, 0)
        if "rows" in tk and ("header" in tk or "separator" in tk):
            kept.append((b, tk, count[0]))
    knames = {b.name for b, _, _ in kept}
    top = [(b, tk, n) for b, tk, n in kept if not (knames - {b.name}) & reachable_bodies(facts, [b.name], cg)]
    if len(top) != 1:
        raise Broken("C14 anchor: %d refresh functions (handed the table, printing rows and header lines)" % len(top))
    return top[0][1], top[0][2], top[0][0]


def _dedupe(xs):
    out = []
    for x in xs:
        if x not in out:
            out.append(x)
    return out


def _field_of(e):
    """row field a placeholder argument is derived from"""
    from ..lineexpr import walk
    for x in walk(e):
        if x[0] == "arg" and x[1] == 1 and x[2]:
            return x[2][0]
    return None


def _pruned_succ(body, cfg, flag_sw, fs, bi):
    if bi in flag_sw:
        name, t = flag_sw[bi]
        want = 1 if fs[name] else 0
        for v, b in t["targets"]:
            if int(v) == want:
                return [b]
        # `switch [0: off] otherwise on`
        vals = [int(v) for v, _ in t["targets"]]
        if want not in vals:
            return [t["otherwise"]]
    return cfg.succ[bi]


def _row_dp(body, cfg, flag_sw, wblocks, fs):
    """(min width, max width, write blocks in topological order) over the flag-pruned DAG; Err returns of `?` are ignored"""
    import functools
    import sys
    sys.setrecursionlimit(10000)
    order = []

    @functools.lru_cache(maxsize=None)
    def go(bi):
        t = body.blocks[bi]["term"]
        w = 0
        if bi in wblocks:
            sw = site_width(wblocks[bi])
            if sw is None:
                raise Broken("C14: dynamic width in the row writer")
            w = sw
        if t["k"] == "return":
            return (w, w, True)
        res = []
        for s in _pruned_succ(body, cfg, flag_sw, fs, bi):
            if _is_err_edge(body, bi, s):
                continue
            r = go(s)
            if r[2]:
                res.append(r)
        if not res:
            return (0, 0, False)
        return (w + min(r[0] for r in res), w + max(r[1] for r in res), True)

    lo, hi, ok = go(0)
    # topological order of reachable write blocks (pruned)
    seen = set()
    st = [0]
    reach = []
    while st:
        x = st.pop()
        if x in seen:
            continue
        seen.add(x)
        reach.append(x)
        for s in _pruned_succ(body, cfg, flag_sw, fs, x):
            if not _is_err_edge(body, x, s):
                st.append(s)
    from ..cfg import _rpo
    rp = {b: i for i, b in enumerate(_rpo(cfg.succ, 0))}
    order = sorted([b for b in reach if b in wblocks], key=lambda b: rp.get(b, 0))
    return lo, hi, order


def _is_err_edge(body, bi, s):
    """edge taken when a `write!`'s Result is Err (the `?` early return): Try::branch switch value 1"""
    t = body.blocks[bi]["term"]
    if t["k"] != "switch":
        return False
    # discriminant of ControlFlow from Try::branch: 0 = Continue, 1 = Break
    for v, b in t["targets"]:
        if b == s and int(v) == 1:
            # is this switch fed by a Try::branch call in a predecessor?
            return _fed_by_branch(body, bi)
    return False


_BR = {}


def _fed_by_branch(body, bi):
    """the switch at bi tests the ControlFlow returned by Try::branch (the `?` operator)"""
    key = (body.name, bi)
    if key not in _BR:
        du = DefUse(body)
        e = expr(du, body.blocks[bi]["term"]["discr"])
        _BR[key] = e[0] == "discr" and e[1][0] == "call" and e[1][1].endswith("Try>::branch")
    return _BR[key]


_HDR = {}


def _flag_bits(facts, fs):
    """a DisplayFlags value whose accessors answer `fs` (found by evaluating the accessors abstractly on all 64 bit patterns)"""
    from ..absint import k3 as K3
    from ..absint.ctx import ref_to
    from ..absint.domain import BoolV, IntV, StructV
    key = ("bits", id(facts))
    if key not in _HDR:
        flags_adt = [n for n in facts.adts if n.endswith("::DisplayFlags")][0]
        table = {}
        for bits in range(64):
            flags = StructV(flags_adt, {"bits": IntV.const("u8", bits)})
            got = {}
            for name in FLAGS:
                fn = [b for b in facts.bodies.values() if b.name.endswith("DisplayFlags::" + name)]
                if len(fn) != 1:
                    raise Broken("C14 anchor: DisplayFlags::%s" % name)
                I, v, st = K3.run_fn(facts, fn[0].name, lambda I, st: [ref_to(I, st, flags)], "flag %s" % name)
                got[name] = v.val if isinstance(v, BoolV) else None
            table.setdefault(tuple(got[n] for n in FLAGS), bits)
        _HDR[key] = table
    return _HDR[key].get(tuple(bool(fs[n]) for n in FLAGS))


def _header_by_e2(facts, hb, fs):
    """the header and separator lines as constant text (E2 constant propagation through the header builder, whatever its
    shape), cut into (title, width) columns at the separator's runs of '-'.  None if the builder is not constant-foldable."""
    from ..absint import k3 as K3
    from ..absint.ctx import ref_to
    from ..absint.domain import IntV, StrV, StructV
    bits = _flag_bits(facts, fs)
    if bits is None:
        return None
    key = ("hdr", id(facts), bits)
    if key in _HDR:
        return _HDR[key]
    flags_adt = [n for n in facts.adts if n.endswith("::DisplayFlags")][0]
    flags = StructV(flags_adt, {"bits": IntV.const("u8", bits)})
    out = None
    try:
        I, v, st = K3.run_fn(facts, hb.name, lambda I, st: [ref_to(I, st, flags)], "header %d" % bits)
    except Exception:
        v = None
    if isinstance(v, StructV):
        texts = [x.text for x in v.fields.values() if isinstance(x, StrV) and x.skind == "lit"]
        seps = [x for x in texts if x.strip("\n") and set(x.strip("\n")) <= set("- ")]
        heads = [x for x in texts if x not in seps]
        if len(seps) == 1 and len(heads) == 1:
            S, H = seps[0].rstrip("\n"), heads[0].rstrip("\n")
            cols = []
            pos = 0
            ok = len(S) == len(H)
            for run in S.split(" "):
                if not run or set(run) != {"-"}:
                    ok = False
                    break
                cols.append((H[pos:pos + len(run)].strip(), len(run)))
                if pos + len(run) < len(H) and H[pos + len(run)] != " ":
                    ok = False
                pos += len(run) + 1
            if ok and cols:
                if cols[-1] == ("LC", 2):
                    cols = cols[:-1]
                out = cols
    _HDR[key] = out
    return out


def _header_for(facts, hb, hcfg, hflag, harr, fs):
    cols = _walk_header(hb, hcfg, hflag, harr, fs)
    e2 = _header_by_e2(facts, hb, fs)
    if e2 is not None:
        if cols and [(n, int(w)) for n, w in cols] != e2:
            raise Broken("C14: the header columns read from the MIR (%s...) and by constant propagation (%s...) differ" % (cols[:3], e2[:3]))
        cols = e2
    if not cols:
        raise Broken("C14 anchor: the header columns could not be read (flags %s)" % sorted(k for k, v in fs.items() if v))
    return cols


def _walk_header(hb, hcfg, hflag, harr, fs):
    cols = list(harr.get(0, []))
    seen = set()
    bi = 0
    guard = 0
    while guard < 2000:
        guard += 1
        if bi in seen:
            break
        seen.add(bi)
        if bi in harr and bi != 0:
            cols += harr[bi]
        succ = _pruned_succ(hb, hcfg, hflag, fs, bi)
        succ = [s for s in succ if not hb.blocks[s]["cleanup"]]
        t = hb.blocks[bi]["term"]
        if t["k"] == "return" or not succ:
            break
        bi = succ[0]
    return cols


def _layout_check(facts, rep, rb, hb, hcfg, hflag, harr, tier="quick"):
    from ..absint import k3 as K3
    from ..absint.ctx import new_interp, ref_to
    from ..absint.domain import BoolV, IntV, LayoutV, StructV
    from ..absint.interp import Diverge, State
    flags_adt = [n for n in facts.adts if n.endswith("::DisplayFlags")][0]
    n = 0
    # the ranges the row's numeric fields can take: hull of everything any decode context stores (E2/K2) - needed only to
    # show that the one-character cells (category digits, version, ...) are one character wide
    from ..absint.batch import k2_results
    hulls = {k: v for k, v in k2_results(facts, tier)["hulls"]["ranges"].items()
             if k in ("category.0", "category.1", "adsb_version", "last_df", "last_type_code")}
    for bits in range(32):
        n += 1
        flags = StructV(flags_adt, {"bits": IntV.const("u8", bits)})
        # which groups does this bit pattern switch on?  (evaluate the accessors abstractly)
        fs = {}
        for name in FLAGS:
            fn = [b for b in facts.bodies.values() if b.name.endswith("DisplayFlags::" + name)]
            if len(fn) != 1:
                raise Broken("C14 anchor: DisplayFlags::%s" % name)
            I, v, st = K3.run_fn(facts, fn[0].name, lambda I, st: [ref_to(I, st, flags)], "flag %s" % name)
            if not (isinstance(v, BoolV) and v.val is not None):
                raise Broken("C14: DisplayFlags::%s(bits=%d) is not decided" % (name, bits))
            fs[name] = v.val
        hcols = _header_for(facts, hb, hcfg, hflag, harr, fs)
        I = new_interp(facts)
        I.side["layout_mode"] = True
        I.ctx_label = "layout flags=%s" % bits
        I.infeasible_edges = _fmt_err_edges(facts)
        st = State()
        row = K3.row_with_hulls(facts, hulls)
        sink = I.new_cell(st, LayoutV())
        from ..absint.domain import RefV
        try:
            st, res = I.run_body(st, rb, [ref_to(I, st, row), RefV(sink, (), True), ref_to(I, st, flags)])
        except Diverge:
            rep.add(Finding("R14.6", "row writer panics (flags %d)" % bits, "rendering a row always panics for -i bits %d" % bits, rb.loc()))
            continue
        lay = I.cell_get(st, sink)
        on = [k for k, v in fs.items() if v]
        label = "+".join(on) or "none"
        if not isinstance(lay, LayoutV):
            rep.oblige(False, ("layout", bits))
            rep.add(Finding("R14.6", "row rendering not analysable (flags %s)" % label, "the row writer's output could not be followed: %r; %s"
                            % (lay, sorted(set(w[1] for w in I.warnings))[:3]), rb.loc()))
            continue
        total = sum(w + 1 for _, w in hcols) + 2
        probs = []
        if lay.ragged:
            probs.append("row width differs between filled and blank values")
        if len(lay.cells) != total:
            probs.append("row is %d characters wide, header is %d" % (len(lay.cells), total))
        probs += list(lay.issues)
        pos = 0
        for name, w in hcols + [("LC", 1)]:
            want = COLUMN_FIELDS.get(name, [])
            width = w if name != "LC" else 2
            seen = set()
            for i in range(pos, min(pos + width, len(lay.cells))):
                for src in lay.cells[i]:
                    if src[0] == "field":
                        seen.add(src[1])
                        if src[1] not in want:
                            probs.append("column %s (characters %d-%d) shows field `%s`" % (name, pos, pos + width - 1, src[1]))
                    elif src[0] in ("other", "text", "const"):
                        probs.append("column %s shows %s" % (name, src))
            if want and want[0] not in seen and not (name in ("WDR",) and "wind" in seen):
                probs.append("column %s never shows `%s`" % (name, want[0]))
            # separator position: a space, a blank, or the column's one-character annotation
            sep = pos + width
            if name != "LC" and sep < len(lay.cells):
                for src in lay.cells[sep]:
                    ok = src in (("lit", " "), ("blank",)) or (src[0] == "field" and src[1] in want + _next_fields(hcols, name))
                    if not ok:
                        probs.append("after column %s there is %s instead of a blank" % (name, src))
            pos += width + (1 if name != "LC" else 0)
        probs = list(dict.fromkeys(probs))
        rep.oblige(not probs, ("layout", bits))
        if bits in (0, 31) and not probs:
            rep.sample({"rule": "R14.6", "flags": on, "width": len(lay.cells), "columns": len(hcols) + 1})
        if probs:
            rep.add(Finding("R14.6", "row layout vs header (flags %s): %s" % (label, probs[0].split("(")[0].strip()[:60]),
                            "-i %s: %s" % (label, "; ".join(probs[:4])), rb.loc()))
    rep.instances("R14.6", n, floor=32, what="flag sets rendered abstractly")


_ERR_EDGES = {}


def _fmt_err_edges(facts):
    """in every crate body: the Break edge of a `?` applied to the fmt::Result of a write - a String sink cannot fail"""
    if _ERR_EDGES.get("h") == facts.hash:
        return _ERR_EDGES["v"]
    out = {}
    for b in facts.bodies.values():
        if b.kind == "promoted" or not any(t["callee"].get("name") == "write_fmt" for _, t in b.calls()):
            continue
        cfg = CFG(b)
        du = DefUse(b)
        edges = set()
        for bi in cfg.reach:
            t = b.blocks[bi]["term"]
            if t["k"] != "switch":
                continue
            e = expr(du, t["discr"])
            if e[0] == "discr" and e[1][0] == "call" and e[1][1].endswith("Try>::branch"):
                inner = e[1][2][0] if e[1][2] else None
                if inner and inner[0] == "call" and ("write_fmt" in inner[1] or inner[1] in facts.bodies):
                    for v, tgt in t["targets"]:
                        if int(v) == 1:
                            edges.add((bi, tgt))
        if edges:
            out[b.name] = edges
    _ERR_EDGES["h"] = facts.hash
    _ERR_EDGES["v"] = out
    return out


def _next_fields(hcols, name):
    """PTH is three one-character age marks; SQWK's threat mark sits in the separator position"""
    return []


LETTER_OF = {"weather": "w", "angles": "a", "speed": "s", "altitude": "A", "extra": "e"}


def _letters_check(facts, rep):
    """R14.7: the value of every group accessor, as a boolean function of "letter l occurs in the k-th -i argument"
    (3 occurrences x 6 letters = 18 atoms, kept as truth tables), equals the OR over the occurrences of that group's letter."""
    from ..absint import k3 as K3
    from ..absint.ctx import ref_to
    from ..absint.domain import TT, BoolV, IntV, RefV, StrV, StructV, VecV, bit_is_const, bit_or, tt_setup, tt_support
    from ..absint.models2 import charset
    from ..mirq import operand_place
    letters = ["w", "a", "s", "A", "e", "Q"]
    NOCC = 3
    from ..optexpr import eval_option_arg, find_flags_site
    b, bi, t = find_flags_site(facts)
    du = DefUse(b)
    atoms = tt_setup(["%s#%d" % (l, k + 1) for k in range(NOCC) for l in letters])
    occ = []
    for k in range(NOCC):
        occ.append(charset({l: atoms[k * len(letters) + i] for i, l in enumerate(letters)}))

    def ev(I, st, e):
        try:
            return eval_option_arg(I, st, e, VecV(occ))
        except Broken as ex:
            raise Broken("C14 R14.7: %s" % ex)

    res = {}

    def build(I, st):
        return [ev(I, st, expr(du, a)) for a in t["args"]]
    try:
        I, flags, st = K3.run_fn(facts, callee_name(t), build, "flags from -i letters")
    finally:
        pass
    n = 0
    if flags is None:
        rep.add(Finding("R14.7", "display flags construction panics", "%s panics for every -i list" % callee_name(t), span_loc(t.get("span"))))
        rep.instances("R14.7", 1, floor=1)
        return
    for name, letter in LETTER_OF.items():
        n += 1
        fn = [x for x in facts.bodies.values() if x.name.endswith("DisplayFlags::" + name)]
        if len(fn) != 1:
            raise Broken("C14 anchor: DisplayFlags::%s" % name)
        want = 0
        for k in range(NOCC):
            want = bit_or(want, atoms[k * len(letters) + letters.index(letter)])
        I2, v, st2 = K3.run_fn(facts, fn[0].name, lambda I, st: [ref_to(I, st, flags)], "flag %s of -i letters" % name)
        got = v.bit if isinstance(v, BoolV) else None
        if isinstance(v, BoolV) and v.val is not None:
            got = 1 if v.val else 0
        ok = got is not None and got == want
        rep.oblige(ok, ("letter", name))
        if not ok:
            why = "is not a function of the -i letters alone (%r)" % (v,)
            if got is not None and (bit_is_const(got) or (isinstance(got, tuple) and got[0] == "f")):
                gm = 0 if got == 0 else (TT["all"] if got == 1 else got[1])
                diff = gm ^ want[1]
                a = (diff & -diff).bit_length() - 1          # an assignment on which they differ
                given = []
                for k in range(NOCC):
                    ls = "".join(l for i, l in enumerate(letters) if (a >> (k * len(letters) + i)) & 1)
                    if ls:
                        given.append("-i " + ls)
                why = "with %s the group is %s although its letter '%s' is %s" % (
                    " ".join(given) or "no -i letters", "shown" if (gm >> a) & 1 else "hidden", letter, "given" if (want[1] >> a) & 1 else "not given")
            rep.add(Finding("R14.7", "group %s does not follow its -i letter" % name,
                            "DisplayFlags::%s() as built by %s: %s" % (name, callee_name(t), why), span_loc(t.get("span"))))
    rep.instances("R14.7", n, floor=5, what="group accessors compared as boolean functions of 18 letter-occurrence atoms")
    rep.sample({"rule": "R14.7", "construction": show(("call", callee_name(t), tuple(expr(du, a) for a in t["args"])))[:200], "occurrences": NOCC})


def _blank_check(facts, rep, rb, hb, hcfg, hflag, harr):
    """R14.8: render (abstractly) a row whose every parameter is KNOWN - all Option fields Some(symbolic value), latitude and
    longitude in each sign class - and a row whose every parameter is UNKNOWN (None / the 0.0,0.0 sentinel): in the first
    no column may come out blank, in the second every optional column must be blank."""
    from ..absint import k3 as K3
    from ..absint.ctx import new_interp, ref_to
    from ..absint.domain import EnumV, FloatV, IntV, LayoutV, RefV, StructV
    from ..absint.interp import Diverge, State
    flags_adt = [n for n in facts.adts if n.endswith("::DisplayFlags")][0]
    plane_adt = [n for n in facts.adts if n.endswith("::Plane")][0]
    optional = {f["name"] for f in facts.adts[plane_adt]["variants"][0]["fields"] if f["ty"]["s"].startswith("std::option::Option<")} | {"lat", "lon"}
    fs = {name: True for name in FLAGS}
    hcols = _header_for(facts, hb, hcfg, hflag, harr, fs)
    flags = StructV(flags_adt, {"bits": IntV.const("u8", 31)})
    base = K3.row_with_hulls(facts, {})
    cases = []
    for la, lo in (((1e-7, 90.0), (1e-7, 180.0)), ((1e-7, 90.0), (-180.0, -1e-7)), ((-90.0, -1e-7), (1e-7, 180.0)), ((-90.0, -1e-7), (-180.0, -1e-7))):
        f = {}
        for k, v in base.fields.items():
            if isinstance(v, EnumV) and v.adt.endswith("Option") and v.may("Some"):
                v = EnumV(v.adt, {"Some": v.variants["Some"]})
            f[k] = v
        f["lat"] = FloatV(la[0], la[1], frozenset([("pre", "lat")]), ("pre", "lat"))
        f["lon"] = FloatV(lo[0], lo[1], frozenset([("pre", "lon")]), ("pre", "lon"))
        cases.append(("known, lat %s lon %s" % ("N" if la[0] > 0 else "S", "E" if lo[0] > 0 else "W"), True, StructV(base.adt, f)))
    f = {}
    for k, v in base.fields.items():
        if isinstance(v, EnumV) and v.adt.endswith("Option"):
            v = EnumV.none()
        f[k] = v
    f["lat"] = FloatV(0.0, 0.0)
    f["lon"] = FloatV(0.0, 0.0)
    cases.append(("unknown", False, StructV(base.adt, f)))
    n = 0
    for label, known, row in cases:
        I = new_interp(facts)
        I.side["layout_mode"] = True
        I.ctx_label = "blank-check %s" % label
        I.infeasible_edges = _fmt_err_edges(facts)
        st = State()
        sink = I.new_cell(st, LayoutV())
        try:
            st, res = I.run_body(st, rb, [ref_to(I, st, row), RefV(sink, (), True), ref_to(I, st, flags)])
        except Diverge:
            continue
        lay = I.cell_get(st, sink)
        if not isinstance(lay, LayoutV):
            continue
        pos = 0
        for name, w in hcols + [("LC", 1)]:
            want = COLUMN_FIELDS.get(name, [])
            width = w if name != "LC" else 2
            span = lay.cells[pos:pos + width]
            pos += width + (1 if name != "LC" else 0)
            if not want or want[0] not in optional:
                continue
            n += 1
            shows = any(src[0] == "field" and src[1] in want for c in span for src in c)
            only_blank = [i for i, c in enumerate(span) if c and all(src in (("blank",), ("lit", " ")) for src in c)]
            may_blank = [i for i, c in enumerate(span) if ("blank",) in c]
            if known:
                # the value is known whatever it is (zero included): no path may print blanks in its place
                ok = shows and not may_blank
                rep.oblige(ok, ("filled", label, name))
                if not ok:
                    rep.add(Finding("R14.8", "column %s blank although the value is known" % name,
                                    "row with every parameter %s: column %s (field `%s`) %s - a known value is not shown"
                                    % (label, name, want[0], "is printed blank" if not shows else "can be printed blank for some values (e.g. 0)"), rb.loc()))
            else:
                ok = not shows
                rep.oblige(ok, ("blank", name))
                if not ok:
                    rep.add(Finding("R14.8", "column %s filled although the value is unknown" % name,
                                    "row with every parameter unknown: column %s shows `%s` instead of blanks" % (name, want[0]), rb.loc()))
    rep.instances("R14.8", n, floor=100, what="(row class, optional column) pairs")
