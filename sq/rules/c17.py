"""C17 — registration country follows the ICAO allocation for all 2^24 addresses.

E4 table auditor.  The MIR of the address->country function is evaluated over an
*interval partition* of [0, 2^24): every branch on a monotone function of the address
(shift, comparison, range pattern) splits the current interval exactly, so the function
is turned into the exact map  interval -> returned code  without evaluating it on any
single address.  That map is compared with an independent transcription of Annex 10.
"""
from ..facts import Broken, callee_name, span_loc
from ..mirq import DefUse, field_stores, adt_aggregates, operand_place, proj_fields
from ..report import Finding
from ..ref.annex10 import REF

LEVEL = "proof"
TOP = (1 << 24) - 1


class Mono:
    """monotone non-decreasing function of the address"""

    def __init__(self, f, desc):
        self.f = f
        self.desc = desc


def _preimage(g, lo, hi, pred_ge):
    """smallest x in [lo,hi+1] with pred_ge(g(x)) true (pred monotone false..true)"""
    a, b = lo, hi + 1
    while a < b:
        m = (a + b) // 2
        if pred_ge(g(m)):
            b = m
        else:
            a = m + 1
    return a


def eval_partition(body, lo0=0, hi0=TOP):
    """-> (leaves [(lo,hi,value)], dead [(desc,value)], nsplits)"""
    leaves = []
    dead = []
    arms = {}  # (bb, value) -> [desc, ever taken?, lo, hi]
    stats = {"switches": 0, "paths": 0}
    work = [(0, lo0, hi0, {1: Mono(lambda x: x, "a")})]
    fuel = 200000
    while work:
        bb, lo, hi, env = work.pop()
        while True:
            fuel -= 1
            if fuel < 0:
                raise Broken("C17 evaluator ran out of fuel (loop in the address->country function?)")
            blk = body.blocks[bb]
            for s in blk["stmts"]:
                if s["k"] != "assign":
                    raise Broken("C17: unsupported statement %r" % s["k"])
                _assign(env, s)
            t = blk["term"]
            k = t["k"]
            if k == "goto":
                bb = t["target"]
                continue
            if k == "assert":
                bb = t["target"]
                continue
            if k == "return":
                leaves.append((lo, hi, env.get(0)))
                stats["paths"] += 1
                break
            if k == "switch":
                stats["switches"] += 1
                d = _operand(env, t["discr"])
                if isinstance(d, int):
                    tgt = t["otherwise"]
                    for v, b in t["targets"]:
                        if int(v) == d:
                            tgt = b
                    bb = tgt
                    continue
                if isinstance(d, Mono):
                    g = d.f
                    covered = []
                    for v, b in sorted(((int(v), b) for v, b in t["targets"])):
                        a = _preimage(g, lo, hi, lambda y, v=v: y >= v)
                        z = _preimage(g, lo, hi, lambda y, v=v: y > v) - 1
                        arm = arms.setdefault((bb, v), [d.desc, False, lo, hi])
                        arm[2] = min(arm[2], lo)
                        arm[3] = max(arm[3], hi)
                        if a <= z:
                            work.append((b, a, z, dict(env)))
                            covered.append((a, z))
                            arm[1] = True
                    # otherwise: the complement inside [lo,hi]
                    cur = lo
                    for a, z in sorted(covered):
                        if cur <= a - 1:
                            work.append((t["otherwise"], cur, a - 1, dict(env)))
                        cur = z + 1
                    if cur <= hi:
                        work.append((t["otherwise"], cur, hi, dict(env)))
                    break
                if isinstance(d, tuple) and d[0] == "cmp":
                    # boolean of a monotone comparison: true-set is a prefix or suffix interval
                    _, g, op, c = d
                    if op in ("Lt", "Le"):
                        cut = _preimage(g.f, lo, hi, (lambda y: y >= c) if op == "Lt" else (lambda y: y > c))
                        true_iv, false_iv = (lo, cut - 1), (cut, hi)
                    elif op in ("Ge", "Gt"):
                        cut = _preimage(g.f, lo, hi, (lambda y: y >= c) if op == "Ge" else (lambda y: y > c))
                        true_iv, false_iv = (cut, hi), (lo, cut - 1)
                    else:
                        raise Broken("C17: unsupported comparison %s in a branch" % op)
                    tgt_true = t["otherwise"]
                    tgt_false = t["otherwise"]
                    for v, b in t["targets"]:
                        if int(v) == 0:
                            tgt_false = b
                        elif int(v) == 1:
                            tgt_true = b
                    if true_iv[0] <= true_iv[1]:
                        work.append((tgt_true, true_iv[0], true_iv[1], dict(env)))
                    if false_iv[0] <= false_iv[1]:
                        work.append((tgt_false, false_iv[0], false_iv[1], dict(env)))
                    break
                raise Broken("C17: branch on a value the evaluator cannot partition: %r" % (d,))
            raise Broken("C17: the address->country function has a %s terminator (%s); shape not recognised"
                         % (k, (t.get("callee") or {}).get("path")))
    for (bb, v), (desc, taken, lo, hi) in sorted(arms.items()):
        if not taken:
            dead.append((desc, v, lo, hi))
    stats["arms"] = len(arms)
    return leaves, dead, stats


def _operand(env, op):
    if "const" in op:
        c = op["const"]
        if "int" in c:
            return int(c["int"])
        if "str" in c:
            return ("str", c["str"])
        raise Broken("C17: unsupported constant %r" % c)
    pl = operand_place(op)
    return _read(env, pl)


def _read(env, pl):
    v = env.get(pl["local"])
    for p in pl["proj"]:
        if p["k"] == "field":
            if not (isinstance(v, tuple) and v[0] == "tuple"):
                raise Broken("C17: field of non-tuple")
            v = v[1][p["i"]]
        elif p["k"] == "deref":
            pass
        else:
            raise Broken("C17: unsupported projection %s" % p["k"])
    return v


def _assign(env, s):
    pl = s["place"]
    rv = s["rv"]
    k = rv["k"]
    if k == "use":
        v = _operand(env, rv["x"])
    elif k == "cast":
        v = _operand(env, rv["x"])
        if not isinstance(v, (int, Mono)):
            raise Broken("C17: cast of non-integer")
    elif k == "bin":
        l = _operand(env, rv["l"])
        r = _operand(env, rv["r"])
        op = rv["op"]
        if isinstance(l, int) and isinstance(r, int):
            v = _const_bin(op, l, r)
        elif isinstance(l, Mono) and isinstance(r, int):
            if op == "Shr":
                v = Mono(lambda x, f=l.f, r=r: f(x) >> r, "%s>>%d" % (l.desc, r))
            elif op == "Div" and r > 0:
                v = Mono(lambda x, f=l.f, r=r: f(x) // r, "%s/%d" % (l.desc, r))
            elif op in ("Lt", "Le", "Gt", "Ge"):
                v = ("cmp", l, op, r)
            else:
                raise Broken("C17: unsupported operation %s on the address" % op)
        elif isinstance(l, int) and isinstance(r, Mono) and op in ("Lt", "Le", "Gt", "Ge"):
            flip = {"Lt": "Gt", "Le": "Ge", "Gt": "Lt", "Ge": "Le"}[op]
            v = ("cmp", r, flip, l)
        else:
            raise Broken("C17: unsupported binary operation %s" % op)
    elif k == "agg" and rv["agg"] == "tuple":
        v = ("tuple", [_operand(env, o) for o in rv["ops"]])
    elif k == "ref":
        v = _read(env, rv["place"])
    elif k == "copy_for_deref":
        v = _read(env, rv["place"])
    else:
        raise Broken("C17: unsupported rvalue %s" % k)
    if pl["proj"]:
        if len(pl["proj"]) == 1 and pl["proj"][0]["k"] == "field":
            cur = env.get(pl["local"])
            if not (isinstance(cur, tuple) and cur[0] == "tuple"):
                cur = ("tuple", [None, None])
            items = list(cur[1])
            while len(items) <= pl["proj"][0]["i"]:
                items.append(None)
            items[pl["proj"][0]["i"]] = v
            env[pl["local"]] = ("tuple", items)
            return
        raise Broken("C17: store through projection")
    env[pl["local"]] = v


def _const_bin(op, l, r):
    if op == "Lt":
        return int(l < r)
    if op == "Le":
        return int(l <= r)
    if op == "Gt":
        return int(l > r)
    if op == "Ge":
        return int(l >= r)
    if op == "Eq":
        return int(l == r)
    if op == "Ne":
        return int(l != r)
    if op == "Shr":
        return l >> r
    if op == "Shl":
        return l << r
    if op == "BitAnd":
        return l & r
    if op == "BitOr":
        return l | r
    raise Broken("C17: unsupported constant operation %s" % op)


def expected_partition():
    out = []
    cur = 0
    for lo, hi, code in sorted(REF):
        if cur < lo:
            out.append((cur, lo - 1, "??"))
        out.append((lo, hi, code))
        cur = hi + 1
    if cur <= TOP:
        out.append((cur, TOP, "??"))
    return out


def code_of(v):
    if isinstance(v, tuple) and v[0] == "tuple" and len(v[1]) == 2:
        c = v[1][1]
        if isinstance(c, tuple) and c[0] == "str":
            return c[1]
    return None


def _shown_whole(facts, rep):
    """R17.5: 'an address inside a block shows that block's code' - the codes are 2 to 5 characters long (ICAO1, ICAO2), so a
    precision on the placeholder, or a formatting trait other than Display, shows something that is no block's code"""
    from ..mirq import expr
    n = 0
    for b in sorted(facts.bodies.values(), key=lambda x: x.name):
        if "::tests::" in b.name or b.kind == "promoted":
            continue
        du = None
        per_site = {}
        for bi, t in b.calls():
            nm = callee_name(t) or ""
            if nm.startswith("core::fmt::rt::Argument::"):
                cs = (t.get("span") or {}).get("callsite") or t.get("span") or {}
                per_site.setdefault((cs.get("file"), cs.get("line"), cs.get("col")), []).append((bi, t))
        for key, calls in per_site.items():
            calls.sort(key=lambda x: x[0])
            for idx, (bi, t) in enumerate(calls):
                du = du or DefUse(b)
                e = expr(du, t["args"][0])
                if not (isinstance(e, tuple) and e[0] == "arg" and len(e) > 2 and e[2] and tuple(e[2])[-1] == "reg"):
                    continue
                pl = operand_place(t["args"][0])
                site = None
                for s_ in facts.fmt_sites:
                    cs = s_["span"].get("callsite") or s_["span"]
                    if (cs["file"], cs["line"], cs["col"]) == key:
                        site = s_
                if site is None:
                    raise Broken("C17: the write! that prints Plane.reg in %s has no template fact" % b.name)
                for p in site["pieces"]:
                    if p.get("arg") != idx:
                        continue
                    n += 1
                    why = []
                    if p.get("prec") is not None:
                        why.append("precision .%s cuts the code to %s characters (ICAO1/ICAO2 become IC...)" % (p["prec"], p["prec"]))
                    if p.get("trait") != "Display":
                        why.append("formatted with %s instead of Display" % p.get("trait"))
                    rep.oblige(not why, ("reg-shown", b.name, key[1]))
                    if why:
                        rep.add(Finding("R17.5", "%s : country code not shown whole" % b.name,
                                        "%s prints Plane.reg with %s: what is shown is not the block's code" % (b.name, "; ".join(why)),
                                        "%s:%s" % (key[0], key[1])))
    rep.instances("R17.5", n, floor=2, what="placeholders that print Plane.reg (table row, Display for Plane)")


def run(facts, rep, tier):
    rep.explanation = (
        "R17.1: the MIR of the address->country function is evaluated over an interval partition of [0,2^24) "
        "(branches on monotone functions of the address split intervals exactly), giving the exact map "
        "interval->code, which is compared block by block with an independent transcription of ICAO Annex 10 "
        "Vol III table 9-1 (189 blocks); R17.2 no dead arm / shadowed prefix; R17.3 Plane.reg is stored only "
        "from that function applied to the value stored to Plane.icao, and the function is pure."
    )
    rep.trusted = ["rustc MIR construction", "reference transcription sq/ref/annex10.py (189 blocks)"]
    rep.rule("R17.1", "interval map of icao_to_country == Annex 10 reference on all 2^24 addresses", "P")
    rep.rule("R17.2", "no dead match arm (prefix shadowed by a shorter one)", "P")
    rep.rule("R17.4", "every constructor that stores an address into a new row also stores its country, on every path", "P")
    rep.rule("R17.3", "Plane.reg is stored only from icao_to_country(value stored to Plane.icao).1; function is pure", "P")

    rep.rule("R17.5", "the code is shown as stored: every place that prints Plane.reg prints it whole (Display, no precision)", "P")
    _shown_whole(facts, rep)
    # anchor: the function Plane.reg is computed by
    stores = field_stores(facts, "Plane", "reg")
    fn_names = set()
    n_ok = 0
    for st in stores:
        n_ok += 1
        b = st["body"]
        du = DefUse(b)
        if st["via"] == "calldest":
            root = ("call", st["term"], [p for p in st["term"]["dest"]["proj"]])
        else:
            rv = st["stmt"]["rv"]
            if rv["k"] != "use":
                rep.add(Finding("R17.3", "%s : reg store not a plain copy" % b.name,
                                "Plane.reg stored from a computed value", span_loc(st["stmt"].get("span"))))
                continue
            root = du.root(rv["x"])
        if root[0] != "call":
            rep.add(Finding("R17.3", "%s : reg store root %s" % (b.name, root[0]),
                            "Plane.reg is stored from something other than the country function's result",
                            span_loc((st.get("stmt") or st.get("term")).get("span"))))
            continue
        term = root[1]
        callee = term["callee"].get("instance") or term["callee"].get("path")
        fields = proj_fields(root[2]) if st["via"] != "calldest" else []
        fn_names.add(callee)
        # which component: second (.1)
        if st["via"] != "calldest" and fields[:1] != [1]:
            rep.add(Finding("R17.3", "%s : reg from component %s" % (b.name, fields),
                            "Plane.reg must be the short code (component 1) of the country function",
                            span_loc(st["stmt"].get("span"))))
            continue
        # argument = value stored to Plane.icao in the same body
        arg_root = du.root(term["args"][0])
        icao_st = [s for s in field_stores(facts, "Plane", "icao", [b]) if s["via"] == "assign"]
        same = False
        for s in icao_st:
            r2 = du.root(s["stmt"]["rv"]["x"]) if s["stmt"]["rv"]["k"] == "use" else None
            if r2 and r2[0] == arg_root[0] == "arg" and r2[1] == arg_root[1] and not r2[2] and not arg_root[2]:
                same = True
        if not same:
            rep.add(Finding("R17.3", "%s : country of a value other than the stored address" % b.name,
                            "the country function is applied to a value that is not the one stored to Plane.icao",
                            span_loc(term.get("span"))))
            continue
        rep.oblige(True, ("reg-store", b.name))
        rep.sample({"rule": "R17.3", "store_in": b.name, "from": callee, "component": 1, "arg": "fn arg %d (also stored to Plane.icao)" % arg_root[1]})
    # the `new` aggregate must put a constant there
    for ag in adt_aggregates(facts, "Plane"):
        rv = ag["stmt"]["rv"]
        idx = rv["fields"].index("reg")
        op = rv["ops"][idx]
        du = DefUse(ag["body"])
        r = du.root(op)
        ok = r[0] == "const"
        rep.oblige(ok, ("reg-agg", ag["body"].name))
        if not ok:
            rep.add(Finding("R17.3", "%s : aggregate reg not constant" % ag["body"].name,
                            "Plane aggregate initialises reg from a non-constant", span_loc(ag["stmt"].get("span"))))
        n_ok += 1
    rep.instances("R17.3", n_ok, floor=2, what="Plane.reg stores (2 constructors + new aggregate)")
    _must_set_country(facts, rep, stores)
    if len(fn_names) != 1:
        raise Broken("C17 anchor: Plane.reg is fed by %d distinct functions: %s" % (len(fn_names), sorted(fn_names)))
    fn = fn_names.pop()
    if fn not in facts.bodies:
        raise Broken("C17 anchor: %s has no MIR in the crate" % fn)
    body = facts.bodies[fn]
    ncalls = len(list(body.calls()))
    if ncalls:
        # calls are fine when everything reachable is effect-free crate code or reviewed std (decided by the E2 evaluation below)
        from ..effects import Effects
        effs = Effects(facts).of(fn)
        rep.oblige(not effs, ("pure", fn))
        if effs:
            rep.add(Finding("R17.3", "%s : calls" % fn, "the address->country function has side effects %s" % sorted(map(str, effs))[:3], body.loc()))

    try:
        leaves, dead, stats = eval_partition(body)
    except Broken as e:
        # not a plain decision tree (helper functions, table lookups): evaluate it abstractly (E2) interval by interval
        alt = _eval_by_e2(facts, fn)
        if alt is not None:
            leaves2, notes = alt
            _compare(rep, fn, body, leaves2, "abstract interpretation over %d address intervals" % len(leaves2))
            rep.instances("R17.2", 1, floor=0)
            rep.extra["evaluator"] = "E2 interval evaluation (the function is not a plain decision tree: %s)" % e
            return
        # the lookup is no longer a pure function of the address that can be followed (memo, thread-local state ...):
        # "determined solely by its 24-bit address" cannot be established
        rep.oblige(False, ("pure-tree", fn))
        rep.add(Finding("R17.1", "%s : country lookup is not a pure function of the address" % fn,
                        "the function that computes Plane.reg cannot be evaluated as a decision tree over the address (%s): "
                        "the displayed country may depend on more than the address" % e, body.loc()))
        rep.instances("R17.1", 1, floor=0)
        rep.instances("R17.2", 1, floor=0)
        return
    _compare(rep, fn, body, leaves, "decision-tree evaluation")
    nblocks = len([l for l in leaves if code_of(l[2]) != "??"])
    rep.extra["exhaustive"] = True
    rep.extra["addresses_covered"] = TOP + 1
    rep.extra["partition_leaves"] = len(leaves)
    rep.extra["allocated_leaves"] = nblocks
    rep.extra["switches_evaluated"] = stats["switches"]
    rep.sample({"rule": "R17.1", "leaf": ["%06X" % leaves[5][0], "%06X" % leaves[5][1], code_of(leaves[5][2])]})
    rep.sample({"rule": "R17.1", "leaf": ["%06X" % leaves[-2][0], "%06X" % leaves[-2][1], code_of(leaves[-2][2])]})
    for desc, v, lo, hi in dead:
        rep.add(Finding("R17.2", "%s : dead arm %s==%d" % (fn, desc, v),
                        "match arm %s == %#x can never be taken (addresses %06X..%06X reach this match)" % (desc, v, lo, hi),
                        body.loc()))
    rep.instances("R17.2", stats["arms"], floor=150, what="match arms (value, level) checked for reachability")
    for _ in range(stats["arms"] - len(dead)):
        rep.oblige(True)
    for _ in dead:
        rep.oblige(False)
    rep.assumptions += [
        "the reference block list is a faithful transcription of ICAO Annex 10 Vol III table 9-1",
        "addresses are 24-bit (0..2^24-1): both address sources are 24-bit fields",
    ]


def _must_set_country(facts, rep, reg_stores):
    """R17.4: a function that builds a row (returns Plane) and stores Plane.icao from its parameter must store Plane.reg on
    every path to its return - directly or through a callee that itself always does.  (A row whose address is set but whose
    country depends on the first frame's format, an option or a row state shows neither the block's code nor `??`.)"""
    from ..cfg import CFG
    direct = {}
    for st in reg_stores:
        b = st["body"]
        bb = st.get("bb")
        if bb is None:
            # locate the block of the statement / terminator
            node = st.get("stmt") or st.get("term")
            for bi, blk in enumerate(b.blocks):
                if node is blk["term"] or any(node is x for x in blk["stmts"]):
                    bb = bi
        if bb is not None:
            direct.setdefault(b.name, set()).add(bb)
    memo = {}

    def must(name, depth=0):
        if name in memo:
            return memo[name]
        memo[name] = False
        b = facts.bodies.get(name)
        if b is None or depth > 4:
            return False
        cfg = CFG(b)
        rets = [bi for bi in cfg.reach if b.blocks[bi]["term"]["k"] == "return"]
        cand = set(direct.get(name, ()))
        for bi, t in b.calls():
            cn = callee_name(t)
            if cn in facts.bodies and cn != name and must(cn, depth + 1):
                cand.add(bi)
        ok = bool(rets) and any(all(cfg.dominates(c, r) for r in rets) for c in cand)
        memo[name] = ok
        return ok
    n = 0
    for st in field_stores(facts, "Plane", "icao"):
        b = st["body"]
        if "::tests::" in b.name or not b.locals[0]["ty"]["s"].endswith("Plane"):
            continue          # not a constructor (the row already exists and has its country)
        n += 1
        ok = must(b.name)
        rep.oblige(ok, ("country-with-address", b.name))
        if not ok:
            rep.add(Finding("R17.4", "%s : address stored without its country on some path" % b.name,
                            "%s builds a row and stores Plane.icao, but Plane.reg is not stored on every path to its return: the country "
                            "shown then depends on more than the address (first frame's format, an option, row state)" % b.name, b.loc()))
    rep.instances("R17.4", n, floor=1, what="row constructors storing an address")


def _compare(rep, fn, body, leaves, how):
    leaves.sort()
    # coverage sanity: leaves tile [0,2^24)
    cur = 0
    for lo, hi, _ in leaves:
        if lo != cur:
            raise Broken("C17 evaluator: partition is not a tiling at %06X" % cur)
        cur = hi + 1
    if cur != TOP + 1:
        raise Broken("C17 evaluator: partition does not reach 2^24")
    exp = expected_partition()
    # sweep compare
    i = j = 0
    mism = {}
    segs = 0
    while i < len(leaves) and j < len(exp):
        lo = max(leaves[i][0], exp[j][0])
        hi = min(leaves[i][1], exp[j][1])
        if lo <= hi:
            segs += 1
            got = code_of(leaves[i][2])
            want = exp[j][2]
            ok = got == want
            rep.oblige(ok, ("seg", lo, hi))
            if not ok:
                key = (want, got, exp[j][0], exp[j][1])
                if key not in mism:
                    mism[key] = (lo, hi)
                else:
                    mism[key] = (mism[key][0], hi)
        if leaves[i][1] < exp[j][1]:
            i += 1
        else:
            j += 1
    for (want, got, blo, bhi), (lo, hi) in sorted(mism.items()):
        rep.add(Finding(
            "R17.1", "%s : block %06X-%06X expected %s got %s" % (fn, blo, bhi, want, got),
            "addresses %06X..%06X are shown as %r but the Annex 10 allocation says %r" % (lo, hi, got, want),
            body.loc(), {"first_bad": "%06X" % lo, "last_bad": "%06X" % hi}))
    rep.instances("R17.1", segs, floor=300, what="overlap segments of computed partition x reference partition (%s)" % how)
    return segs


def _eval_by_e2(facts, fn):
    """-> ([(lo, hi, ('tuple', [.., ('str', code)]))] tiling [0, 2^24), notes) or None if E2 cannot follow the function.
    Every reference block (and gap) is evaluated as ONE interval; an interval on which the result is not a single string is
    bisected (the implementation's own block boundaries need not be the reference's)."""
    from ..absint import k3 as K3
    from ..absint.domain import IntV, StrV, TupleV, fresh_sid
    leaves = []
    budget = [6000]

    def ev(lo, hi):
        budget[0] -= 1
        if budget[0] < 0:
            raise Broken("C17: E2 interval evaluation does not converge")
        I, v, st = K3.run_fn(facts, fn, lambda I, st: [IntV("u32", None, lo, hi, None, frozenset([("addr",)]), fresh_sid())], "C17 %06X-%06X" % (lo, hi))
        if [w for w in I.warnings if w[0] == "unmodelled"]:
            return "unmodelled"
        code = None
        if isinstance(v, TupleV) and len(v.items) == 2 and isinstance(v.items[1], StrV) and v.items[1].skind == "lit":
            code = v.items[1].text
        return code

    def go(lo, hi):
        c = ev(lo, hi)
        if c == "unmodelled":
            raise Broken("unreviewed call")
        if c is not None:
            leaves.append((lo, hi, ("tuple", [None, ("str", c)])))
            return
        if lo == hi:
            raise Broken("C17: result at %06X is not a literal" % lo)
        mid = (lo + hi) // 2
        go(lo, mid)
        go(mid + 1, hi)
    try:
        for lo, hi, _ in expected_partition():
            go(lo, hi)
    except Broken:
        return None
    except RecursionError:
        return None
    return leaves, []
