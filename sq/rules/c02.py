"""C02 — a line is a frame iff its hex digits form a 56/112-bit frame of matching DF.

R02.1 [proof] decoration invariance: the line reaches the decoder only (i) through a chain of decoding/trimming str->str
      functions and then (ii) `chars().filter_map(to_digit(16))`; E2 abstracts the line by its digit sequence with arbitrary
      non-hex characters interleaved, so whatever it computes is independent of the decoration; any other use of the
      line (len, slicing, comparison ...) has no model and is reported;
R02.2 [proof, exhaustive over digit counts 0..64] the gate returns a frame exactly for 14/28 digits (identity) and 26/40
      digits (last 14/28), and nothing for every other count;
R02.3 [proof, all 32 DF x both lengths] a frame whose length disagrees with its DF is rejected; one that agrees is accepted
      (subject to parity for DF11/17/18);
R02.4 [proof] every table/counter effect of the per-line loop is dominated by the Some-edges of the three gates.
"""
from ..absint.batch import k2_results
from ..absint.domain import BoolV, EnumV, IntV, VecV
from ..absint.query import sel
from ..effects import Effects
from ..facts import Broken, callee_name
from ..lineexpr import walk
from ..mirq import expr, show
from ..region import GateBypassed, Region
from ..report import Finding

LEVEL = "other"
DECORATION_ONLY = {"deref", "from_utf8_lossy", "trim", "trim_end", "trim_start", "trim_end_matches", "trim_start_matches", "trim_matches",
                   "as_str", "as_ref", "borrow", "to_uppercase", "to_lowercase", "to_ascii_uppercase", "to_ascii_lowercase", "as_bytes",
                   "next", "into_iter", "map_while", "split", "lines", "unwrap_or_default", "to_string", "into_owned", "clone"}
# not in the list on purpose: `str::from_utf8` / `String::from_utf8` are partial - a line with one byte that is not UTF-8 has no
# image at all, although its hex digits may form a frame (the lossy conversion keeps every digit)


def _char_loops(facts, rep):
    from ..cfg import CFG, call_graph, reachable_bodies
    from ..linebuf import _mut_base
    from ..mirq import DefUse, operand_place
    gm = facts.one("get_message")
    reach = reachable_bodies(facts, [gm.name], call_graph(facts))
    n = 0
    for name in sorted(reach):
        b = facts.bodies[name]
        cfg = CFG(b)
        loops = cfg.loops()
        if not loops:
            continue
        du = DefUse(b)
        for h, blks in loops.items():
            blks = set(blks)
            nexts = []
            for bi in blks:
                t = b.blocks[bi]["term"]
                if t["k"] == "call" and t["callee"].get("name") == "next" and t["args"]:
                    e = expr(du, t["args"][0])
                    if any(x[0] == "call" and x[1].split("::")[-1] in ("chars", "bytes", "char_indices") for x in walk(e)):
                        nexts.append(bi)
            if not nexts:
                continue
            n += 1
            # blocks that run only for a character that passed the hex-digit test
            digit_only = set()
            for bi in blks:
                t = b.blocks[bi]["term"]
                if t["k"] != "switch":
                    continue
                de = expr(du, t["discr"])
                tgt = None
                inner = de[1] if de[0] == "discr" else de
                while inner[0] == "path":
                    inner = inner[1]
                if inner[0] == "call" and inner[1].split("::")[-1] in ("to_digit", "is_ascii_hexdigit", "is_digit"):
                    if inner[1].split("::")[-1] in ("to_digit", "is_digit") and not (len(inner[2]) == 2 and inner[2][1] == ("const", 16)):
                        continue
                    good = 1
                    for v, bb2 in t["targets"]:
                        if int(v) == good:
                            tgt = bb2
                    if tgt is None and [int(v) for v, _ in t["targets"]] == [0]:
                        tgt = t["otherwise"]
                if tgt is not None:
                    digit_only |= {x for x in blks if cfg.dominates(tgt, x)}
            bad = []
            for bi in sorted(blks - digit_only):
                blk = b.blocks[bi]
                for s_ in blk["stmts"]:
                    if s_["k"] == "assign":
                        l = s_["place"]["local"]
                        ds = du.whole_defs(l)
                        if l != 0 and ds and any(d[1] not in blks for d in ds) and s_["rv"]["k"] != "ref":
                            bad.append((bi, "assignment to `%s`" % (b.locals[l].get("name") or "_%d" % l)))
                t = blk["term"]
                if t["k"] == "call" and bi not in nexts:
                    for a in t["args"]:
                        pl = operand_place(a)
                        if pl is None:
                            continue
                        ds = du.whole_defs(pl["local"])
                        if len(ds) == 1 and ds[0][0] == "stmt" and ds[0][3]["rv"]["k"] == "ref" and ds[0][3]["rv"].get("mut"):
                            base = _mut_base(du, a)
                            bds = du.whole_defs(base) if base is not None else []
                            if base is not None and bds and all(d[1] not in blks for d in bds) and t["callee"].get("name") != "next":
                                bad.append((bi, "%s(&mut %s)" % (t["callee"].get("name"), b.locals[base].get("name") or "_%d" % base)))
            rep.oblige(not bad, ("char-loop", name, h))
            for bi, what in bad[:2]:
                rep.add(Finding("R02.1", "%s : %s for characters that are not hex digits" % (name, what),
                                "a loop over the line's characters performs %s outside the branch taken for hex digits: the result depends on "
                                "how many other characters the line contains" % what, "%s" % b.loc()))
    return n


def run(facts, rep, tier):
    try:
        return _run(facts, rep, tier)
    except GateBypassed as e:
        _bypassed(facts, rep, e)


def _bypassed(facts, rep, e):
    """the reader thread never calls the analysed gate: what the proofs about get_message establish does not apply to it"""
    from ..cfg import call_graph, reachable_bodies
    roots = [b.name for b in facts.bodies.values() if b.kind == 'closure' and b.parent and b.parent.endswith('spawn_reader_thread')]
    reach = reachable_bodies(facts, roots, call_graph(facts)) if roots else set()
    parts = sorted(n.split('::')[-1] for n in reach if n.split('::')[-1] in ('clean_squitter', 'parity_ok', 'length_matches_format', 'get_frame', 'get_crc'))
    rep.rule('R02.4', 'effects dominated by the accept gates', 'P')
    rep.oblige(False, ('gate-bypassed',))
    rep.add(Finding('R02.4', 'the reader does not accept lines through get_message', 'a line is taken as a frame by code other than get_message: the reader thread calls %s itself; the accept decision proven for get_message (digits, length, DF/length agreement, parity) is not the one that guards the table' % (parts or 'no part of the gate'), None))
    rep.instances('R02.4', 1, floor=1)


def _run(facts, rep, tier):
    rep.explanation = (
        "E2 abstract interpretation of the public gate get_message on an abstract line = (sequence of symbolic hex digits, "
        "arbitrary non-hex decoration): for every digit count 0..64 and every DF x length combination the abstract result "
        "(None / Some(vector)) is read off, and the returned vector is compared nibble by nibble with the expected digits. "
        "Structural rules check how the line reaches the gate and that effects are dominated by the gates."
    )
    rep.trusted = ["rustc MIR", "E2 model of str::chars / char::to_digit on the abstract line", "std semantics of the decoration-only str functions (table in the rule)"]
    rep.rule("R02.1", "the line is used only through its hex-digit projection", "P")
    rep.rule("R02.2", "accepted digit counts are exactly 14, 28, 26, 40", "P")
    rep.rule("R02.3", "DF/length agreement", "P")
    rep.rule("R02.4", "effects dominated by the three accept gates", "P")
    out = k2_results(facts, tier)
    results = out["results"]
    # ---- R02.2
    n2 = 0
    for r in sel(results, "K1", "badlen"):
        n2 += 1
        g = r.gate
        ok = isinstance(g, EnumV) and g.only("None")
        rep.oblige(ok, ("len", r.ctx["digits"]))
        if not ok:
            rep.add(Finding("R02.2", "a line with %d hex digits is taken as a frame" % r.ctx["digits"],
                            "get_message on a line with %d hex digits returns %r (must be None)" % (r.ctx["digits"], g), None))
        for w in getattr(r, "warnings", []):
            if w[0] in ("line-use",):
                rep.add(Finding("R02.1", "line used via %s" % w[1], "the input line is used through %s, which is not a digit projection" % w[1], None))
    good = [r for r in results if r.ctx.get("via_line") and r.ctx.get("digits", r.ctx["L"]) in (14, 28, 26, 40) and "mismatch" not in r.ctx["tags"]]
    for r in good:
        n2 += 1
        L = r.ctx["L"]
        g = r.gate
        df = None
        for t in r.ctx["tags"]:
            if t.startswith("df"):
                df = int(t[2:])
        ok = isinstance(g, EnumV) and g.may("Some")
        why = "never accepted / not determined: %r" % (g,)
        if ok and df not in (11, 17, 18) and not g.only("Some"):
            ok, why = False, "may be rejected although DF%s has no checkable parity: %r" % (df, g)
        if ok:
            v = g.payload("Some")
            if not (isinstance(v, VecV) and v.elems is not None and len(v.elems) == L):
                ok, why = False, "returned vector is %r, expected the %d frame digits" % (v, L)
            else:
                for i, e in enumerate(v.elems):
                    want = []
                    for k in range(4):
                        n = 4 * i + 4 - k
                        want.append(r.ctx["fixed"].get(n, ("b", n)))
                    if not (isinstance(e, IntV) and e.bits is not None and list(e.bits[:4]) == want and all(b == 0 for b in e.bits[4:])):
                        ok, why = False, "digit %d of the returned frame is %r, expected frame digit %d" % (i, e, i)
                        break
        rep.oblige(ok, ("accept", r.ctx["label"]))
        if not ok:
            rep.add(Finding("R02.2", "%d-digit line (DF%s): %s" % (r.ctx.get("digits", L), df, why.split(":")[0]),
                            "context '%s': %s" % (r.ctx["label"], why), None))
        for w in r.warnings:
            if w[0] in ("line-use",):
                rep.add(Finding("R02.1", "line used via %s" % w[1], "the input line is used through %s, which is not a digit projection" % w[1], None))
    rep.instances("R02.2", n2, floor=100, what="digit counts 0..64 + accepted forms")
    rep.sample({"rule": "R02.2", "rejected_counts": [r.ctx["digits"] for r in sel(results, "K1", "badlen")][:10], "accepted": [14, 28, 26, 40]})
    # ---- R02.3
    n3 = 0
    for r in sel(results, "K1", "mismatch"):
        n3 += 1
        g = r.gate
        ok = isinstance(g, EnumV) and g.only("None")
        rep.oblige(ok, ("mismatch", r.ctx["label"]))
        if not ok:
            rep.add(Finding("R02.3", "DF/length disagreement accepted: %s" % r.ctx["label"].replace("K1 ", ""),
                            "context '%s': a %d-bit frame announcing this DF is taken as a frame (%r)" % (r.ctx["label"], r.ctx["L"] * 4, g), None))
    rep.instances("R02.3", n3, floor=32, what="DF x wrong-length combinations")
    # ---- R02.1 structural part: how the line reaches get_message
    eff = Effects(facts)
    reg = Region(facts, eff)
    gm = [(bi, t) for bi, t in reg.proc.calls() if (callee_name(t) or "").endswith("get_message") and bi in reg.blocks]
    e = expr(reg.du, gm[0][1]["args"][0])
    chain = [x[1].split("::")[-1] for x in walk(e) if x[0] == "call"]
    HEX = set(b"0123456789abcdefABCDEF")

    def non_hex_pattern(pe):
        """a constant pattern (byte / char / str / array of them) that contains no hex digit"""
        consts = [x for x in walk(pe) if x[0] == "const"]
        if not consts or any(x[0] in ("arg", "capture", "multi") for x in walk(pe)):
            return False
        for c in consts:
            v = c[1]
            if isinstance(v, bool) or not isinstance(v, (int, str)):
                return False
            if isinstance(v, int) and v in HEX:
                return False
            if isinstance(v, str) and any(ord(ch) in HEX for ch in v):
                return False
        return True

    bad = []

    def check(x):
        if not isinstance(x, tuple) or not x:
            return
        if x[0] == "call":
            nm = x[1].split("::")[-1]
            if nm in ("strip_suffix", "strip_prefix") and len(x[2]) == 2:
                if not non_hex_pattern(x[2][1]):
                    bad.append(nm)          # stripping something that may contain digits changes the digit projection
                check(x[2][0])
                return
            if nm in ("new", "with_capacity"):
                return                      # the constructor of a read buffer: its content comes from the reader
            if nm not in DECORATION_ONLY and nm not in ("unwrap_or", "unwrap", "expect", "unwrap_or_else"):
                bad.append(nm)
            for a in x[2]:
                check(a)
            return
        for y in x[1:]:
            if isinstance(y, tuple):
                check(y)
    check(e)
    rep.oblige(not bad, ("line-chain",))
    rep.sample({"rule": "R02.1", "line_reaches_gate_through": chain})
    if bad:
        rep.add(Finding("R02.1", "line transformed by %s before the gate" % "+".join(bad),
                        "the line passes through %s before get_message: the result may depend on more than its hex digits" % bad, reg.loc(gm[0][0])))
    # a reused read buffer is part of that way: between the read and the gate its content may only lose a terminator that
    # is known to be there (an unconditional pop / truncate eats a digit of an unterminated last line)
    try:
        from ..linebuf import READERS, _mut_base, analyse as _lb
        from ..mirq import controlling_decisions
        from .c13 import PURE_IO
        _ex, _bufs, _pr = _lb(reg, reg.du, PURE_IO)
        EDITS = {"pop", "truncate", "remove", "swap_remove", "drain", "retain", "push", "insert", "extend", "extend_from_slice", "resize",
                 "split_off", "dedup", "set_len", "append", "rotate_left", "rotate_right", "reverse", "sort", "fill"}
        for bi in sorted(reg.blocks):
            t = reg.proc.blocks[bi]["term"]
            if t["k"] != "call" or not t["args"]:
                continue
            nm = t["callee"].get("name")
            if nm not in EDITS:
                continue
            base = _mut_base(reg.du, t["args"][0])
            if base not in _bufs:
                continue
            guarded = False
            if nm in ("pop", "truncate"):
                # `if buf.last() == Some(&b'\n') { buf.pop(); }` / `if buf.ends_with(b"\n") { .. }`
                for sbb, vals, live in controlling_decisions(reg.proc, reg.cfg, bi):
                    de = expr(reg.du, reg.proc.blocks[sbb]["term"]["discr"])
                    if any(x[0] == "call" and x[1].split("::")[-1] in ("last", "ends_with", "strip_suffix") for x in walk(de)):
                        guarded = True
            rep.oblige(guarded, ("buffer-edit", bi))
            if not guarded:
                rep.add(Finding("R02.1", "line buffer edited by %s before the gate" % nm,
                                "the read buffer is changed by `%s` between the read and get_message%s: what is judged is not the line's "
                                "own digit sequence (an unterminated last line loses a character)" % (
                                    nm, "" if nm not in ("pop", "truncate") else " without a test that the terminator is there"), reg.loc(bi)))
    except Broken:
        pass
    # explicit loops over the line's characters (`for c in line.chars() { .. }`): E2 takes the decoration between two digits as
    # ONE non-hex character; that zero or many of them give the same result holds iff the loop body leaves every loop-carried
    # variable alone unless the character passed a hex-digit test
    _char_loops(facts, rep)
    # the gate's own use of the line: chars -> filter_map(to_digit 16) (E2 verified by the exact vector comparison above)
    rep.instances("R02.1", 1 + len(chain), floor=2)
    # ---- R02.4
    gates = reg.gates()
    n4 = 0
    for bi, t, e2 in reg.effect_sites():
        st = reg.state_effects(e2)
        if not st:
            continue
        for g in gates:
            n4 += 1
            ok = reg.dominated_by_gate(bi, gates[g])
            rep.oblige(ok, ("gate", callee_name(t), g))
            if not ok:
                rep.add(Finding("R02.4", "%s not dominated by gate %s" % (callee_name(t), g),
                                "%s can run for a line that %s does not accept" % (callee_name(t), g), reg.loc(bi)))
    rep.instances("R02.4", n4, floor=9)
    rep.extra["exhaustive"] = True
    rep.assumptions += ["the parity clause is C04's"]
