"""C18 — TCP feed interruptions never stop decoding or lose the table.

R18.1 the TCP function (found by role: the body calling TcpStream::connect) has no Return
      reachable without unwinding and reaches no process::exit/abort;
R18.2 every path from the connect-Err edge back to the connect call passes
      thread::sleep(Duration::from_secs(c)), 3 <= c <= 8;
R18.3 the `&mut Planes` handed to the line reader is the function's own parameter in every
      iteration; Planes::new has exactly one call site, in `main`;
R18.4 the line reader's exits are the ones classified by C13 and its result is consumed
      inside the connect loop (a read error leads back to the connect call);
R18.5 main joins exactly the thread that owns the table;
R18.6 thread::spawn has one call site.
"""
from ..cfg import CFG, call_graph, reachable_bodies
from ..facts import Broken, callee_name, span_loc
from ..mirq import DefUse, operand_place
from ..report import Finding

LEVEL = "other"


def _calls(body, pred):
    return [(bb, t) for bb, t in body.calls() if pred(t["callee"])]


def _reach_with_consts(body, cfg, du, start, avoid):
    """blocks reachable from `start` without entering `avoid`, following a switch on a bool local only along the edge that
    matches the constant last assigned to it on this path (`let failed = match .. { Err(_) => true, .. }; if failed { sleep }`)"""
    seen = set()
    out = set()
    stack = [(start, ())]
    while stack:
        bb, env = stack.pop()
        if bb in avoid or (bb, env) in seen:
            continue
        seen.add((bb, env))
        out.add(bb)
        e = dict(env)
        blk = body.blocks[bb]
        for s_ in blk["stmts"]:
            if s_["k"] != "assign" or s_["place"]["proj"]:
                continue
            l = s_["place"]["local"]
            rv = s_["rv"]
            if rv["k"] == "use" and "const" in rv["x"] and rv["x"]["const"].get("ty") == "bool" and "int" in rv["x"]["const"]:
                e[l] = int(rv["x"]["const"]["int"])
            elif rv["k"] == "use" and operand_place(rv["x"]) and not operand_place(rv["x"])["proj"] and operand_place(rv["x"])["local"] in e:
                e[l] = e[operand_place(rv["x"])["local"]]
            else:
                e.pop(l, None)
        t = blk["term"]
        if t["k"] == "call" and not t["dest"]["proj"]:
            e.pop(t["dest"]["local"], None)
        nxt = cfg.succ[bb]
        if t["k"] == "switch":
            pl = operand_place(t["discr"])
            if pl and not pl["proj"] and pl["local"] in e:
                v = e[pl["local"]]
                tgt = t["otherwise"]
                for val, b2 in t["targets"]:
                    if int(val) == v:
                        tgt = b2
                nxt = [tgt]
        fe = tuple(sorted(e.items()))
        for n in nxt:
            stack.append((n, fe))
    return out


def _cnum(a):
    if "const" in a:
        c = a["const"]
        if "int" in c:
            return int(c["int"])
        if "float_bits" in c:
            import struct
            bits = int(c["float_bits"])
            return struct.unpack("<d", struct.pack("<Q", bits))[0] if c.get("float_size") == 8 else struct.unpack("<f", struct.pack("<I", bits))[0]
    return None


def _duration_secs(du, op, facts, depth=0):
    """seconds of a std::time::Duration operand built from constants (None = not a compile-time constant)"""
    if depth > 4:
        return None
    r = du.root(op)
    if r[0] == "const":
        # a named `const PAUSE: Duration = ...`: the driver dumps the evaluated struct
        v = (r[1] or {}).get("value")
        if isinstance(v, dict) and v.get("struct", "").endswith("time::Duration"):
            f = {x["name"]: x["v"] for x in v.get("fields", [])}
            try:
                secs = int(f["secs"]["int"])
                nn = f["nanos"]
                while "fields" in nn:
                    nn = nn["fields"][0]["v"]
                return secs + int(nn["int"]) * 1e-9
            except (KeyError, ValueError, TypeError):
                return None
        return None
    if r[0] != "call":
        return None
    c = r[1]["callee"]
    args = r[1]["args"]
    unit = {"Duration::from_secs": 1.0, "Duration::from_millis": 1e-3, "Duration::from_micros": 1e-6, "Duration::from_nanos": 1e-9,
            "Duration::from_secs_f64": 1.0, "Duration::from_secs_f32": 1.0, "Duration::from_mins": 60.0, "Duration::from_hours": 3600.0}
    for k, u in unit.items():
        if _path_is(c, k):
            v = _cnum(args[0])
            return None if v is None else v * u
    if _path_is(c, "Duration::new") and len(args) == 2:
        s_, n_ = _cnum(args[0]), _cnum(args[1])
        return None if s_ is None or n_ is None else s_ + n_ * 1e-9
    nm = c.get("name")
    if nm in ("add", "saturating_add", "sub", "saturating_sub") and len(args) == 2 and "Duration" in (c.get("instance") or c.get("path") or ""):
        x, y = _duration_secs(du, args[0], facts, depth + 1), _duration_secs(du, args[1], facts, depth + 1)
        if x is None or y is None:
            return None
        return x + y if "add" in nm else max(0.0, x - y)
    if nm in ("mul", "saturating_mul") and len(args) == 2 and "Duration" in (c.get("instance") or c.get("path") or ""):
        x = _duration_secs(du, args[0], facts, depth + 1)
        k = _cnum(args[1])
        return None if x is None or k is None else x * k
    return None


ERR_PRESERVING = ("and_then", "map", "inspect_err", "map_err", "inspect", "and")      # Result combinators under which Err stays Err


def _op_local(op):
    pl = operand_place(op)
    return pl["local"] if pl is not None else None


def _err_closure(body, start):
    """locals that are Err whenever a local of `start` is Err: moves / copies, the payload projections of a tainted value,
    Err-preserving Result combinators, `Try::branch` (Break <=> Err) and `from_residual` of its payload"""
    T = set(start)
    changed = True
    while changed:
        changed = False
        for blk in body.blocks:
            if blk["cleanup"]:
                continue
            for s_ in blk["stmts"]:
                if s_["k"] != "assign" or s_["place"]["proj"] or s_["place"]["local"] in T:
                    continue
                rv = s_["rv"]
                src = None
                if rv["k"] == "use":
                    src = _op_local(rv["x"])
                if src is not None and src in T:
                    T.add(s_["place"]["local"])
                    changed = True
            t = blk["term"]
            if t["k"] == "call" and not t["dest"]["proj"] and t["dest"]["local"] not in T and t["args"]:
                nm = t["callee"].get("name")
                p = t["callee"].get("path") or ""
                a0 = _op_local(t["args"][0])
                if a0 in T and ((nm in ERR_PRESERVING and "result::Result" in p) or (nm == "branch" and "Try" in p) or (nm == "from_residual")):
                    T.add(t["dest"]["local"])
                    changed = True
    return T


def _err_edges(body, T):
    """(block, successor) edges taken when a tainted Result / ControlFlow value is Err / Break (discriminant 1)"""
    out = []
    for bi, blk in enumerate(body.blocks):
        if blk["cleanup"]:
            continue
        dl = None
        for s_ in blk["stmts"]:
            if s_["k"] == "assign" and s_["rv"]["k"] == "discr" and not s_["rv"]["place"]["proj"] and s_["rv"]["place"]["local"] in T:
                dl = s_["place"]["local"]
        tt = blk["term"]
        if dl is not None and tt["k"] == "switch" and operand_place(tt["discr"]) and operand_place(tt["discr"])["local"] == dl:
            for v, b in tt["targets"]:
                if int(v) == 1:
                    out.append((bi, b))
            if not any(int(v) == 1 for v, _ in tt["targets"]) and [int(v) for v, _ in tt["targets"]] == [0]:
                out.append((bi, tt["otherwise"]))
    return out


def _wrapper_reports_failure(facts, w):
    """`fn connect_once(..) -> io::Result<TcpStream>`: a failed TcpStream::connect comes back as Err. Every definition of the
    return value either carries the connect result on (moves, Err-preserving combinators, `?`) or is an `Ok(..)` built where
    the connect result is known to be Ok (not reachable from the Err / Break edge of a decision on it)."""
    cs = _calls(w, lambda c: _path_is(c, "net::TcpStream::connect"))
    if len(cs) != 1 or cs[0][1]["dest"]["proj"]:
        return False
    T = _err_closure(w, {cs[0][1]["dest"]["local"]})
    cfg = CFG(w)
    after_err = set()
    for a, b in _err_edges(w, T):
        after_err |= set(cfg.reachable_from(b)) | {b}
    ok_defs = 0
    for bi, blk in enumerate(w.blocks):
        if blk["cleanup"] or bi not in cfg.reach:
            continue
        for s_ in blk["stmts"]:
            if s_["k"] == "assign" and s_["place"]["local"] == 0 and not s_["place"]["proj"]:
                rv = s_["rv"]
                if rv["k"] == "use" and _op_local(rv["x"]) in T:
                    continue
                if rv["k"] == "agg" and rv.get("adt", "").endswith("result::Result") and rv.get("variant") == "Ok" and bi not in after_err:
                    ok_defs += 1
                    continue
                if rv["k"] == "agg" and rv.get("adt", "").endswith("result::Result") and rv.get("variant") == "Err":
                    continue
                return False
        t = blk["term"]
        if t["k"] == "call" and t["dest"]["local"] == 0 and not t["dest"]["proj"] and 0 not in T:
            return False
    return 0 in T or ok_defs > 0


def _path_is(c, *suffixes):
    p = c.get("path") or ""
    i = c.get("instance") or ""
    return any(p.endswith(s) or i.endswith(s) for s in suffixes)


def run(facts, rep, tier):
    rep.explanation = (
        "Structural proof on the MIR of the TCP reader function (anchored on the call to TcpStream::connect): "
        "no Return terminator is reachable from entry over non-unwind edges; the connect-Err edge reaches the next "
        "connect only through thread::sleep(Duration::from_secs(c)) with c read from the constant operand; the table "
        "reference passed to the line reader is the function parameter (def-use root); inventory of Planes::new / "
        "thread::spawn / join call sites over the whole crate (lib + bin)."
    )
    rep.trusted = ["rustc MIR", "std: thread::sleep, Duration::from_secs, TcpStream::connect semantics"]
    for rid, txt in [
        ("R18.1", "TCP function never returns and cannot exit the process"),
        ("R18.2", "a failed connect is followed by a 3..8 s sleep before the next attempt"),
        ("R18.3", "the same table is used across connections; Planes::new only in main"),
        ("R18.4", "a read error returns control to the connect loop"),
        ("R18.5", "main joins the reader thread"),
        ("R18.6", "thread::spawn has one call site"),
        ("R18.7", "a partial last line of a dropped connection is not carried into the next one"),
        ("R18.8", "no other mutable state of the connect function is carried from one connection into the next"),
        ("R18.9", "the connection-handling code around the line reader has no panic site of its own"),
    ]:
        rep.rule(rid, txt, "P")

    tcp_bodies = [b for b in facts.bodies.values() if b.kind != "promoted"
                  and _calls(b, lambda c: _path_is(c, "net::TcpStream::connect"))]
    if len(tcp_bodies) != 1:
        raise Broken("C18 anchor: %d bodies call TcpStream::connect" % len(tcp_bodies))
    tcp = tcp_bodies[0]
    cfg = CFG(tcp)
    du = DefUse(tcp)
    connect_bb, connect_t = _calls(tcp, lambda c: _path_is(c, "net::TcpStream::connect"))[0]
    wrapped = None
    if not any(connect_bb in blks for blks in cfg.loops().values()):
        # `loop { match connect_once(addr).and_then(|s| serve(s, ..)) { .. } }`: the connect call sits in a helper; the loop
        # belongs to the (single) caller. The helper must hand a failed connect back as Err (R18.2 then follows that value).
        cg0 = call_graph(facts)
        owners = [b for b in facts.bodies.values() if b.kind == "fn" and any(tgt == tcp.name for _, _, tgt in cg0.get(b.name, []))]
        if len(owners) == 1 and _wrapper_reports_failure(facts, tcp):
            ocfg = CFG(owners[0])
            sites = [(bb, t) for bb, t in owners[0].calls() if callee_name(t) == tcp.name and any(bb in blks for blks in ocfg.loops().values())]
            if len(sites) == 1:
                wrapped = tcp
                tcp = owners[0]
                cfg = ocfg
                du = DefUse(tcp)
                connect_bb, connect_t = sites[0]
        if wrapped is None:
            raise Broken("C18 anchor: TcpStream::connect is not in a loop of %s, and its caller is not a recognised connect loop" % tcp.name)
    rep.extra["connect_loop"] = {"function": tcp.name, "connect_in": (wrapped or tcp).name}

    # R18.1
    rets = [bb for bb in cfg.reach if tcp.blocks[bb]["term"]["k"] == "return"]
    rep.instances("R18.1", 1, floor=1, what="TCP function bodies")
    rep.oblige(not rets, ("no-return", tcp.name))
    if rets:
        t = tcp.blocks[rets[0]]["term"]
        rep.add(Finding("R18.1", "%s : Return reachable" % tcp.name,
                        "the TCP reader can return (%d reachable Return terminators): the decoder would stop on a feed interruption" % len(rets),
                        span_loc(t.get("span")) if t.get("span") else tcp.loc()))
    cg = call_graph(facts)
    reach = reachable_bodies(facts, [tcp.name], cg)
    bad = []
    for n in sorted(reach):
        for bb, t in facts.bodies[n].calls():
            p = t["callee"].get("path") or ""
            if p in ("std::process::exit", "std::process::abort"):
                bad.append((n, p, t))
    rep.oblige(not bad, ("no-exit", tcp.name))
    for n, p, t in bad:
        rep.add(Finding("R18.1", "%s : %s reachable from TCP reader" % (n, p),
                        "%s is reachable from the TCP reader" % p, span_loc(t.get("span"))))
    # the connect call must sit in a loop
    loops = cfg.loops()
    inloop = [h for h, blks in loops.items() if connect_bb in blks]
    rep.oblige(bool(inloop), ("connect-loop", tcp.name))
    if not inloop:
        rep.add(Finding("R18.1", "%s : connect not in a loop" % tcp.name, "TcpStream::connect is not retried in a loop", tcp.loc()))

    # R18.2: Err edge of the connect result (or of what an Err-preserving chain makes of it)
    dest = connect_t["dest"]["local"]
    err_edges = _err_edges(tcp, _err_closure(tcp, {dest}))
    if not err_edges:
        raise Broken("C18 anchor: no Ok/Err decision on the connect result")
    sleeps = {}
    for bb, t in tcp.calls():
        if _path_is(t["callee"], "thread::sleep"):
            secs = _duration_secs(du, t["args"][0], facts)
            sleeps[bb] = secs
    good = {bb for bb, s in sleeps.items() if s is not None and 3 <= s <= 8}
    n = 0
    for a, b in err_edges:
        n += 1
        # can we get from b back to the connect call avoiding all good sleep blocks?
        r = _reach_with_consts(tcp, cfg, du, b, good)
        ok = connect_bb not in r and b not in () and bool(good)
        if b in good:
            ok = True
        rep.oblige(ok, ("sleep", a, b))
        rep.sample({"rule": "R18.2", "err_edge": [a, b], "sleep_seconds": sorted(set(s for s in sleeps.values() if s is not None)), "ok": ok})
        if not ok:
            rep.add(Finding("R18.2", "%s : retry without 3..8 s pause" % tcp.name,
                            "after a failed connect the next attempt can be reached without sleeping 3..8 s (sleeps seen: %s)"
                            % sorted(str(s) for s in sleeps.values()), span_loc(connect_t.get("span"))))
    rep.instances("R18.2", n, floor=1, what="connect-Err edges")

    # R18.3: table reference passed to the line reader
    readers = []
    for bb, t in tcp.calls():
        tgt = callee_name(t)
        if tgt in facts.bodies and tgt != tcp.name:
            for a in t["args"]:
                pl = operand_place(a)
                if pl and tcp.locals[pl["local"]]["ty"]["s"].endswith("Planes") and tcp.locals[pl["local"]]["ty"]["k"] == "ref":
                    readers.append((bb, t, a))
    # the reader may be called from a closure of the loop function (`.and_then(|stream| serve(stream, args, planes))`): the
    # table it passes is a capture; the captured operand at the closure's creation is what must be the parameter
    via_closure = {}
    for bi_, blk_ in enumerate(tcp.blocks):
        if blk_["cleanup"]:
            continue
        for s_ in blk_["stmts"]:
            if s_["k"] == "assign" and s_["rv"]["k"] == "agg" and s_["rv"].get("agg") == "closure" and s_["rv"]["closure"] in facts.bodies:
                cb_ = facts.bodies[s_["rv"]["closure"]]
                cdu_ = DefUse(cb_)
                for cbb, ct in cb_.calls():
                    ctgt = callee_name(ct)
                    if ctgt not in facts.bodies:
                        continue
                    for a in ct["args"]:
                        pl = operand_place(a)
                        if pl and cb_.locals[pl["local"]]["ty"]["s"].endswith("Planes") and cb_.locals[pl["local"]]["ty"]["k"] == "ref":
                            cr = cdu_.root(a)
                            cap = [p_ for p_ in (cr[2] if cr[0] == "arg" and cr[1] == 1 else []) if p_["k"] == "field" and "closure" in p_]
                            if len(cap) == 1 and cap[0]["i"] < len(s_["rv"]["ops"]):
                                # the block in the loop function where the closure is handed to its caller
                                use_bb = [bb2 for bb2, t2 in tcp.calls() if any(_op_local(x) == s_["place"]["local"] for x in t2["args"])]
                                via_closure[id(ct)] = use_bb[0] if use_bb else bi_
                                readers.append((via_closure[id(ct)], ct, s_["rv"]["ops"][cap[0]["i"]]))
                            else:
                                readers.append((bi_, ct, None))
    if not readers:
        raise Broken("C18 anchor: the TCP function passes no &mut Planes to a line reader")
    for bb, t, a in readers:
        r = du.root(a) if a is not None else ("unknown",)
        ok = r[0] == "arg" and all(p["k"] in ("deref", "addr") for p in r[2])
        rep.oblige(ok, ("same-table", bb))
        rep.sample({"rule": "R18.3", "call": callee_name(t), "table_arg_root": "fn parameter %s" % r[1] if r[0] == "arg" else r[0]})
        if not ok:
            rep.add(Finding("R18.3", "%s : table passed to %s is not the parameter" % (tcp.name, callee_name(t)),
                            "the table handed to the line reader is not the TCP function's own parameter (a fresh or replaced table would lose aircraft)",
                            span_loc(t.get("span"))))
    # ... and nothing on the connection-handling path touches the table except the line reader itself
    from ..effects import Effects
    from ..region import _reach_names
    eff = Effects(facts)
    n_other = 0
    for bb, t in tcp.calls():
        tgt = callee_name(t)
        if tgt in facts.bodies and any(x == "get_message" or x.endswith("::get_message") for x in _reach_names(facts, tgt)):
            continue  # the line reader
        e = eff.of_call(t)
        st = [x for x in e if x[0] == "table" or (x[0] == "field" and x[1].split("::")[-1] in ("Plane", "Planes"))]
        n_other += 1
        rep.oblige(not st, ("no-table-effect", tgt))
        if st:
            rep.add(Finding("R18.3", "%s : %s changes the table outside the line reader" % (tcp.name, tgt),
                            "the connection handling itself modifies the table (%s): aircraft heard before an outage are not kept as they were"
                            % ", ".join(sorted(set("%s" % (x[1] if x[0] == "table" else x[2]) for x in st))), span_loc(t.get("span"))))
    news = []
    for n_, b in list(facts.bodies.items()) + list(facts.bin_bodies.items()):
        if b.kind == "promoted" or "::tests::" in n_:
            continue
        for bb, t in b.calls():
            if _path_is(t["callee"], "Planes::new") or _path_is(t["callee"], "Planes as std::default::Default>::default"):
                news.append((n_, t))
    callers = sorted(set(n_ for n_, _ in news) - {"<decoder::planes::Planes as std::default::Default>::default"})
    ok = callers == ["main"]
    rep.oblige(ok, ("planes-new",))
    if not ok:
        rep.add(Finding("R18.3", "Planes::new call sites %s" % callers, "the table is constructed outside main: %s" % callers, None))
    rep.instances("R18.3", len(readers) + 1, floor=2, what="reader calls + Planes::new inventory")

    # R18.4: result of the line reader consumed in the loop (no `?`/return on it) -> implied by R18.1 (no Return);
    # check that after the reader call the connect call is reachable again
    n = 0
    for bb, t, a in readers:
        n += 1
        if id(t) in via_closure:
            tt_ = tcp.blocks[bb]["term"]
            ok = tt_.get("target") is not None and connect_bb in cfg.reachable_from(tt_["target"])
        else:
            ok = t.get("target") is not None and connect_bb in cfg.reachable_from(t["target"])
        rep.oblige(ok, ("back-to-connect", bb))
        if not ok:
            rep.add(Finding("R18.4", "%s : no way back to connect after the reader" % tcp.name,
                            "after the line reader ends, control cannot reach the next connect", span_loc(t.get("span"))))
    rep.instances("R18.4", n, floor=1)

    # R18.7: nothing of a dropped connection's partial last line survives into the next connection (line-buffer discipline)
    try:
        from ..effects import Effects as _Eff
        from ..linebuf import analyse as _lb
        from ..region import Region
        from .c13 import PURE_IO
        _reg = Region(facts, _Eff(facts))
        _ex, _bufs, _probs = _lb(_reg, _reg.du, PURE_IO)
        n7 = max(1, len(_bufs))
        for key, title, detail, loc in _probs:
            rep.oblige(False, key)
            rep.add(Finding("R18.7", "%s : %s" % (_reg.proc.name, title),
                            detail + " - a connection reset in the middle of a line is then not 'just another malformed line'", loc))
        rep.oblige(True, ("line-buffers", n7))
        rep.instances("R18.7", n7, floor=1, what="line buffers of the reader loop (none = one fresh line per iteration)")
    except Broken:
        rep.instances("R18.7", 1, floor=0)
    # R18.9: what happens between two connections - connecting, reporting how the last one ended, pausing - must not be able
    # to panic: a panic there ends the connect loop just as a Return would (R18.1). The line reader's own callees are C01's
    # and C13's business; here: the connect function, its helpers down to and including the function that owns the line loop.
    from .c01 import panic_sites
    try:
        from ..effects import Effects as _Eff2
        from ..region import Region as _Region2
        _proc = _Region2(facts, _Eff2(facts)).proc.name
    except Broken:
        _proc = None
    below = reachable_bodies(facts, [_proc], cg) - {_proc} if _proc else set()
    n9 = 0
    for nme in sorted(reach - below):
        b9 = facts.bodies[nme]
        if b9.kind == "promoted":
            continue
        n9 += 1
        for t9, bad9, src9 in panic_sites(b9):
            rep.oblige(bad9 is None, ("glue-panic", nme, bad9 or src9))
            if bad9 is not None:
                rep.add(Finding("R18.9", "%s : %s in the connection handling" % (nme, bad9),
                                "%s runs between connections and contains a panic site (%s): a connection that ends in the state "
                                "that trips it terminates the decoder instead of being retried" % (nme, bad9), span_loc(t9.get("span"))))
    rep.instances("R18.9", n9, floor=1, what="bodies of the connection handling scanned for panic sites")
    # R18.8: apart from the table (and the options), nothing that is modified while the decoder runs is carried from one
    # connection into the next: a local of the connect function created before the loop, borrowed mutably inside it and
    # handed to the per-connection reader is state that survives the interruption (a clock, a session, a parser)
    n8 = 0
    if inloop:
        lblks = set()
        for h in inloop:
            lblks |= set(loops[h])
        mut_in_loop = set()
        for bi in lblks:
            for s_ in tcp.blocks[bi]["stmts"]:
                if s_["k"] == "assign" and s_["rv"]["k"] == "ref" and s_["rv"].get("mut") and not any(p_["k"] == "deref" for p_ in s_["rv"]["place"]["proj"]):
                    mut_in_loop.add(s_["rv"]["place"]["local"])

        def base_local(op, depth=0):
            pl = operand_place(op)
            if pl is None or depth > 8:
                return None
            l = pl["local"]
            ds = du.whole_defs(l)
            if len(ds) == 1 and ds[0][0] == "stmt":
                rv = ds[0][3]["rv"]
                if rv["k"] == "ref":
                    return rv["place"]["local"]
                if rv["k"] == "use":
                    return base_local(rv["x"], depth + 1)
            return l

        def defined_outside(l):
            if l <= tcp.arg_count:
                return False
            ds = du.whole_defs(l)
            return bool(ds) and all(d[1] not in lblks for d in ds)

        handed = []
        for bi in sorted(lblks):
            for s_ in tcp.blocks[bi]["stmts"]:
                # what a closure created inside the loop captures is handed to the code of that closure
                if s_["k"] == "assign" and s_["rv"]["k"] == "agg" and s_["rv"].get("agg") == "closure":
                    handed.append((bi, {"k": "call", "callee": {"path": s_["rv"]["closure"], "instance": s_["rv"]["closure"]}, "args": s_["rv"]["ops"], "span": s_.get("span")}))
            t = tcp.blocks[bi]["term"]
            if t["k"] == "call" and callee_name(t) in facts.bodies:
                handed.append((bi, t))
        for bi, t in handed:
            for a in t["args"]:
                l = base_local(a)
                if l is None:
                    continue
                n8 += 1
                bad8 = defined_outside(l) and l in mut_in_loop
                rep.oblige(not bad8, ("cross-connection", bi, l))
                if bad8:
                    nm = tcp.locals[l].get("name") or "_%d" % l
                    rep.add(Finding("R18.8", "%s : `%s` lives across connections" % (tcp.name, nm),
                                    "`%s` (%s) is created before the connect loop, modified inside it and handed to %s: besides the table, "
                                    "state of one connection reaches the next (what is decoded after a reconnect depends on the history of "
                                    "interruptions)" % (nm, tcp.locals[l]["ty"]["s"], callee_name(t)), span_loc(t.get("span"))))
    rep.instances("R18.8", n8, floor=2, what="arguments handed to crate functions inside the connect loop")
    # R18.5 / R18.6
    spawns = []
    for n_, b in list(facts.bodies.items()) + list(facts.bin_bodies.items()):
        if b.kind == "promoted":
            continue
        for bb, t in b.calls():
            if _path_is(t["callee"], "thread::spawn") or (t["callee"].get("path") or "").startswith("std::thread::Builder"):
                spawns.append((n_, t))
    rep.instances("R18.6", len(spawns), floor=1, what="thread::spawn call sites")
    rep.oblige(len(spawns) == 1, ("spawn-once",))
    if len(spawns) != 1:
        rep.add(Finding("R18.6", "thread::spawn sites=%d" % len(spawns), "expected exactly one spawned thread, found %d" % len(spawns), None))
    main = facts.bin_bodies.get("main")
    if main is None:
        raise Broken("C18 anchor: no `main` body in the bin target")
    mdu = DefUse(main)
    joins = [(bb, t) for bb, t in main.calls() if _path_is(t["callee"], "JoinHandle::<T>::join", "JoinHandle<T>::join") or t["callee"].get("name") == "join"]
    ok = False
    for bb, t in joins:
        r = mdu.root(t["args"][0])
        if r[0] == "call" and callee_name(r[1]).endswith("spawn_reader_thread"):
            ok = True
    rep.instances("R18.5", len(joins), floor=1, what="join calls in main")
    rep.oblige(ok, ("join",))
    if not ok:
        rep.add(Finding("R18.5", "main : reader thread not joined", "main does not block on join() of the reader thread", main.loc()))
    # the TCP function must be what the thread closure runs when args.tcp is non-empty
    spawn_closures = [b for b in facts.bodies.values() if b.kind == "closure" and any(callee_name(t) == tcp.name for _, t in b.calls())]
    rep.oblige(len(spawn_closures) == 1, ("dispatch",))
    rep.extra["tcp_fn"] = tcp.name
    rep.extra["return_terminators"] = len(rets)
    rep.extra["sleeps"] = {str(k): v for k, v in sleeps.items()}
    rep.assumptions += ["OS socket semantics and the real duration of the pause are not decided",
                        "panic-freedom inside the loop is C01's obligation"]
