"""C05 — barometric altitude equals the Mode S altitude-code decoding.

R05.1 provenance: the value stored to Plane.altitude depends (data and control) only on the altitude field of the frame:
      AC13 bits 20-32 for DF4/DF20, AC12 bits 41-52 for DF17 TC 9-18;
R05.2 Q=1 (M=0): the stored value is Some(25*N - 1000) with N the exact affine form of the 11 remaining bits, refined to
      [0, 50175] (negative values give no altitude), nothing else is dropped;
R05.3 an all-zero code never yields a value;
R05.4 Q=0, M=0 (Gillham): for each of the 8 C1 C2 C4 classes the stored value, an affine form over GF(2)-linear atoms
      (Gray->binary XOR-sets), must equal the Annex 10 decoding 500*N500 + 100*N100' - 1300 (illegal C codes -> no value);
R05.5 writers: altitude is stored only by DF4/DF20 and DF17 TC 5-18 frames (TC 5-8: blank), on both update paths and on
      creation, with the same value on both paths.
"""
import hashlib

from ..absint.batch import k2_results
from ..absint.domain import Aff, EnumV, IntV
from ..absint.query import accepted, frame_deps, int_aff, option_some_payload, sel, stores_of, unchanged
from ..facts import Broken
from ..report import Finding

LEVEL = "other"

AC13 = set(range(20, 33))
AC12 = set(range(41, 53))
# Q=1: bits of N, MSB first
N_AC13 = [20, 21, 22, 23, 24, 25, 27, 29, 30, 31, 32]
N_AC12 = [41, 42, 43, 44, 45, 46, 47, 49, 50, 51, 52]
# Gillham: 500-ft Gray code D2 D4 A1 A2 A4 B1 B2 B4 (MSB first) in AC13 positions; C1 C2 C4 = bits 20 22 24
GRAY500 = [30, 32, 21, 23, 25, 27, 29, 31]


def q1_expected(bits):
    t = {}
    for i, b in enumerate(bits):
        t[("b", b)] = 25 * (1 << (len(bits) - 1 - i))
    return Aff(-1000, t)


def gillham_expected(cval):
    """expected affine form (over XOR atoms) for C1C2C4 = cval, or None if the code is illegal"""
    c1, c2, c4 = (cval >> 2) & 1, (cval >> 1) & 1, cval & 1
    one = 4 * c1 + 2 * (c1 ^ c2) + (c1 ^ c2 ^ c4)
    if one == 7:
        one = 5
    if one == 0 or one > 5:
        return None
    t = {}
    acc = set()
    n = len(GRAY500)
    g0 = None
    for i, b in enumerate(GRAY500):
        acc = acc ^ {b}
        atom = ("b", next(iter(acc))) if len(acc) == 1 else ("x", frozenset(acc), 0)
        w = 500 * (1 << (n - 1 - i))
        t[atom] = t.get(atom, 0) + w
        g0 = atom
    # odd 500-ft count reverses the 100-ft sequence: one' = one + (6 - 2*one) * g0
    t[g0] = t.get(g0, 0) + 100 * (6 - 2 * one)
    return Aff(100 * one - 1300, {a: v for a, v in t.items() if v})


def run(facts, rep, tier):
    rep.explanation = (
        "E2 abstract interpretation with the altitude code symbolic and Q/M (and, for Gillham, the C bits) enumerated: the "
        "value stored to Plane.altitude is an exact affine form over frame bits (Q=1) or over GF(2)-linear atoms (Gray "
        "conversion), compared with the standard's formula; dependency sets (data + control) give 'from nothing else'; the "
        "store inventory over all DF/TC contexts gives the writers."
    )
    rep.trusted = ["rustc MIR", "E2 transfer functions", "Annex 10 altitude code layout and Gillham tables (in the rule)"]
    rep.rule("R05.1", "altitude depends only on the frame's altitude field", "P")
    rep.rule("R05.2", "Q=1: Some(25N-1000) refined to >= 0", "P")
    rep.rule("R05.3", "all-zero code: never a value", "P")
    rep.rule("R05.4", "Q=0: Gillham decoding per C class equals Annex 10", "P")
    rep.rule("R05.5", "altitude written only by DF4/20 and TC5-18; both paths agree", "P")
    rep.rule("R05.6", "every altitude-carrying frame applies its decoding to an existing row (a code without a value blanks it, never a stale value)", "P")
    out = k2_results(facts, tier)
    results = out["results"]

    def field_of(r):
        if r.df in (4, 20):
            return AC13, N_AC13
        return AC12, N_AC12

    def alt_store(r):
        sts = stores_of(r, "altitude")
        if r.post_create is not None and not sts:
            return None
        return sts

    n1 = n2 = n3 = n5 = 0
    # ---- R05.1/.2/.3 on the altitude-class contexts
    for r in sel(results, "A"):
        if not accepted(r):
            raise Broken("C05: altitude context %s not accepted: %s" % (r.ctx["label"], r.diverged))
        fld, nbits = field_of(r)
        tags = r.ctx["tags"]
        sts = stores_of(r, "altitude")
        vals = [v for _, v, _ in sts]
        if r.post_create is not None and r.df not in (20, 21):
            # (a DF20/21 frame that creates the row may contribute the address only)
            vals.append(r.post_create.fields.get("altitude"))
        if "gillham" in tags:
            continue
        for v in vals:
            n1 += 1
            fd = frame_deps(v)
            bad = sorted(fd - fld)
            ok = not bad
            rep.oblige(ok, ("prov", r.ctx["label"]))
            if not ok:
                which = "Q=0 (Gillham)" if "alt-q0" in tags else ("zero code" if "alt-zero" in tags else ("Q=1" if "alt-q1" in tags else "M=1"))
                rep.add(Finding("R05.1", "altitude of DF%d %s depends on bits outside the altitude field" % (r.df, which),
                                "DF%d %s: the altitude depends on frame bits %s, outside the altitude field %d-%d (context '%s')"
                                % (r.df, which, _ranges(bad), min(fld), max(fld), r.ctx["label"]), None, {"bits": bad}))
        if "alt-q1" in tags:
            want = q1_expected(nbits)
            for v in vals:
                n2 += 1
                only, p = option_some_payload(v)
                a = int_aff(p) if p is not None else None
                from ..absint.query import same_fn
                ok = isinstance(v, EnumV) and v.may("None") and v.may("Some") and (a == want or same_fn(p, want)) and p.lo == 0 and p.hi == 50175
                rep.oblige(ok, ("q1", r.ctx["label"]))
                if n2 <= 2:
                    rep.sample({"rule": "R05.2", "context": r.ctx["label"], "value": repr(v)[:200]})
                if not ok:
                    rep.add(Finding("R05.2", "Q=1 altitude of DF%d%s" % (r.df, " U" if r.ctx.get("U") else ""),
                                    "DF%d Q=1 (context '%s'): stored altitude is %r; expected None for codes below 0 ft and Some(%s) in [0,50175] otherwise"
                                    % (r.df, r.ctx["label"], v, want.show()), None))
            if not sts:
                rep.add(Finding("R05.5", "DF%d Q=1 frame does not store altitude" % r.df, "context '%s' stores no altitude" % r.ctx["label"], None))
        if "alt-zero" in tags:
            for v in vals:
                n3 += 1
                ok = isinstance(v, EnumV) and v.only("None")
                rep.oblige(ok, ("zero", r.ctx["label"]))
                if not ok:
                    rep.add(Finding("R05.3", "all-zero altitude code of DF%d yields a value" % r.df,
                                    "DF%d with an all-zero altitude code (context '%s') stores %r" % (r.df, r.ctx["label"], v), None))
    # ---- R05.6: the update is unconditional: after the frame the row's altitude is the frame's decoding, never the old value
    n6 = 0
    for r in sel(results, "A"):
        if "gillham" in r.ctx["tags"] or r.post_update is None:
            continue
        n6 += 1
        v = r.post_update.fields.get("altitude")
        from ..absint.query import ctl_other_deps, other_deps
        stale = unchanged(r, "altitude") or any(isinstance(d, tuple) and d[:2] == ("pre", "altitude") for d in other_deps(v))
        ok = not stale
        if "alt-zero" in r.ctx["tags"]:
            ok = ok and isinstance(v, EnumV) and v.only("None")
        rep.oblige(ok, ("applies", r.ctx["label"]))
        if not ok:
            rep.add(Finding("R05.6", "DF%d altitude not applied to an existing row (%s path)" % (r.df, "U" if r.ctx.get("U") else "D"),
                            "context '%s': after the frame the row's altitude may still be the previous value (%r)" % (r.ctx["label"], v), None))
    rep.instances("R05.6", n6, floor=20)
    rep.instances("R05.1", n1, floor=20, what="altitude values (stores + created rows) in altitude-class contexts")
    rep.instances("R05.2", n2, floor=8)
    rep.instances("R05.3", n3, floor=3)

    # ---- R05.4 Gillham per C class: compared as FUNCTIONS of the 500-ft Gray bits (tabulated over the bits involved), so an
    # implementation by shifts, by loops or by lookup tables is judged by what it computes, not by how it is written
    from ..absint.query import aff_table, fn_table
    got = {}
    gtab = {}
    exp = {}
    n4 = 0
    atoms_all = set(GRAY500)
    payloads = {}
    for r in sel(results, "gillham"):
        cval = int([t for t in r.ctx["tags"] if t.startswith("c") and t[1:].isdigit()][0][1:])
        n4 += 1
        sts = stores_of(r, "altitude")
        v = sts[-1][1] if sts else None
        exp[cval] = gillham_expected(cval)
        payloads[cval] = None
        if isinstance(v, EnumV):
            if v.only("None"):
                got[cval] = None
            else:
                p = v.payload("Some")
                payloads[cval] = p
                a = int_aff(p)
                got[cval] = a if a is not None else "unknown(%s)" % sorted(frame_deps(p))
                ft = fn_table(p)
                if ft is not None:
                    atoms_all |= set(ft[0])
        else:
            got[cval] = "no store"
    if n4 != 8:
        raise Broken("C05: expected 8 Gillham C-class contexts, got %d" % n4)
    atoms = tuple(sorted(atoms_all))
    mism = []
    canon_parts = []
    for c in range(8):
        p = payloads.get(c)
        tab = None
        if p is not None and len(atoms) <= 12:
            ft = fn_table(p, atoms)
            # (a negative entry is an assignment for which the u32 subtraction yields no altitude: same as undefined)
            tab = tuple(None if (x is None or x < 0) else x for x in ft[1]) if ft is not None else None
        gtab[c] = tab
        e = exp[c]
        if e is None:
            same = got.get(c) is None
        elif tab is None:
            same = isinstance(got.get(c), Aff) and got[c] == e
        else:
            want = aff_table(e, atoms)
            # (entries the implementation leaves undefined - below 0 ft - are not compared)
            same = all(g is None or g == w for g, w in zip(tab, want))
        if not same:
            mism.append(c)
        canon_parts.append("%d:%s" % (c, "none" if got.get(c) is None else (",".join("-" if x is None else str(x) for x in tab) if tab is not None
                                                                             else (got[c].show() if isinstance(got[c], Aff) else str(got[c])))))
    for c in range(8):
        rep.oblige(c not in mism, ("gillham", c))
    rep.instances("R05.4", n4, floor=8, what="C1C2C4 classes, each compared over all assignments of the Gray bits")
    if mism:
        canon = "bits%s|" % list(atoms) + "|".join(canon_parts)
        fp = hashlib.sha1(canon.encode()).hexdigest()[:10]
        # what is wrong, in words
        used = set()
        for c in range(8):
            if isinstance(got[c], Aff):
                for a in got[c].t:
                    used |= set([a[1]]) if a[0] == "b" else set(a[1])
            elif payloads.get(c) is not None and fn_table(payloads[c]) is not None:
                ft = fn_table(payloads[c])
                for i, bit in enumerate(ft[0]):
                    if any(ft[1][m] != ft[1][m ^ (1 << i)] for m in range(len(ft[1]))):
                        used.add(bit)
        missing = [b for b in GRAY500 if b not in used]
        consts = {c: (got[c].c if isinstance(got[c], Aff) else (gtab[c][0] if gtab.get(c) else got[c])) for c in range(8)}
        c0 = mism[0]
        eg = ""
        if gtab.get(c0) is not None and exp[c0] is not None:
            want = aff_table(exp[c0], atoms)
            for m, (g, w) in enumerate(zip(gtab[c0], want)):
                if g is not None and g != w:
                    eg = "; e.g. class %d with Gray bits %s: got %s ft, Annex 10 says %s ft" % (
                        c0, {b: (m >> i) & 1 for i, b in enumerate(atoms) if b in GRAY500}, g, w)
                    break
        msg = ("Gillham (Q=0) decoding differs from Annex 10 in C classes %s: 500-ft Gray bits never read: %s (of D2 D4 A1 A2 A4 B1 B2 B4 = bits %s); "
               "value at all-zero Gray bits per C1C2C4 class got %s, expected %s%s"
               % (mism, missing, GRAY500, consts, {c: (exp[c].c if exp[c] is not None else None) for c in range(8)}, eg))
        rep.add(Finding("R05.4", "Gillham decode != Annex 10 [table %s]" % fp, msg, None, {"got": canon[:2000]}))
    rep.sample({"rule": "R05.4", "class": 2, "got": got[2].show() if isinstance(got.get(2), Aff) else str(got.get(2)),
                "expected": exp[2].show() if exp.get(2) is not None else None})

    # ---- R05.5 writers over all contexts, and path agreement
    byctx = {}
    for r in results:
        if not accepted(r) or r.df is None:
            continue
        n5 += 1
        tags = r.ctx["tags"]
        tc = None
        for t in tags:
            if t.startswith("tc"):
                tc = int(t[2:])
        may_write = r.df in (4, 20) or (r.df in (17, 18) and tc is not None and 5 <= tc <= 18) or (r.df in (17, 18) and tc is None)
        sts = stores_of(r, "altitude")
        if not may_write:
            ok = not sts and unchanged(r, "altitude")
            rep.oblige(ok, ("writer", r.ctx["label"]))
            if not ok:
                rep.add(Finding("R05.5", "altitude written by DF%s%s" % (r.df, " TC%d" % tc if tc is not None else ""),
                                "context '%s' changes the altitude although its format does not carry one" % r.ctx["label"], None))
        if r.df == 17 and tc is not None and 5 <= tc <= 8:
            for _, v, _ in sts:
                ok = isinstance(v, EnumV) and v.only("None")
                rep.oblige(ok, ("surface-blank", r.ctx["label"]))
                if not ok:
                    rep.add(Finding("R05.5", "surface squitter TC%d stores an altitude" % tc, "context '%s' stores %r" % (r.ctx["label"], v), None))
        # path agreement: same context label modulo U
        key = r.ctx["label"].rsplit(" U", 1)[0]
        if sts and ("A" in tags):
            byctx.setdefault(key, {})[bool(r.ctx.get("U"))] = sts[-1][1]
    for key, d in byctx.items():
        if True in d and False in d:
            a, b = d[True], d[False]
            pa, pb = option_some_payload(a)[1], option_some_payload(b)[1]
            same = (pa is None and pb is None) or (isinstance(pa, IntV) and isinstance(pb, IntV) and (int_aff(pa) == int_aff(pb)) and pa.lo == pb.lo and pa.hi == pb.hi)
            rep.oblige(same, ("paths", key))
            if not same:
                rep.add(Finding("R05.5", "altitude differs between update paths: %s" % key,
                                "with -U the stored altitude is %r, without it %r" % (a, b), None))
    rep.instances("R05.5", n5, floor=150, what="accepted contexts (writer inventory)")
    rep.extra["contexts"] = len(results)
    rep.assumptions += ["M=1 (metric) codes are unconstrained by the property",
                        "within [0,50175] the Q=1 check is exact on the formula and on the range ends (a predicate rejecting interior values is not excluded)"]


def _ranges(bits):
    out = []
    s = sorted(bits)
    i = 0
    while i < len(s):
        j = i
        while j + 1 < len(s) and s[j + 1] == s[j] + 1:
            j += 1
        out.append("%d-%d" % (s[i], s[j]) if j > i else "%d" % s[i])
        i = j + 1
    return ",".join(out)
